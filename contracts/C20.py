"""C20 -- built-in AES equals FIPS-197 AES (ECB/CBC) for every key and block.

The specification below is written from FIPS-197 / SP 800-38A, independently of
the code: GF(2^8) arithmetic by the defining polynomial, S-box as affine map of
the multiplicative inverse, ShiftRows/MixColumns/KeyExpansion/Cipher/InvCipher
as in the standard.  It is evaluated on the standard's known-answer vectors on
every run (guards the spec itself).  Bytes are 8-bit vectors.
"""
import z3

from pyvc import loader, ops
from pyvc.contracts import FnContract, LoopSpec, Raises
from pyvc.state import HeapObj
from pyvc.values import VTable, NONE, VBool, VBytes, VExt, VFunc, VInt, VRef, VSeq, VStr, VTuple, VUnk, ext_sort, fresh_name
from pyvc.verify import Maker, p_bv, p_bytes, p_const, p_list_bv

AES = "sharepoint2text/parsing/extractors/pdf/_pypdf_aes_fallback.py"
BV8 = z3.BitVecSort(8)


def bv(x):
    return z3.BitVecVal(x, 8)


# ------------------------------------------------------------------ GF(2^8) --
def xtime(a):
    """{02} . a  modulo x^8+x^4+x^3+x+1 (mask form: no branching)."""
    if isinstance(a, int):
        return ((a << 1) ^ (0x1B if a & 0x80 else 0)) & 0xFF
    msb = z3.Extract(7, 7, a)
    mask = z3.Concat(*[msb] * 8)
    return (a << 1) ^ (mask & bv(0x1B))


def gmul_const(a, c):
    """{c} . a for a constant c, by the binary expansion of c."""
    acc = None
    p = a
    while c:
        if c & 1:
            acc = p if acc is None else acc ^ p
        p = xtime(p)
        c >>= 1
    return acc if acc is not None else (0 if isinstance(a, int) else bv(0))


def gmul(a, b):
    """a . b for two symbolic bytes: carry-less product reduced by 0x11B."""
    a15 = z3.ZeroExt(7, a)
    prod = z3.BitVecVal(0, 15)
    for i in range(8):
        bit = z3.Extract(i, i, b)
        mask = z3.Concat(*[bit] * 15)
        prod = prod ^ ((a15 << i) & mask)
    # reduce bits 14..8
    for i in range(14, 7, -1):
        bit = z3.Extract(i, i, prod)
        mask = z3.Concat(*[bit] * 15)
        prod = prod ^ (z3.BitVecVal(0x11B << (i - 8), 15) & mask)
    return z3.Extract(7, 0, prod)


# plain-python GF arithmetic for the (ground) table specifications
def _pmul(a, b):
    r = 0
    for i in range(8):
        if (b >> i) & 1:
            r ^= a << i
    for i in range(14, 7, -1):
        if (r >> i) & 1:
            r ^= 0x11B << (i - 8)
    return r


def _pinv(a):
    if a == 0:
        return 0
    for x in range(1, 256):
        if _pmul(a, x) == 1:
            return x


def _affine(b):
    r = 0
    for i in range(8):
        bit = ((b >> i) ^ (b >> ((i + 4) % 8)) ^ (b >> ((i + 5) % 8)) ^ (b >> ((i + 6) % 8)) ^ (b >> ((i + 7) % 8)) ^ (0x63 >> i)) & 1
        r |= bit << i
    return r


SBOX_SPEC = [_affine(_pinv(i)) for i in range(256)]
INV_SBOX_SPEC = [0] * 256
for _i, _v in enumerate(SBOX_SPEC):
    INV_SBOX_SPEC[_v] = _i


def sbox(a):
    if isinstance(a, int):
        return SBOX_SPEC[a]
    return ops.bv_table_lookup([bv(v) for v in SBOX_SPEC], a)


def inv_sbox(a):
    if isinstance(a, int):
        return INV_SBOX_SPEC[a]
    return ops.bv_table_lookup([bv(v) for v in INV_SBOX_SPEC], a)


# ------------------------------------------------- state functions (FIPS 5.1) --
# the state is a list of 16 bytes in input order: s[r + 4c]
def sub_bytes(s):
    return [sbox(x) for x in s]


def inv_sub_bytes(s):
    return [inv_sbox(x) for x in s]


def shift_rows(s):
    return [s[r + 4 * ((c + r) % 4)] for c in range(4) for r in range(4)][:0] or [s[(i % 4) + 4 * (((i // 4) + (i % 4)) % 4)] for i in range(16)]


def inv_shift_rows(s):
    return [s[(i % 4) + 4 * (((i // 4) - (i % 4)) % 4)] for i in range(16)]


def mix_columns(s):
    out = []
    for c in range(4):
        a = s[4 * c:4 * c + 4]
        out += [gmul_const(a[0], 2) ^ gmul_const(a[1], 3) ^ a[2] ^ a[3],
                a[0] ^ gmul_const(a[1], 2) ^ gmul_const(a[2], 3) ^ a[3],
                a[0] ^ a[1] ^ gmul_const(a[2], 2) ^ gmul_const(a[3], 3),
                gmul_const(a[0], 3) ^ a[1] ^ a[2] ^ gmul_const(a[3], 2)]
    return out


def inv_mix_columns(s):
    out = []
    for c in range(4):
        a = s[4 * c:4 * c + 4]
        out += [gmul_const(a[0], 14) ^ gmul_const(a[1], 11) ^ gmul_const(a[2], 13) ^ gmul_const(a[3], 9),
                gmul_const(a[0], 9) ^ gmul_const(a[1], 14) ^ gmul_const(a[2], 11) ^ gmul_const(a[3], 13),
                gmul_const(a[0], 13) ^ gmul_const(a[1], 9) ^ gmul_const(a[2], 14) ^ gmul_const(a[3], 11),
                gmul_const(a[0], 11) ^ gmul_const(a[1], 13) ^ gmul_const(a[2], 9) ^ gmul_const(a[3], 14)]
    return out


def add_round_key(s, k):
    return [a ^ b for a, b in zip(s, k)]


def rcon_spec(i):
    """Rcon[i] = x^(i-1) in GF(2^8), i >= 1."""
    v = 1
    for _ in range(i - 1):
        v = _pmul(v, 2)
    return v


def key_expansion(key):
    """FIPS-197 5.2 for Nk = len(key)/4 in {4,6,8}; returns Nr+1 round keys of 16 bytes."""
    nk = len(key) // 4
    nr = nk + 6
    w = [list(key[4 * i:4 * i + 4]) for i in range(nk)]
    for i in range(nk, 4 * (nr + 1)):
        t = list(w[i - 1])
        if i % nk == 0:
            t = t[1:] + t[:1]
            t = [sbox(x) for x in t]
            t[0] = t[0] ^ (rcon_spec(i // nk) if isinstance(t[0], int) else bv(rcon_spec(i // nk)))
        elif nk > 6 and i % nk == 4:
            t = [sbox(x) for x in t]
        w.append([a ^ b for a, b in zip(w[i - nk], t)])
    return [[b for word in w[4 * r:4 * r + 4] for b in word] for r in range(nr + 1)]


def cipher(block, rks):
    nr = len(rks) - 1
    s = add_round_key(list(block), rks[0])
    for r in range(1, nr):
        s = add_round_key(mix_columns(shift_rows(sub_bytes(s))), rks[r])
    return add_round_key(shift_rows(sub_bytes(s)), rks[nr])


def inv_cipher(block, rks):
    nr = len(rks) - 1
    s = add_round_key(list(block), rks[nr])
    for r in range(nr - 1, 0, -1):
        s = inv_mix_columns(add_round_key(inv_sub_bytes(inv_shift_rows(s)), rks[r]))
    return add_round_key(inv_sub_bytes(inv_shift_rows(s)), rks[0])


def kat():
    """Known answers (the SAME spec functions evaluated on ints): FIPS-197 App. C.1-C.3 (cipher and
    inverse cipher), App. A.1 (last round key), SP 800-38A F.1.1 first block."""
    pt = list(bytes.fromhex("00112233445566778899aabbccddeeff"))
    res = []
    for keyhex, cthex in (("000102030405060708090a0b0c0d0e0f", "69c4e0d86a7b0430d8cdb78070b4c55a"),
                          ("000102030405060708090a0b0c0d0e0f1011121314151617", "dda97ca4864cdfe06eaf70a0ec0d7191"),
                          ("000102030405060708090a0b0c0d0e0f101112131415161718191a1b1c1d1e1f", "8ea2b7ca516745bfeafc49904b496089")):
        rks = key_expansion(list(bytes.fromhex(keyhex)))
        ct = bytes(cipher(pt, rks))
        res.append(ct.hex() == cthex)
        res.append(bytes(inv_cipher(list(ct), rks)) == bytes(pt))
    rks = key_expansion(list(bytes.fromhex("2b7e151628aed2a6abf7158809cf4f3c")))
    res.append(bytes(rks[10]).hex() == "d014f9a8c9ee2589e13f0cc8b6630ca6")
    res.append(bytes(cipher(list(bytes.fromhex("6bc1bee22e409f96e93d7e117393172a")), rks)).hex() == "3ad77bb40d7a3660a89ecaf32466ef97")
    res.append(SBOX_SPEC[0x53] == 0xED and SBOX_SPEC[0] == 0x63 and INV_SBOX_SPEC[0x63] == 0)
    return res


# ---------------------------------------------------------------- contracts --
def vb(items):
    return [VInt(t) for t in items]


def terms(vs):
    out = []
    for v in vs:
        t = v.t
        if not z3.is_bv(t):
            t = z3.Int2BV(t, 8)
        elif t.size() < 8:
            t = z3.ZeroExt(8 - t.size(), t)
        elif t.size() > 8:
            t = z3.Extract(7, 0, t)
        out.append(t)
    return out


def p_round_keys(n):
    def mk(ex, st, name):
        items = [VBytes([VInt(z3.BitVec(f"{name}_{r}_{i}", 8)) for i in range(16)]) for r in range(n)]
        return VRef(st.alloc(HeapObj("list", items, fresh=False), ex.refs))
    return Maker(mk, desc=f"list of {n} 16-byte round keys")


def p_alts(*makers):
    def mk(ex, st, name):
        out = []
        for m in makers:
            out.extend(m.make(ex, st, name))
        return out
    return Maker(mk, desc=" | ".join(m.desc for m in makers))


def p_sym_bytes(cond_on_len=None, desc="bytes of any length"):
    """bytes of symbolic length (uninterpreted content)."""
    def mk(ex, st, name):
        n = z3.Int(f"{name}_len")
        f = z3.Function(f"{name}_at", z3.IntSort(), BV8)
        c = n >= 0
        if cond_on_len is not None:
            c = z3.And(c, cond_on_len(n))
        return [(c, VSeq(n, lambda i, f=f: VInt(f(i)), "byte", True, tag=name))]
    return Maker(mk, desc=desc)


def items_of(c, name):
    """entry-time items of a list/tuple/bytes argument"""
    return c.ex.concrete_items(c.entry, c.args[name])


def newlist(c, items):
    return c.ex.new_list(c.st, items)


def rk_terms(c, name):
    return [terms(rk.items) for rk in c.entry.obj(c.args[name].ref).data]


def state_fn(f, *extra):
    def final(c):
        s = terms(c.old_list("state"))
        more = [terms(c.args[e].items) for e in extra]
        return vb(f(s, *more))
    return final


DEFAULT_TABLES = {"_SBOX": ("sbox", None), "_INV_SBOX": ("inv", None), **{f"_MUL{k}": ("mul", k) for k in (2, 3, 9, 11, 13, 14)}}
_TABLE_ROLES = {}


def table_roles(repo=None):
    """{module-level name: ("sbox" | "inv" | "mul", k)}: which names hold the S-box, its inverse and the GF multiples.
    The standard names are taken as they are; when some of them are gone (renamed tables), the candidates are found BY VALUE
    (the module's top level is executed natively, 256-entry int sequences are compared with the specification tables).  This
    only selects names: each functional description installed for a name is justified by the `module-invariant` obligation of
    that name in table_checks, which evaluates the real initialiser through the executor."""
    key = repo or loader.REPO
    if key in _TABLE_ROLES:
        return _TABLE_ROLES[key]
    m = loader.module(AES, repo)
    roles = {n: r for n, r in DEFAULT_TABLES.items() if n in m.assigns}
    if len(roles) < len(DEFAULT_TABLES):
        import signal
        ns = {"__name__": "c20_table_probe"}

        def _alarm(*_a):
            raise TimeoutError()
        old = None
        try:
            old = signal.signal(signal.SIGALRM, _alarm)
            signal.alarm(5)
            exec(compile(m.source, m.rel, "exec"), ns)
        except BaseException:  # noqa -- the probe is best effort
            pass
        finally:
            try:
                signal.alarm(0)
                if old is not None:
                    signal.signal(signal.SIGALRM, old)
            except Exception:  # noqa
                pass
        specs = {("sbox", None): SBOX_SPEC, ("inv", None): INV_SBOX_SPEC}
        specs.update({("mul", k): [_pmul(v, k) for v in range(256)] for k in range(2, 16)})
        for n in m.assigns:
            v = ns.get(n)
            if n in roles or not isinstance(v, (tuple, list, bytes)) or len(v) != 256:
                continue
            try:
                vals = [int(x) for x in v]
            except Exception:  # noqa
                continue
            for r, spec in specs.items():
                if vals == spec:
                    roles[n] = r
    _TABLE_ROLES[key] = roles
    return roles


def install_tables(reg):
    """Module tables as functional tables (each description is an obligation in table_checks)."""
    m = loader.module(AES)
    for name, (kind, k) in table_roles().items():
        if kind == "mul":
            reg.module_consts[(AES, name)] = VTable([VInt(_pmul(v, k)) for v in range(256)], (lambda t, k=k: gmul_const(t, k)), name)
            continue
        spec, fn = (SBOX_SPEC, sbox) if kind == "sbox" else (INV_SBOX_SPEC, inv_sbox)
        try:
            lit = [int(x) for x in m.literal(name)]
        except Exception:  # noqa
            lit = list(spec)       # not a literal: the obligation of this name evaluates the initialiser
        reg.module_consts[(AES, name)] = VTable([VInt(x) for x in lit], fn, name)


def contracts(reg):
    install_tables(reg)
    out = []
    out.append(FnContract(target=f"{AES}::_xtime", params=[("a", p_bv(16))],
                          returns=lambda c: VInt(xtime(z3.Extract(7, 0, c.args["a"].t))),
                          note="{02}.a in GF(2^8) (argument reduced mod 256 first)"))
    out.append(FnContract(target=f"{AES}::_gf_mul", params=[("a", p_bv(8)), ("b", p_bv(8))],
                          returns=lambda c: VInt(gmul(c.args["a"].t, c.args["b"].t)),
                          loops={0: LoopSpec(unroll=8, label="bits-of-b")},
                          note="GF(2^8) product = carry-less product reduced by x^8+x^4+x^3+x+1"))
    out.append(FnContract(target=f"{AES}::_build_mul_table", params=[("multiplier", p_bv(8))],
                          returns=lambda c: VTuple([VInt(gmul(bv(v), c.args["multiplier"].t)) for v in range(256)])))
    out.append(FnContract(target=f"{AES}::_add_round_key", params=[("state", p_list_bv(16)), ("round_key", p_bytes(16))],
                          final={"state": state_fn(add_round_key, "round_key")}, modifies=("state",)))
    out.append(FnContract(target=f"{AES}::_sub_bytes", params=[("state", p_list_bv(16))],
                          final={"state": state_fn(sub_bytes)}, modifies=("state",)))
    out.append(FnContract(target=f"{AES}::_inv_sub_bytes", params=[("state", p_list_bv(16))],
                          final={"state": state_fn(inv_sub_bytes)}, modifies=("state",)))
    out.append(FnContract(target=f"{AES}::_shift_rows", params=[("state", p_list_bv(16))],
                          final={"state": state_fn(shift_rows)}, modifies=("state",)))
    out.append(FnContract(target=f"{AES}::_inv_shift_rows", params=[("state", p_list_bv(16))],
                          final={"state": state_fn(inv_shift_rows)}, modifies=("state",)))
    out.append(FnContract(target=f"{AES}::_mix_columns", params=[("state", p_list_bv(16))],
                          final={"state": state_fn(mix_columns)}, modifies=("state",)))
    out.append(FnContract(target=f"{AES}::_inv_mix_columns", params=[("state", p_list_bv(16))],
                          final={"state": state_fn(inv_mix_columns)}, modifies=("state",)))
    def rcon_contract(fname, pname):
        """Rcon table of a CONCRETE size: verified for the sizes the key schedule can ask for (Nr = 10, 12, 14) and for the real
        default of the parameter (read from the signature: a call without argument gets THAT value, not a constant of this pack);
        the result is a function of the argument; any other size at a call site is outside the verified domain (OUT-OF-SUBSET)."""
        import ast
        fn = loader.module(AES).functions.get(fname)
        real = None
        if fn is not None and fn.args.defaults and [a.arg for a in fn.args.args][-len(fn.args.defaults):].count(pname):
            d = fn.args.defaults[[a.arg for a in fn.args.args][-len(fn.args.defaults):].index(pname)]
            if isinstance(d, ast.Constant) and isinstance(d.value, int) and not isinstance(d.value, bool) and 0 <= d.value <= 64:
                real = d.value
        dom = sorted({10, 12, 14} | ({real} if real is not None else set()))
        mk = p_alts(*[p_const(k) for k in dom])
        mk.default = (lambda ex, st: ops.lift(real)) if real is not None else None

        def returns(c):
            n = c.args[pname].const() if isinstance(c.args[pname], VInt) else None
            if n is None or n not in dom:
                raise ops.Unsupported(f"{fname}({pname}={n}): size outside the verified domain {dom}")
            return VTuple([VInt(bv(0))] + [VInt(bv(rcon_spec(i))) for i in range(1, n + 1)])
        return FnContract(target=f"{AES}::{fname}", params=[(pname, mk)], returns=returns,
                          note=f"Rcon[0] = 0, Rcon[i] = x^(i-1) for i = 1..{pname}; verified for {pname} in {dom}")

    out.append(rcon_contract("_build_rcon", "max_rounds"))
    out.append(rcon_contract("_rcon", "n"))
    out.append(FnContract(target=f"{AES}::_rot_word", params=[("word", p_list_bv(4))],
                          returns=lambda c: newlist(c, items_of(c, "word")[1:] + items_of(c, "word")[:1])))
    out.append(FnContract(target=f"{AES}::_sub_word", params=[("word", p_list_bv(4))],
                          returns=lambda c: newlist(c, vb([sbox(t) for t in terms(items_of(c, "word"))]))))

    def ke_returns(c):
        k = c.args["key"]
        if isinstance(k, VSeq):
            # symbolic key (callers): the opaque symbol KeyExpansion(key) -- by definition the value proved below
            from contracts import c20_modes as M
            n, a = M.arr_of(k)
            return VExt("RoundKeys", M.KEXP(n, a))
        rks = key_expansion(terms(k.items))
        return newlist(c, [VBytes(vb(rk)) for rk in rks])

    def bad_key_len(c):
        k = c.args["key"]
        if isinstance(k, VSeq):
            return z3.And(k.length != 16, k.length != 24, k.length != 32)
        return z3.BoolVal(len(k.items) not in (16, 24, 32))

    out.append(role_contract_for(
        "_expand_key",
        params=[("key", p_alts(p_bytes(16), p_bytes(24), p_bytes(32),
                               p_sym_bytes(lambda n: z3.And(n != 16, n != 24, n != 32), "bytes of any other length")))],
        returns=ke_returns,
        ensures=[("only-valid-key-lengths", lambda c: z3.Not(bad_key_len(c)))],
        raises=[Raises("ValueError", when=bad_key_len)],
        inline=False))

    def block_coerce(v):
        """a call site may pass a slice of a symbolic buffer (`view[start:stop]`): it is the 16 bytes it selects, provided the
        call site proves that its length is 16 (call-pre VC); the drivers never hand a shorter block to the block functions"""
        from contracts import c20_modes as M
        if isinstance(v, VSeq) and isinstance(v.tag, tuple) and v.tag and v.tag[0] == "arr":
            n, a = M.arr_of(v)
            return VBytes([VInt(z3.simplify(z3.Select(a, t))) for t in range(16)]), n == 16
        return v, None

    def blk_params():
        mk = p_alts(p_bytes(16), p_sym_bytes(lambda n: n != 16, "bytes of length != 16"))
        mk.coerce = block_coerce
        return [("block", mk),
                ("round_keys", p_alts(p_round_keys(11), p_round_keys(13), p_round_keys(15)))]

    def bad_block(c):
        b = c.args["block"]
        return b.length != 16 if isinstance(b, VSeq) else z3.BoolVal(len(b.items) != 16)

    def opaque_or(fn_transparent, syms):
        def r(c):
            rk = c.args["round_keys"]
            if isinstance(rk, VExt):
                return VBytes([VInt(f(rk.t, *terms(c.args["block"].items))) for f in syms])
            return fn_transparent(c)
        return r

    from contracts import c20_modes as _M
    out.append(role_contract_for(
        "_aes_encrypt_block", params=blk_params(),
        returns=opaque_or(lambda c: VBytes(vb(cipher(terms(c.args["block"].items), rk_terms(c, "round_keys")))), _M.CIPH),
        ensures=[("only-16-byte-blocks", lambda c: z3.Not(bad_block(c)))],
        raises=[Raises("ValueError", when=bad_block)]))
    out.append(role_contract_for(
        "_aes_decrypt_block", params=blk_params(),
        returns=opaque_or(lambda c: VBytes(vb(inv_cipher(terms(c.args["block"].items), rk_terms(c, "round_keys")))), _M.DECIPH),
        ensures=[("only-16-byte-blocks", lambda c: z3.Not(bad_block(c)))],
        raises=[Raises("ValueError", when=bad_block)]))
    out.extend(mode_contracts(reg))
    # private helpers are under contract for modularity only: where a helper was renamed / inlined / deleted, its callers are
    # verified with whatever they call now (functions without contract are executed in place)
    have = loader.module(AES).functions
    out = [c for c in out if not (getattr(c, "role", c.target.split("::")[-1]) in OPTIONAL_HELPERS and c.target.split("::")[-1] not in have)]
    return [guard_clauses(bind_by_position(c)) for c in out]


def guard_clauses(c):
    """A clause of this pack that trips over a value of a kind it does not know (a Python exception inside pack code on changed
    input) says nothing about the code: it is `Unsupported` -- the function is undecided and the native replayer decides."""
    def safe(fn):
        if fn is None:
            return None

        def w(*a, **k):
            try:
                return fn(*a, **k)
            except (AttributeError, TypeError, KeyError, IndexError, ValueError) as e:
                raise ops.Unsupported(f"contract clause not applicable to this shape: {type(e).__name__}: {e}"[:200])
        return w
    c.requires, c.hyps, c.returns, c.result_maker, c.decreases = safe(c.requires), safe(c.hyps), safe(c.returns), safe(c.result_maker), safe(c.decreases)
    c.ensures = [(lb, safe(f)) for lb, f in c.ensures]
    c.exc_ensures = [(lb, safe(f)) for lb, f in c.exc_ensures]
    for r in c.raises:
        r.when = safe(r.when)
    c.final = {k: safe(f) for k, f in c.final.items()}
    for sp in c.loops.values():
        if getattr(sp, "inv", None) is not None:
            sp.inv = safe(sp.inv)
        if getattr(sp, "inv_point", None) is not None:
            sp.inv_point = safe(sp.inv_point)
    return c


OPTIONAL_HELPERS = {"_xtime", "_gf_mul", "_build_mul_table", "_add_round_key", "_sub_bytes", "_inv_sub_bytes", "_shift_rows", "_inv_shift_rows",
                    "_mix_columns", "_inv_mix_columns", "_build_rcon", "_rcon", "_rot_word", "_sub_word", "_chunks",
                    "_pkcs7_pad", "_pkcs7_unpad"}     # (the CryptAES.* contracts are stated on the data, with or without these helpers)


ROLE_NAMES = ("aes_ecb_encrypt", "aes_ecb_decrypt", "aes_cbc_encrypt", "aes_cbc_decrypt", "_get_round_keys", "_expand_key",
              "_aes_encrypt_block", "_aes_decrypt_block", "_pkcs7_pad", "_pkcs7_unpad")
_ROLES = {}


def roles_of(repo=None):
    """{role: (qualname, guessed)} -- which function of the module plays each role of the specification.  A role is named after
    the function that plays it in the unchanged tree; while a function of that name exists it IS the role (guessed=False).  When
    the name is gone (renamed function), the role is found by the DATA FLOW of the real code: the drivers are the functions the
    installation code binds to pypdf's names; the block functions are what the ECB drivers call per block; the round-key
    provider is the call whose result the drivers hand to the block function; key expansion is the one-argument function the
    provider calls; pad / unpad are the two-argument helpers the CryptAES methods call.  A role found that way is a guess:
    a failed VC of its contract is never a violation by itself (post_report: unknown, the native replayer decides)."""
    import ast
    key = repo or loader.REPO
    if key in _ROLES:
        return _ROLES[key]
    from contracts import c20_modes as M
    m = loader.module(AES, repo)
    F = m.functions
    res = {r: (r, False) for r in ROLE_NAMES if r in F}

    def calls_in(fn):
        """[(callee name, call node, inside a loop body / comprehension element)] for calls of module functions"""
        out = []

        def walk(n, inl):
            if isinstance(n, (ast.FunctionDef, ast.Lambda)) and n is not fn:
                return
            if isinstance(n, ast.Call) and isinstance(n.func, ast.Name) and n.func.id in F:
                out.append((n.func.id, n, inl))
            if isinstance(n, (ast.For, ast.While)):
                walk(n.iter if isinstance(n, ast.For) else n.test, inl)
                for ch in n.body + n.orelse:
                    walk(ch, True)
                return
            if isinstance(n, (ast.ListComp, ast.GeneratorExp, ast.SetComp)):
                walk(n.elt, True)
                for g in n.generators:
                    walk(g.iter, inl)
                return
            for ch in ast.iter_child_nodes(n):
                walk(ch, inl)
        walk(fn, False)
        return out

    try:
        if any(r not in res for r in ROLE_NAMES):
            r_ = M.run_install_site(repo)
            for (st, val) in r_.get("outcomes", []):
                if isinstance(val, VBool) and z3.is_true(z3.simplify(val.t)):
                    mods = st.ghost.get("pypdf-modules", {})
                    for d in ROLE_NAMES[:4]:
                        got = {M.func_qualname(r_, st.obj(ref).data.get(d)) for ref in mods.values() if d in st.obj(ref).data}
                        if d not in res and len(got) == 1 and None not in got:
                            res[d] = (next(iter(got)), True)
            for drv, role in (("aes_ecb_encrypt", "_aes_encrypt_block"), ("aes_ecb_decrypt", "_aes_decrypt_block")):
                if drv in res and (role not in res or "_get_round_keys" not in res):
                    fn = F[res[drv][0]]
                    per_block = [(n, c) for (n, c, inl) in calls_in(fn) if inl and len(c.args) == 2 and not c.keywords]
                    if len({n for n, _c in per_block}) == 1:
                        bname, bcall = per_block[0]
                        if role not in res:
                            res[role] = (bname, True)
                        rk = bcall.args[1]
                        if "_get_round_keys" not in res and isinstance(rk, ast.Name):
                            srcs = {a_.value.func.id for a_ in ast.walk(fn) if isinstance(a_, ast.Assign) and len(a_.targets) == 1
                                    and isinstance(a_.targets[0], ast.Name) and a_.targets[0].id == rk.id and isinstance(a_.value, ast.Call)
                                    and isinstance(a_.value.func, ast.Name) and a_.value.func.id in F}
                            if len(srcs) == 1:
                                res["_get_round_keys"] = (next(iter(srcs)), True)
            if "_expand_key" not in res and "_get_round_keys" in res:
                me = res["_get_round_keys"][0]
                one = {n for (n, c, _i) in calls_in(F[me]) if len(c.args) == 1 and not c.keywords and n != me}
                if len(one) == 1:
                    res["_expand_key"] = (next(iter(one)), True)
            if "_pkcs7_pad" not in res or "_pkcs7_unpad" not in res:
                meth = M.installed_methods(repo)

                def two(q):
                    return {n for (n, c, _i) in calls_in(F[q]) if len(c.args) == 2 and not c.keywords
                            and isinstance(c.args[1], ast.Constant) and c.args[1].value == 16} if q in F else set()
                e2, d2 = two(meth.get("encrypt", "")), two(meth.get("decrypt", ""))
                if "_pkcs7_pad" not in res and len(e2) == 1:
                    res["_pkcs7_pad"] = (next(iter(e2)), True)
                pad = res.get("_pkcs7_pad", (None,))[0]
                if "_pkcs7_unpad" not in res and len(d2 - {pad}) == 1:
                    res["_pkcs7_unpad"] = (next(iter(d2 - {pad})), True)
    except Exception:  # noqa -- role discovery is best effort; an unresolved role is `contract-target-missing` (undecided)
        pass
    for r in ROLE_NAMES:
        res.setdefault(r, (r, False))
    _ROLES[key] = res
    try:        # the native replayer resolves the same roles (it cannot import this pack)
        import hashlib
        import json
        import os
        out_dir = os.path.join(os.path.dirname(os.path.dirname(os.path.abspath(__file__))), "out")
        os.makedirs(out_dir, exist_ok=True)
        path = os.path.join(out_dir, "c20_roles_%s.json" % hashlib.sha1(os.path.realpath(key).encode()).hexdigest()[:12])
        tmp = f"{path}.{os.getpid()}.tmp"
        with open(tmp, "w") as fh:
            json.dump({r: q for r, (q, _g) in res.items()}, fh)
        os.replace(tmp, path)
    except Exception:  # noqa
        pass
    return res


def role_contract_for(role, **kw):
    """FnContract of the function that plays `role` (obligation ids keep the role name)"""
    q, guessed = roles_of()[role]
    c = FnContract(target=f"{AES}::{q}", **kw)
    c.oid_name = role
    c.role = role
    c.role_guessed = guessed
    return c


def rq(role):
    return roles_of()[role][0]


def p_definition_time_default(fnode, expr):

    """An optional parameter the property's callers never pass: its value is the DEFAULT, which Python evaluates ONCE, when the
    `def` statement runs -- i.e. before the entry state of every call (PY-DEFAULT).  Whatever the default expression calls
    (e.g. a randomness source) is therefore logged in the ENTRY state's ghost log, not inside the call."""
    from pyvc.state import Frame, State

    def evaluate(ex, st):
        saved = st.frames
        st.frames = [Frame({}, None, fnode)]
        ex.sinks.append([])
        try:
            r = ex.ev(expr, st)
        finally:
            raised = ex.sinks.pop()
            st.frames = saved
        if len(r) != 1 or r[0][0] is not st or raised:
            raise ops.Unsupported(f"default value of a parameter of {fnode.name} forks or may raise")
        return r[0][1]

    def mk(ex, st, name):
        return evaluate(ex, st)
    return Maker(mk, desc="default value (evaluated at definition time)", default=lambda ex, st: evaluate(ex, State()))


def p_unsupported(why):
    def mk(ex, st, name):
        raise ops.Unsupported(why)
    return Maker(mk, desc="unsupported")


def sig_params(qual, roles):
    """Contract parameters read from the REAL signature.  `roles` (ordered) are the parameters the property talks about: each is
    bound to the real parameter of the same name, or -- when the signature has no such name -- to the real parameter at the same
    POSITION (a renamed parameter; the clauses keep using the role name, see bind_by_position).  Any further real parameter must
    have a default (the property's callers -- pypdf -- never pass it) and is bound to that default."""
    fnode = loader.module(AES).functions.get(qual)
    if fnode is None:
        return list(roles.items())
    a = fnode.args
    pos = a.posonlyargs + a.args
    real = [x.arg for x in pos + a.kwonlyargs]
    dflt = dict(zip([x.arg for x in pos[len(pos) - len(a.defaults):]], a.defaults))
    dflt.update({x.arg: d for x, d in zip(a.kwonlyargs, a.kw_defaults) if d is not None})
    rnames = list(roles)
    by_pos = {}                      # real name -> role name, for roles whose name is gone
    for i, r in enumerate(rnames):
        if r not in real and i < len(pos) and pos[i].arg not in roles and pos[i].arg not in dflt:
            by_pos[pos[i].arg] = r
    out = []
    for x in pos + a.kwonlyargs:
        if x.arg in roles:
            out.append((x.arg, roles[x.arg]))
        elif x.arg in by_pos:
            out.append((by_pos[x.arg], roles[by_pos[x.arg]]))          # role name; bind_by_position renames it to the real one
        elif x.arg in dflt:
            out.append((x.arg, p_definition_time_default(fnode, dflt[x.arg])))
        else:
            out.append((x.arg, p_unsupported(f"{qual}: new required parameter `{x.arg}` (the callers of the property pass {sorted(roles)})")))
    missing = [n for n in roles if n not in [o[0] for o in out]]
    for n in missing:
        out.append((n, p_unsupported(f"{qual}: parameter `{n}` no longer exists")))
    return out


def bind_by_position(c):
    """A contract names its parameters by ROLE.  Where the real function calls the parameter at that position differently (a
    renamed parameter), the contract is bound to the real name (the body is executed with the real names) and every clause
    still sees the role name: clause contexts get the role names as extra keys of `args`."""
    import copy
    qual = c.target.split("::")[-1]
    fnode = loader.module(AES).functions.get(qual)
    if fnode is None:
        return c
    real = [x.arg for x in fnode.args.posonlyargs + fnode.args.args]
    names = [n for n, _m in c.params]
    alias = {}
    params = []
    for i, (n, mk) in enumerate(c.params):
        if n not in real and i < len(real) and real[i] not in names:
            alias[n] = real[i]
            params.append((real[i], mk))
        else:
            params.append((n, mk))
    if not alias:
        return c
    c.params = params
    c.aliases = alias

    def ctx_of(cx):
        c2 = copy.copy(cx)
        c2.args = dict(cx.args)
        for role, rn in alias.items():
            if rn in cx.args:
                c2.args[role] = cx.args[rn]
        return c2

    def wrap(fn):
        if fn is None:
            return None

        def w(cx):
            c2 = ctx_of(cx)
            r = fn(c2)
            if getattr(c2, "note", None):
                cx.note = c2.note
            return r
        return w
    c.requires, c.hyps, c.returns = wrap(c.requires), wrap(c.hyps), wrap(c.returns)
    c.ensures = [(lb, wrap(f)) for lb, f in c.ensures]
    c.exc_ensures = [(lb, wrap(f)) for lb, f in c.exc_ensures]
    for r in c.raises:
        r.when = wrap(r.when)
    c.final = {alias.get(k, k): wrap(f) for k, f in c.final.items()}
    c.modifies = tuple(alias.get(k, k) for k in c.modifies)
    if c.result_maker is not None:
        rm = c.result_maker
        c.result_maker = lambda ex, st, cx: rm(ex, st, ctx_of(cx))
    if c.decreases is not None:
        c.decreases = wrap(c.decreases)
    return c


def param(lc, role):
    """entry value of the parameter with this role (loop invariants)"""
    real = getattr(lc.ex.contract, "aliases", {}).get(role, role)
    if lc.ex.inline_depth > 0:
        # the loop was moved into a helper the driver calls: the helper's locals are not the driver's parameters
        ec = getattr(lc.ex, "entry_ctx", None)
        v = ec.args.get(real) if ec is not None else None
    else:
        v = lc.entry.lookup(real)
    if v is None:
        raise ops.Unsupported(f"parameter `{role}` not found")
    return v


def mode_contracts(reg):
    """Round-key cache, PKCS#7, ECB/CBC drivers and the CryptAES wrapper (symbolic-length messages)."""
    from contracts import c20_modes as M
    from pyvc.contracts import LoopSpec
    out = []
    reg.module_consts[(AES, "_ROUND_KEY_CACHE")] = VExt("RKCache")
    I = z3.IntSort()

    def kexp_of(v):
        n, a = M.arr_of(v)
        return M.KEXP(n, a)

    def m_cache_get(ex, st, obj, args, kwargs, node):
        """cache lookup: ASSUMED class invariant of _ROUND_KEY_CACHE (established by the cache-invariant obligation at
        every store): a hit for `key` is the key expansion of that very key."""
        k = args[0]
        miss = st.fork()
        try:
            n, a = M.arr_of(k)
            hit = VExt("RoundKeys", M.KEXP(n, a))
            st.assume(z3.Not(bad_len(n)))        # part of the same invariant: only validated keys are ever stored
        except Exception:  # noqa  -- key is not the bytes object: nothing is known about a hit
            hit = VExt("RoundKeys")
        return [(miss, NONE), (st, hit)]

    # loggers (ASSUMED, PY-LOG: logging has no effect on the computation and does not raise)
    reg.ext_models["logging.getLogger"] = lambda ex, st, args, kwargs, node: [(st, VExt("Logger"))]
    for meth in ("debug", "info", "warning", "warn", "error", "exception", "critical", "log", "setLevel", "addHandler"):
        reg.method_models[("Logger", meth)] = lambda ex, st, o, a, k, n: [(st, NONE)]
    reg.method_models[("Logger", "isEnabledFor")] = lambda ex, st, o, a, k, n: [(st, VBool(z3.Bool(fresh_name("log_enabled"))))]
    reg.method_models[("Logger", "getChild")] = lambda ex, st, o, a, k, n: [(st, VExt("Logger"))]
    reg.method_models[("RKCache", "get")] = m_cache_get
    reg.method_models[("RKCache", "move_to_end")] = lambda ex, st, o, a, k, n: [(st, NONE)]
    reg.method_models[("RKCache", "popitem")] = lambda ex, st, o, a, k, n: [(st, VUnk("evicted"))]

    def bad_len(n):
        return z3.And(n != 16, n != 24, n != 32)

    KEY = M.p_symbytes(desc="key: bytes of any length")
    out.append(role_contract_for(
        "_get_round_keys", params=sig_params(rq("_get_round_keys"), {"key": KEY}),
        returns=lambda c: VExt("RoundKeys", kexp_of(c.args["key"])),
        ensures=[("only-valid-key-lengths", lambda c: z3.Not(bad_len(c.args["key"].length)))],
        raises=[Raises("ValueError", when=lambda c: bad_len(c.args["key"].length))],
        note="result == KeyExpansion(key) whatever the cache holds; a miss stores exactly that value under exactly that key",
    ))

    # ---- PKCS#7
    DATA = M.p_symbytes(desc="data: bytes of any length")

    def fresh_bytes(tag):
        """result of a contract with a relational postcondition: fresh symbolic bytes; the call is logged (ghost) so that
        wrapper contracts can say *which* call produced a value"""
        def mk(ex, st, ctx):
            n = z3.Int(fresh_name(f"{tag}_len"))
            a = z3.Array(fresh_name(f"{tag}_bytes"), I, M.BV8)
            st.assume(n >= 0)
            v = M.symbytes(n, a)
            st.ghost["calls"] = st.ghost.get("calls", ()) + ((tag, dict(ctx.args), v),)
            return v
        return mk

    def pad_post(c):
        n, a = M.arr_of(c.args["data"])
        rn, ra = M.arr_of(c.result)
        p = 16 - n % 16
        return z3.And(rn == n + p, M.seq_eq(n, ra, n, a),                                   # the data, unchanged, ...
                      M.seq_eq(p, M.view(ra, n), p, z3.K(I, z3.Int2BV(p, 8))))              # ... followed by p bytes of value p

    out.append(role_contract_for(
        "_pkcs7_pad", params=sig_params(rq("_pkcs7_pad"), {"data": DATA, "block_size": p_const(16)}),
        ensures=[("data-followed-by-p-bytes-of-value-p", pad_post)],
        result_maker=fresh_bytes("padded"),
        note="p = 16 - len(data) % 16 in 1..16",
    ))

    def last_byte(c):
        n, a = M.arr_of(c.args["data"])
        return z3.Select(a, n - 1)

    def valid_padding(c):
        """p = last byte in 1..16, p <= len(data), and the last p bytes all equal p"""
        n, a = M.arr_of(c.args["data"])
        p = z3.BV2Int(last_byte(c))
        return z3.And(p >= 1, p <= 16, p <= n, M.seq_eq(p, M.view(a, n - p), p, z3.K(I, last_byte(c))))

    def unpad_post(c):
        n, a = M.arr_of(c.args["data"])
        rn, ra = M.arr_of(c.result)
        p = z3.BV2Int(last_byte(c))
        stripped = z3.And(valid_padding(c), rn == n - p, M.seq_eq(rn, ra, rn, a))
        return z3.If(n == 0, rn == 0, stripped)

    out.append(role_contract_for(
        "_pkcs7_unpad", params=sig_params(rq("_pkcs7_unpad"), {"data": DATA, "block_size": p_const(16)}),
        requires=lambda c: c.args["data"].length % 16 == 0,
        ensures=[("removes-exactly-the-padding", unpad_post)],
        result_maker=fresh_bytes("unpadded"),
        raises=[Raises("ValueError", when=lambda c: z3.And(c.args["data"].length > 0, z3.Not(valid_padding(c))))],
        note="domain: block-aligned data (what CryptAES.decrypt hands over: call-pre VC at the call site); empty input is returned unchanged; "
             "invalid padding (p not in 1..16 or last p bytes != p) is a ValueError",
    ))
    # ---- block functions seen from the drivers: opaque symbols (see module docstring of c20_modes)
    def chunks_returns(c):
        n, a = M.arr_of(c.args["data"])
        return VSeq(n / 16, lambda j: VBytes([VInt(x) for x in M.blk(a, j)]), "block")

    chunks_view = FnContract(
        target=f"{AES}::_chunks", assumed=True, generator=True,
        params=[("data", DATA), ("size", p_const(16))],
        requires=lambda c: c.args["data"].length % 16 == 0,
        returns=chunks_returns,
        note="CALL-SITE VIEW of a VERIFIED contract (round 7), not an assumption: the sequence-level summary (block j of a "
             "block-aligned buffer is bytes 16j..16j+15, len/16 blocks) is what EXTRA chunks_iteration proves on the real body "
             f"(`_chunks/ensures#{CHUNKS_SEQ_LABEL}` over the ghost yield stream, with the loop invariant obligations "
             "`_chunks/inv-*#chunk-k-is-bytes-16k..16k+15[.pointwise]`), and the lemma `_chunks/lemma#call-site-summary-is-implied-"
             "by-the-verified-contract` derives this view from that postcondition.  `assumed=True` only keeps the engine from "
             "verifying the view a second time; it is reported as assumed whenever one of the obligations named in `implied_by` is "
             "not discharged in the run.  Also validated natively in replay (chunks_ok)",
    )
    # the obligations that make this view a consequence of verified facts (pyvc/check.py: an assumed contract whose `implied_by`
    # obligations are all proved in the run is reported under `call_site_views_of_verified_contracts`, otherwise as assumed)
    gen_form = chunks_is_generator()
    if gen_form is True:
        chunks_view.implied_by = [f"{CHUNKS_PRE}/ensures#{CHUNKS_SEQ_LABEL}", CHUNKS_VIEW_LEMMA]
    elif gen_form is False:
        chunks_view.implied_by = [f"{CHUNKS_PRE}/ensures#chunk-k-is-bytes-16k..16k+15"]       # returns the sequence itself: seq_post
    out.append(chunks_view)

    # ---- what the loop invariants talk about is found by ROLE in the state of the real function, never by name:
    #   * the output buffer   = the (one) symbolic byte array on the heap that a local refers to,
    #   * the round keys      = the (one) local of sort RoundKeys,
    #   * induction variables = locals the loop body advances by a constant (`x += c`, `x = x + c`):  x == x@entry + c * i,
    #   * the chaining block  = the (one) bytes-like local that is bound at loop entry and re-assigned in the loop body.
    def loop_node(lc):
        import ast
        fn = lc.ex.cur_fn_stack[-1]
        loops = [n for n in ast.walk(fn) if isinstance(n, (ast.For, ast.While))]
        loops.sort(key=lambda n: (n.lineno, n.col_offset))
        if not loops:
            raise ops.Unsupported("driver without a loop")
        return loops[0]

    def out_len_ok(lc, n):
        """length of the output buffer: the message length for a preallocated buffer, 16 * i for a buffer grown block by block"""
        on, _oa = out_buffer(lc)
        saved = lc.st
        try:
            lc.st = lc.entry
            on0, _ = out_buffer(lc)
        finally:
            lc.st = saved
        if z3.is_int_value(z3.simplify(on0)) and z3.simplify(on0).as_long() == 0:
            if lc.i is None:
                raise ops.Unsupported("growing buffer in a loop without an iteration index")
            return on == 16 * block_index(lc)
        return on == n

    def env_items(st):
        return list(st.frames[-1].env.items())

    def out_buffer(lc):
        refs = {v.ref: nme for nme, v in env_items(lc.st) if isinstance(v, VRef) and lc.st.heap.get(v.ref) is not None and lc.st.obj(v.ref).kind == "symarr"}
        if len(refs) > 1 and getattr(lc, "entry", None) is not None:
            # round 8: a scratch byte array the loop BODY creates (e.g. the XOR of block and chaining block built with
            # bytearray() + append) is not the output buffer: the output buffer is live at loop entry.  Only a choice of the
            # invariant's subject -- the driver's `ensures` on the returned bytes decide correctness either way.
            at_entry = {nme for nme, v in env_items(lc.entry) if isinstance(v, VRef)}
            live = {r: nme for r, nme in refs.items() if nme in at_entry}
            if len(live) == 1:
                refs = live
        if len(refs) != 1:
            raise ops.Unsupported(f"output buffer not recognised ({len(refs)} symbolic byte arrays among the locals)")
        return lc.st.obj(next(iter(refs))).data

    def round_keys_of(lc):
        rks = [v for _n, v in env_items(lc.st) if isinstance(v, VExt) and v.sort == "RoundKeys"]
        if len({str(v.t) for v in rks}) != 1:
            raise ops.Unsupported("round keys local not recognised")
        return rks[0].t

    def induction(lc):
        """[(name, step)] of the loop's own counters"""
        import ast
        out = []
        for n in loop_node(lc).body:
            if isinstance(n, ast.AugAssign) and isinstance(n.op, (ast.Add, ast.Sub)) and isinstance(n.target, ast.Name) \
                    and isinstance(n.value, ast.Constant) and isinstance(n.value.value, int):
                out.append((n.target.id, n.value.value if isinstance(n.op, ast.Add) else -n.value.value))
            elif isinstance(n, ast.Assign) and len(n.targets) == 1 and isinstance(n.targets[0], ast.Name) and isinstance(n.value, ast.BinOp) \
                    and isinstance(n.value.op, ast.Add):
                l, r = n.value.left, n.value.right
                for x, y in ((l, r), (r, l)):
                    if isinstance(x, ast.Name) and x.id == n.targets[0].id and isinstance(y, ast.Constant) and isinstance(y.value, int):
                        out.append((x.id, y.value))
        return out

    def blocks_before(lc):
        """number of blocks already finished when the loop is entered (a peeled first block, a loop that starts at block 1): the
        entry value of the counter the loop advances by one block size, when that is a concrete multiple of 16; else 0"""
        for (nme, step) in induction(lc):
            v0 = lc.entry.lookup(nme)
            if step != 16 or v0 is None:
                continue
            try:
                t = z3.simplify(ops.int_term(v0))
            except Exception:  # noqa -- not an integer local
                continue
            if z3.is_int_value(t) and t.as_long() > 0 and t.as_long() % 16 == 0:
                return t.as_long() // 16
        return 0

    def block_index(lc):
        """index of the block the coming iteration works on = blocks finished so far"""
        k0 = blocks_before(lc)
        if k0 == 0:
            return lc.i
        if lc.i is None:
            raise ops.Unsupported("peeled loop without an iteration index")
        return lc.i + k0

    def counters_ok(lc):
        cs = []
        for (nme, step) in induction(lc):
            v0 = lc.entry.lookup(nme)
            if v0 is None or lc.st.lookup(nme) is None:
                continue
            if lc.i is None:
                raise ops.Unsupported("loop without an iteration index (while loop): invariants of this pack are stated per iteration")
            cs.append(ops.int_term(lc[nme]) == ops.int_term(v0) + step * lc.i)
        return z3.And(cs) if cs else z3.BoolVal(True)

    def chain_local(lc):
        """name of the carried chaining block or None"""
        body = loop_node(lc).body
        stored = lc.ex.assigned_names(body)
        cands = []
        for nme in sorted(stored):
            v0 = lc.entry.lookup(nme)
            if v0 is not None and (isinstance(v0, VBytes) or lc.ex._is_symb(v0)):
                cands.append(nme)
        if len(cands) > 1:
            raise ops.Unsupported(f"more than one carried bytes local in the CBC loop: {cands}")
        return cands[0] if cands else None

    def spec_ecb(rk, a, ra, nblocks, fns):
        j = z3.Int("j!ecb")
        return z3.ForAll([j], M.ecb_at(fns, rk, a, ra, nblocks, j))

    def ecb_contract(name, fns):
        def inv(lc):
            n, a = M.arr_of(param(lc, "data"))
            return z3.And(counters_ok(lc), out_len_ok(lc, n))

        def inv_point(lc, j):
            n, a = M.arr_of(param(lc, "data"))
            on, oa = out_buffer(lc)
            return M.ecb_at(fns, round_keys_of(lc), a, oa, block_index(lc), j)

        def post(c):
            n, a = M.arr_of(c.args["data"])
            rn, ra = M.arr_of(c.result)
            return z3.And(rn == n, spec_ecb(kexp_of(c.args["key"]), a, ra, n / 16, fns))

        def bad(c):
            return z3.Or(c.args["data"].length % 16 != 0, bad_len(c.args["key"].length))

        return role_contract_for(
            name, params=sig_params(rq(name), {"key": KEY, "data": DATA}),
            ensures=[("every-block-is-the-block-cipher-of-the-corresponding-input-block", post), ("lengths-valid", lambda c: z3.Not(bad(c)))],
            raises=[Raises("ValueError", when=bad)],
            loops={0: LoopSpec(inv=inv, inv_point=inv_point, label="blocks")},
            result_maker=fresh_bytes("ecb"),
            note="SP 800-38A ECB: C_j = CIPH_K(P_j) for every block j of a block-aligned message of any length",
        )

    out.append(ecb_contract("aes_ecb_encrypt", M.CIPH))
    out.append(ecb_contract("aes_ecb_decrypt", M.DECIPH))

    # ---- CBC (SP 800-38A 6.2): C_0' = IV, C_j = CIPH_K(P_j xor C_{j-1});  P_j = CIPH^-1_K(C_j) xor C_{j-1}
    IV = M.p_symbytes(desc="iv: bytes of any length")

    def prev_terms(v):
        if isinstance(v, VBytes):
            return [M.byte_t(x) for x in v.items]
        n, a = M.arr_of(v)
        return [z3.Select(a, t) for t in range(16)]

    def fresh_block(name):
        return lambda ex, st: VBytes([VInt(z3.BitVec(fresh_name(f"{name}_{t}"), 8)) for t in range(16)])

    def spec_cbc(enc, rk, iva, a, ra, nblocks):
        j = z3.Int("j!cbc")
        return z3.ForAll([j], (M.cbc_enc_at if enc else M.cbc_dec_at)(rk, iva, a, ra, nblocks, j))

    def cbc_contract(name, enc):
        at = M.cbc_enc_at if enc else M.cbc_dec_at

        def parts(lc):
            n, a = M.arr_of(param(lc, "data"))
            _ivn, iva = M.arr_of(param(lc, "iv"))
            on, oa = out_buffer(lc)
            return n, a, iva, on, oa

        def inv(lc):
            n, a, iva, on, oa = parts(lc)
            chained = oa if enc else a
            cs = [counters_ok(lc), out_len_ok(lc, n)]
            ch = chain_local(lc)
            if ch is not None:
                v = lc[ch]
                cs.append((z3.IntVal(len(v.items)) if isinstance(v, VBytes) else v.length) == 16)
                cs += [p_ == c_ for p_, c_ in zip(prev_terms(v), M.chain(block_index(lc), iva, chained))]
            return z3.And(cs)

        def inv_point(lc, j):
            n, a, iva, on, oa = parts(lc)
            return at(round_keys_of(lc), iva, a, oa, block_index(lc), j)

        def post(c):
            n, a = M.arr_of(c.args["data"])
            _ivn, iva = M.arr_of(c.args["iv"])
            rn, ra = M.arr_of(c.result)
            return z3.And(rn == n, spec_cbc(enc, kexp_of(c.args["key"]), iva, a, ra, n / 16))

        def bad(c):
            return z3.Or(c.args["iv"].length != 16, c.args["data"].length % 16 != 0, bad_len(c.args["key"].length))

        return role_contract_for(
            name, params=sig_params(rq(name), {"key": KEY, "iv": IV, "data": DATA}),
            ensures=[("cbc-chaining-equation-for-every-block", post), ("lengths-valid", lambda c: z3.Not(bad(c)))],
            raises=[Raises("ValueError", when=bad)],
            loops={0: LoopSpec(inv=inv, inv_point=inv_point, label="blocks", rebind="carried-16-byte-blocks")},
            result_maker=fresh_bytes("cbc_enc" if enc else "cbc_dec"),
            note="SP 800-38A CBC for block-aligned messages of any length and every IV",
        )

    out.append(cbc_contract("aes_cbc_encrypt", True))
    out.append(cbc_contract("aes_cbc_decrypt", False))

    # ---- the CryptAES stream wrapper installed into pypdf
    def m_random_bytes(ex, st, args, kwargs, node):
        """ASSUMED model of the OS randomness sources: n fresh, unconstrained bytes; every call is logged in the ghost log
        (tag "token"), which is how the wrapper contract says *this call drew its own IV*."""
        nb = args[0] if args else kwargs.get("nbytes", kwargs.get("size"))
        n = nb.const() if isinstance(nb, VInt) else None
        if n is None or not 0 <= n <= 64:
            raise ops.Unsupported(f"{ex.loc(node)} randomness source with a non-constant / large size")
        v = VBytes([VInt(z3.BitVec(fresh_name(f"rnd_{t}"), 8)) for t in range(n)])
        st.ghost["calls"] = st.ghost.get("calls", ()) + (("token", {"n": n}, v),)
        return [(st, v)]

    reg.ext_models["secrets.token_bytes"] = m_random_bytes
    reg.ext_models["os.urandom"] = m_random_bytes
    from pyvc.verify import p_obj
    SELF = p_obj("CryptAES", {"key": KEY})
    # the functions under the wrapper contracts are the ones the REAL installation code binds to CryptAES.__init__ / .encrypt /
    # .decrypt (data flow of the executed `patch_pypdf_fallback_aes`, see c20_modes.InstallExecutor) -- wherever they are defined
    # and whatever they are called; the obligation ids carry the role, not the function name
    bound = M.installed_methods(loader.REPO)
    fns_ = loader.module(AES).functions

    def wrapper_target(role, default):
        q = bound.get(role)
        if q is None:
            q = next((c_ for c_ in (f"patch_pypdf_fallback_aes.<locals>.{default}", default) if c_ in fns_), f"patch_pypdf_fallback_aes.<locals>.{default}")
        return q

    def role_contract(role, default, roles, **kw):
        q = wrapper_target(role, default)
        c_ = FnContract(target=f"{AES}::{q}", params=sig_params(q, roles), **kw)
        c_.oid_name = f"CryptAES.{role}"
        return c_

    def same_bytes(x, y):
        nx, ax = M.arr_of(x)
        ny, ay = M.arr_of(y)
        return M.seq_eq(nx, ax, ny, ay)

    def init_post(c):
        o = c.st.obj(c.args["self"].ref)
        k = o.data.get("key") if o.kind == "obj" and isinstance(o.data, dict) else None
        if k is None:
            return z3.BoolVal(False)
        return same_bytes(k, c.args["key"])

    out.append(role_contract(
        "__init__", "_cryptaes_init", {"self": p_obj("CryptAES", {}), "key": KEY},
        ensures=[("stores-exactly-the-given-key", init_post)], modifies=("self",), raises=[],
        note="CryptAES(key).key == key for every key (what the encrypt / decrypt contracts read as self.key); a bad key length is "
             "rejected by the first encrypt / decrypt call",
    ))

    def in_call(c):
        """ghost log entries made between the entry and the exit of the verified call"""
        return c.st.ghost.get("calls", ())[len(c.entry.ghost.get("calls", ())):]

    def the_call(c, tag):
        cs = [x for x in in_call(c) if x[0] == tag]
        return cs[0] if len(cs) == 1 else None

        nx, ax = M.arr_of(x)
        ny, ay = M.arr_of(y)
        return M.seq_eq(nx, ax, ny, ay)

    def enc_post(c):
        """stated on the DATA that reaches CBC, not on which helper produced it: padding done by a helper or in place alike"""
        enc = the_call(c, "cbc_enc")
        if enc is None:
            raise ops.Unsupported("wrapper does not call aes_cbc_encrypt exactly once")
        key = c.entry.obj(c.args["self"].ref).data["key"]
        n, a = M.arr_of(c.args["data"])
        rn, ra = M.arr_of(c.result)
        en, ea = M.arr_of(enc[2])
        pn, pa = M.arr_of(enc[1]["data"])
        ivn, iva = M.arr_of(enc[1]["iv"])
        return z3.And(M.pad_rel(n, a, pn, pa),                             # CBC gets the caller's data followed by p bytes of value p ...
                      same_bytes(enc[1]["key"], key), ivn == 16,           # ... under self.key and a 16-byte IV ...
                      rn == 16 + en, M.seq_eq(16, ra, 16, iva),            # ... and the result is IV || ciphertext
                      M.seq_eq(en, M.view(ra, 16), en, ea))

    def iv_fresh(c):
        """the IV handed to CBC (== the 16 bytes prepended, by the clause above) is the result of a 16-byte draw from the OS
        randomness source made DURING this call: values that exist at entry (module / closure state, default arguments) are
        the same for every call and hence not fresh"""
        enc = the_call(c, "cbc_enc")
        if enc is None:
            raise ops.Unsupported("wrapper does not call aes_cbc_encrypt exactly once")
        ivn, iva = M.arr_of(enc[1]["iv"])
        draws = [x for x in in_call(c) if x[0] == "token"]
        if not draws:
            # a structural observation, not a solver model: UNDECIDED here; the native replayer compares the IVs of several calls
            raise ops.Unsupported("no draw from secrets.token_bytes / os.urandom between entry and exit of the call: "
                                  "the IV is a value that existed before the call (same for every call)")
        return z3.Or([z3.BoolVal(False)] + [z3.And(x[1]["n"] == 16, same_bytes(enc[1]["iv"], x[2])) for x in draws])

    out.append(role_contract(
        "encrypt", "_cryptaes_encrypt", {"self": SELF, "data": DATA},
        ensures=[("returns-iv-followed-by-cbc-of-the-padded-data", enc_post),
                 ("iv-is-drawn-from-the-randomness-source-within-this-call", iv_fresh)],
        raises=[Raises("ValueError", when=lambda c: bad_len(c.entry.obj(c.args["self"].ref).data["key"].length))],
        note="fresh IV = a 16-byte secrets.token_bytes / os.urandom draw made inside the call (ASSUMED: the OS source returns "
             "independent uniform bytes); optional extra parameters take their definition-time defaults (pypdf passes only `data`)",
    ))

    def dec_post(c):
        """stated on the CBC call and on the relation between its plaintext and the result (unpadding by a helper or in place)"""
        n, a = M.arr_of(c.args["data"])
        rn, ra = M.arr_of(c.result)
        dec = the_call(c, "cbc_dec")
        if dec is None:
            if [x for x in in_call(c) if x[0] == "cbc_dec"]:
                raise ops.Unsupported("wrapper calls aes_cbc_decrypt more than once")
            # the early return for an empty payload
            return z3.And(n <= 16, rn == 0)
        key = c.entry.obj(c.args["self"].ref).data["key"]
        pn, pa = M.arr_of(dec[1]["data"])
        ivn, iva = M.arr_of(dec[1]["iv"])
        dn, da = M.arr_of(dec[2])
        aligned = (n - 16) % 16 == 0
        return z3.And(n > 16, same_bytes(dec[1]["key"], key),
                      ivn == 16, M.seq_eq(16, iva, 16, a),                                   # IV = first 16 bytes
                      z3.Implies(aligned, z3.And(pn == n - 16, M.seq_eq(pn, pa, pn, M.view(a, 16)))),   # payload = the rest
                      M.unpad_rel(dn, da, rn, ra))                                            # result = CBC plaintext without its padding

    out.append(role_contract(
        "decrypt", "_cryptaes_decrypt", {"self": SELF, "data": DATA},
        ensures=[("returns-unpadded-cbc-plaintext-of-data-after-the-iv", dec_post)],
        raises=[Raises("ValueError", label="bad key length, short IV or invalid padding (raised by the callee contracts)")],
        note="for block-aligned ciphertexts; a ragged payload is padded first (pypdf compatibility) -- not part of the statement",
    ))
    return out


def lemmas():
    out = []
    a, b = z3.BitVec("a!l", 8), z3.BitVec("b!l", 8)
    for i, ok in enumerate(kat()):
        out.append((f"C20/spec::FIPS-197/lemma#known-answer.{i}", [], z3.BoolVal(bool(ok))))
    out.append(("C20/spec::gf/lemma#gmul_const-agrees-with-gmul", [],
                z3.And([gmul_const(a, c) == gmul(a, bv(c)) for c in (2, 3, 9, 11, 13, 14)])))
    out.append(("C20/spec::sbox/lemma#inv_sbox-inverts-sbox", [], z3.And(inv_sbox(sbox(a)) == a, sbox(inv_sbox(a)) == a)))
    out.append(("C20/spec::sbox/lemma#sbox-is-affine-of-inverse", [],
                z3.BoolVal(all(_pmul(x, _pinv(x)) == 1 for x in range(1, 256)) and len(set(SBOX_SPEC)) == 256)))
    s = [z3.BitVec(f"s{i}!l", 8) for i in range(16)]
    eqs = lambda x, y: z3.And([p == q for p, q in zip(x, y)])
    out.append(("C20/spec::rounds/lemma#InvShiftRows-inverts-ShiftRows", [], eqs(inv_shift_rows(shift_rows(s)), s)))
    # (InvSubBytes . SubBytes = id is the byte-wise lemma inv_sbox-inverts-sbox: both are maps over the 16 bytes)
    out.append(("C20/spec::rounds/lemma#InvMixColumns-inverts-MixColumns", [], eqs(inv_mix_columns(mix_columns(s)), s)))
    k = [z3.BitVec(f"k{i}!l", 8) for i in range(16)]
    out.append(("C20/spec::rounds/lemma#AddRoundKey-is-an-involution", [], eqs(add_round_key(add_round_key(s, k), k), s)))
    # InvCipher . Cipher = id for Nr = 10, 12, 14: step functions opaque, inverse lemmas (proved above) as rewrite facts
    B = z3.DeclareSort("State128")
    SB, SR, MC = (z3.Function(n, B, B) for n in ("SB", "SR", "MC"))
    ISB, ISR, IMC = (z3.Function(n, B, B) for n in ("ISB", "ISR", "IMC"))
    ARK = z3.Function("ARK", B, B, B)
    x, kq = z3.Const("x!q", B), z3.Const("k!q", B)
    facts = [z3.ForAll([x], ISB(SB(x)) == x), z3.ForAll([x], ISR(SR(x)) == x), z3.ForAll([x], IMC(MC(x)) == x),
             z3.ForAll([x, kq], ARK(ARK(x, kq), kq) == x)]
    for nr in (10, 12, 14):
        ks = [z3.Const(f"rk{r}!l", B) for r in range(nr + 1)]
        p0 = z3.Const("p!l", B)
        st = ARK(p0, ks[0])
        for r in range(1, nr):
            st = ARK(MC(SR(SB(st))), ks[r])
        st = ARK(SR(SB(st)), ks[nr])
        d = ARK(st, ks[nr])
        for r in range(nr - 1, 0, -1):
            d = IMC(ARK(ISB(ISR(d)), ks[r]))
        d = ARK(ISB(ISR(d)), ks[0])
        out.append((f"C20/spec::cipher/lemma#InvCipher-inverts-Cipher.Nr{nr}", facts, d == p0))
    # ---- mode-level inverse lemmas over the opaque symbols (manual instantiation at a fresh block index j0)
    from contracts import c20_modes as M
    I = z3.IntSort()
    rk = z3.Const("rk!m", M.RK)
    P, C, R, IVa = (z3.Array(f"{n_}!m", I, M.BV8) for n_ in ("P", "C", "R", "IV"))
    N, j0, t0 = z3.Int("N!m"), z3.Int("j0!m"), z3.Int("t0!m")
    xs = [z3.BitVec(f"x{u}!m", 8) for u in range(16)]
    inv_fact = z3.ForAll(xs + [rk], z3.And([M.DECIPH[t](rk, *[M.CIPH[u](rk, *xs) for u in range(16)]) == xs[t] for t in range(16)]))
    # (the fact DECIPH(CIPH(x)) = x is lemma InvCipher-inverts-Cipher above, for the transparent definitions)
    blockeq = z3.And([z3.Select(R, 16 * j0 + t) == z3.Select(P, 16 * j0 + t) for t in range(16)])
    out.append(("C20/spec::modes/lemma#ecb-decrypt-inverts-ecb-encrypt",
                [j0 >= 0, j0 < N, inv_fact, M.ecb_at(M.CIPH, rk, P, C, N, j0), M.ecb_at(M.DECIPH, rk, C, R, N, j0)], blockeq))
    out.append(("C20/spec::modes/lemma#cbc-decrypt-inverts-cbc-encrypt-for-every-iv",
                [j0 >= 0, j0 < N, inv_fact, M.cbc_enc_at(rk, IVa, P, C, N, j0), M.cbc_dec_at(rk, IVa, C, R, N, j0)], blockeq))
    n, pn, rn = z3.Int("n!p"), z3.Int("pn!p"), z3.Int("rn!p")
    D, PD, RD = (z3.Array(f"{n_}!p", I, M.BV8) for n_ in ("D", "PD", "RD"))
    out.append(("C20/spec::pkcs7/lemma#unpad-inverts-pad",
                [n >= 0, M.pad_rel(n, D, pn, PD), M.unpad_rel(pn, PD, rn, RD)], z3.And(rn == n, M.seq_eq(n, RD, n, D))))
    out.append(("C20/spec::pkcs7/lemma#padded-length-is-block-aligned-and-padding-valid",
                [n >= 0, M.pad_rel(n, D, pn, PD)], z3.And(pn % 16 == 0, pn > n, pn <= n + 16, M.valid_padding(pn, PD))))
    try:
        out.append(chunks_view_lemma())
    except Exception:  # noqa -- never let an exception escape lemmas(); without the lemma the view is reported as assumed
        pass
    return out


def table_checks(repo, tier):
    """Ground obligations on the constant tables of the module.  The tables are private names: an obligation exists while the
    module has a table of that name (ids marked volatile: a renamed table is simply evaluated where it is used); a table that is
    not a literal is evaluated by the executor; one that cannot be evaluated is `unknown` (the replayer compares the real tables)."""
    from pyvc.flow import ground_obligation
    m = loader.module(AES, repo)
    obls = []

    def G(oid, ok, why="", definite=True):
        o = ground_obligation(oid, ok, "" if ok else why, AES, kind="module-invariant", backend="ground", definite=definite)
        o["volatile"] = True
        obls.append(o)
    from pyvc.contracts import Registry
    from pyvc.exctypes import Universe
    from pyvc.symex import Executor
    reg = Registry()
    for c in contracts(reg):
        reg.add(c)
    roles = table_roles(repo)
    for name in roles:
        reg.module_consts.pop((AES, name), None)
    ex = Executor(m, reg, Universe(repo))
    ex.sinks.append([])

    def values(name):
        """concrete ints of a module-level table or None"""
        try:
            lit = m.literal(name)
            return [int(x) for x in lit]
        except Exception:  # noqa
            pass
        try:
            v = ex.module_const(name)
            items = ex.concrete_items(State(), v) if not hasattr(v, "items") else v.items
            out = []
            for it in items:
                t = z3.simplify(it.t)
                if not (z3.is_bv_value(t) or z3.is_int_value(t)):
                    return None
                out.append(t.as_long())
            return out
        except Exception:  # noqa
            return None

    def table(name, label, spec, exact_len=True):
        if name not in m.assigns:
            return
        vals = values(name)
        oid = f"C20/_pypdf_aes_fallback.py::{name}/module-invariant#{label}"
        if vals is None:
            G(oid, False, "table value not computable by the executor", definite=False)
            return
        bad = [i for i in range(len(vals) if not exact_len else len(spec)) if i >= len(vals) or i >= len(spec) or vals[i] != spec[i]]
        G(oid, (len(vals) == len(spec) if exact_len else len(vals) >= 2) and not bad, f"{len(vals)} entries, first differing indices {bad[:4]}")
    from pyvc.state import State
    # (_MULk = _build_mul_table(k): the module-level initialiser is executed symbolically under the *verified* contract of
    # _build_mul_table -- or in place when that helper was renamed; the resulting table must be gmul(v, k) for every v)
    for name, (kind, k) in roles.items():
        if kind == "sbox":
            table(name, "equals-affine-of-inverse", SBOX_SPEC)
        elif kind == "inv":
            table(name, "inverts-_SBOX", INV_SBOX_SPEC)
        else:
            table(name, f"equals-gf-multiples-of-{k}", [_pmul(i, k) for i in range(256)])
    # every entry present is the right power of x (how many entries _expand_key needs is decided by its own contract)
    table("_RCON", "equals-powers-of-x", [0] + [rcon_spec(i) for i in range(1, 65)], exact_len=False)
    return {"obligations": obls}


def post_report(contract, rep):
    """`iv-is-drawn-...` is a SUFFICIENT condition for freshness (the IV *is* a draw made inside the call); an IV computed
    from such a draw in some other way makes the solver refute the clause without being a counterexample to the property:
    such a model is downgraded to `unknown`, the native replayer (IVs of several calls compared) decides."""
    for role, real in getattr(contract, "aliases", {}).items():
        for o in rep.obligations:            # ids name the ROLE of a parameter, not what the code calls it
            for kind in ("modifies", "final"):
                if o["id"].endswith(f"/{kind}#{real}"):
                    o["id"] = o["id"][:-len(real)] + role
    if getattr(contract, "role", contract.target.split("::")[-1]) in OPTIONAL_HELPERS:
        for o in rep.obligations:
            o["volatile"] = True          # exists only while the helper exists (not locked; the callers' obligations are)
    if getattr(contract, "role_guessed", False):
        # the function was matched to its role by the call graph, not by its name: a failed VC may mean a wrong match
        for o in rep.obligations:
            if o["status"] == "refuted":
                o["status"] = "unknown"
                o["reason"] = f"contract of role {contract.role} on a function matched by data flow: " + (o.get("reason") or "")
    if getattr(contract, "role", "") in DRIVERS:
        # the drivers' loops are cut by invariants that this pack GUESSES from the roles of the locals (output buffer, counters,
        # chaining block): a VC that fails ON A PATH THROUGH THE CUT may only mean that the guessed invariant does not fit a
        # restructured loop.  Those paths are tagged by the executor (C20Executor.havoc_loop_state: `__havoc__@loop cut ...`), so
        # verify.discharge already reports such a refutation as `unknown`; the invariant's own initialisation VC is demoted here.
        # A refutation on a path that never reaches the loop (length checks, early returns) is a definite model of the real code.
        for o in rep.obligations:
            if o["status"] == "refuted" and "/inv-init#" in o["id"]:
                o["status"] = "unknown"
                o["reason"] = "the inferred loop invariant does not hold at loop entry (not a definite counterexample): " + (o.get("reason") or "")
    for o in rep.obligations:
        if o["id"].endswith("#iv-is-drawn-from-the-randomness-source-within-this-call") and o["status"] == "refuted":
            o["status"] = "unknown"
            o["reason"] = "the IV is not literally a 16-byte draw made inside the call (sufficient condition failed): " + (o.get("reason") or "")


DRIVERS = ("aes_ecb_encrypt", "aes_ecb_decrypt", "aes_cbc_encrypt", "aes_cbc_decrypt")


def install_site(repo, tier):
    """The installation site `patch_pypdf_fallback_aes`: what pypdf calls after the patch IS the code under contract.
    The REAL function is executed symbolically on an abstract model of the three pypdf modules (c20_modes.InstallExecutor:
    helpers inlined, loops over constant tuples unrolled, setattr / attribute stores alike); the obligations are read off
    the final heap of every outcome:
      * it declines (returns anything but True) only when pypdf does not run on its fallback provider;
      * when it returns True, each of the four aes_* names of the fallback module, the provider package and pypdf._encryption
        is bound to the module-level function of THIS module with that name (the one verified under that name's contract), and
        CryptAES of the three modules is the one class whose __init__ / encrypt / decrypt are bound to functions of this module
        (those functions are the targets of the CryptAES.* contracts, by construction);
      * nothing pypdf uses is left on pypdf's DependencyError stub.
    If the model cannot execute the function, the obligations are `unknown` and the native replayer (pypdf's own bindings after
    the real patch) decides."""
    from contracts import c20_modes as M
    from pyvc.flow import ground_obligation
    from pyvc import solve
    pre = "C20/_pypdf_aes_fallback.py::patch_pypdf_fallback_aes/install"
    labels = ("installs-whenever-pypdf-runs-on-its-fallback-provider", "every-store-binds-the-function-verified-for-that-name",
              "all-names-pypdf-uses-are-rebound")
    r = M.run_install_site(repo)
    if "error" in r:
        return {"obligations": [ground_obligation(f"{pre}#{lb}", False, "installation code not executable by the model: " + r["error"][:300], AES,
                                                  kind="call-site", definite=False) for lb in labels]}
    obls = []
    G = lambda label, ok, why="", definite=True: obls.append(ground_obligation(f"{pre}#{label}", ok, "" if ok else why, AES, kind="call-site", definite=definite))
    fallback = z3.String("crypt_provider!name") == z3.StringVal("local_crypt_fallback")
    is_true = lambda v: isinstance(v, VBool) and z3.is_true(z3.simplify(v.t))
    declines, unsure = [], []
    for (st, val) in r["outcomes"]:
        if not is_true(val):
            res = solve.check_vc(st.pc, z3.Not(fallback), 5000, want_model=False)
            if res.status == "refuted":
                declines.append(f"returns {val!r} on the fallback provider")
            elif res.status != "proved":
                unsure.append("undecided path condition")
    for (st, exc) in r["raised"]:
        unsure.append(f"may raise {getattr(exc, 'cls', exc)!r}")
    G(labels[0], not declines and not unsure, "; ".join(declines + unsure), definite=bool(declines))
    wrong, stubs, vague = [], [], []
    applied = [(st, val) for (st, val) in r["outcomes"] if is_true(val)]
    if not applied:
        vague.append("no path returns True")
    for (st, _val) in applied:
        mods = st.ghost.get("pypdf-modules", {})
        cls_ref = st.ghost.get("pypdf-CryptAES")
        for mname in M.PYPDF_MODULES:
            data = st.obj(mods[mname]).data if mname in mods else None
            for d in DRIVERS:
                v = data.get(d) if data is not None else None
                if data is None or (isinstance(v, VFunc) and v.how == "ext" and str(v.a).startswith("pypdf-stub")):
                    stubs.append(f"{mname}.{d}")
                elif not (isinstance(v, VFunc) and v.how == "repo" and v.a == AES and v.b == roles_of(repo)[d][0]):
                    (wrong if isinstance(v, VFunc) and v.how in ("repo", "closure") else vague).append(f"{mname}.{d} = {v!r}"[:120])
            v = data.get("CryptAES") if data is not None else None
            if data is not None and not (isinstance(v, VRef) and v.ref == cls_ref):
                vague.append(f"{mname}.CryptAES = {v!r}"[:120])
        cdata = st.obj(cls_ref).data if cls_ref is not None else {}
        for role in ("__init__", "encrypt", "decrypt"):
            v = cdata.get(role)
            if v is None:
                stubs.append(f"CryptAES.{role}")
            elif M.func_qualname(r, v) is None:
                vague.append(f"CryptAES.{role} = {v!r}"[:120])
    bound = M.installed_methods(repo)
    if applied and len(bound) != 3 and not stubs:
        vague.append("the methods bound to CryptAES differ between paths")
    G(labels[1], not wrong and not vague, "; ".join(wrong + vague)[:400], definite=bool(wrong))
    G(labels[2], not stubs and bool(applied), ("still pypdf's DependencyError stub: " + ", ".join(sorted(set(stubs))[:6])) if stubs else "no path returns True",
      definite=bool(stubs))
    m = loader.module(AES, repo)
    return {"obligations": obls, "functions": [dict(m.fn_info("patch_pypdf_fallback_aes"), obligations=len(obls))]}


CHUNKS_SEQ_LABEL = "yielded-sequence-is-the-len/16-blocks-of-the-input-in-order"
CHUNKS_PRE = "C20/_pypdf_aes_fallback.py::_chunks"
CHUNKS_VIEW_LEMMA = f"{CHUNKS_PRE}/lemma#call-site-summary-is-implied-by-the-verified-contract"


def chunk_is_block(stream, a, k):
    """0 <= k < count  ==>  the k-th yielded value has 16 bytes and they are a[16k .. 16k+15]"""
    cnt, yl, ys = stream
    return z3.Implies(z3.And(k >= 0, k < cnt),
                      z3.And([z3.Select(yl, k) == 16] + [z3.Select(z3.Select(ys, k), t) == z3.Select(a, 16 * k + t) for t in range(16)]))


def chunks_is_generator(repo=None):
    import ast as _ast
    try:
        fnode = loader.module(AES, repo).functions.get("_chunks")
    except Exception:  # noqa
        return None
    if fnode is None:
        return None
    return any(isinstance(x, (_ast.Yield, _ast.YieldFrom)) for x in _ast.walk(fnode))


def chunks_view_lemma():
    """The sequence-level SUMMARY the drivers use for `_chunks(data, 16)` (VSeq of len/16 blocks, block j = bytes 16j..16j+15) is
    implied by the postcondition verified on the generator body (ghost yield stream): same length, same elements."""
    from contracts import c20_modes as M
    I_ = z3.IntSort()
    n, a = z3.Int("n!cv"), z3.Array("a!cv", I_, M.BV8)
    cnt, yl, ys = z3.Int("cnt!cv"), z3.Array("yl!cv", I_, I_), z3.Array("ys!cv", I_, M.ARR)
    k, k0 = z3.Int("k!cv"), z3.Int("k0!cv")
    post = z3.And(cnt == n / 16, z3.ForAll([k], chunk_is_block((cnt, yl, ys), a, k)))
    view = VSeq(n / 16, lambda j: VBytes([VInt(x) for x in M.blk(a, j)]), "block")        # = chunks_returns
    e = view.elem(k0)
    goal = z3.And(view.length == cnt,
                  z3.Implies(z3.And(k0 >= 0, k0 < cnt),
                             z3.And([z3.IntVal(len(e.items)) == z3.Select(yl, k0)] +
                                    [M.byte_t(x) == z3.Select(z3.Select(ys, k0), t) for t, x in enumerate(e.items)])))
    return (CHUNKS_VIEW_LEMMA, [n >= 0, n % 16 == 0, post], goal)


def chunks_iteration(repo, tier):
    """`_chunks` is used by the drivers through a SEQUENCE-level summary (block j = bytes 16j..16j+15, len/16 blocks).  Its content
    is discharged here on the real generator body AT SEQUENCE LEVEL (round 7): the values a generator produces are its yields in
    execution order, carried as a ghost stream (count, lengths, contents: c20_modes.YIELD_STREAM) that every `yield` extends and
    the loop cut havocs; loop invariant `count == i` + pointwise `the j-th yielded value is bytes 16j..16j+15`; postcondition
    `count == len/16 and for all k < count: chunk k is block k`.  The lemma `chunks_view_lemma` derives the drivers' summary
    from this postcondition, so the summary is a VIEW of a verified contract, not an assumption."""
    from contracts import c20_modes as M
    from pyvc import verify
    from pyvc.contracts import Registry
    from pyvc.exctypes import Universe
    reg = Registry()
    for c in contracts(reg):
        reg.add(c)
    DATA = M.p_symbytes(desc="data: bytes of any block-aligned length")

    def inv(lc):
        """after i iterations exactly i values have been yielded (one per iteration); a `for` over range(0, n, 16) runs n/16 times"""
        n, a = M.arr_of(param(lc, "data"))
        cnt, _yl, _ys = M.yield_stream(lc.st)
        cnt0, _a, _b = M.yield_stream(lc.entry)
        cs = [cnt == cnt0 + lc.i]
        if lc.seq is not None:
            cs.append(lc.seq.length == n / 16)
        else:
            # `while` form: the loop's own counters advance by a constant per iteration (x == x@entry + step * i, read off the
            # body), and never more than len/16 values have been yielded (with the negated test this gives the count at exit)
            cs += counters(lc)
            cs.append(16 * cnt <= n)
        return z3.And(cs)

    def counters(lc):
        import ast
        fn = lc.ex.cur_fn_stack[-1]
        loops = sorted([x for x in ast.walk(fn) if isinstance(x, (ast.For, ast.While))], key=lambda x: (x.lineno, x.col_offset))
        if not loops:
            return []
        body = loops[0].body
        stored = lc.ex.assigned_names(body)

        def const_of(e):
            if isinstance(e, ast.Constant) and isinstance(e.value, int) and not isinstance(e.value, bool):
                return e.value
            if isinstance(e, ast.Name) and e.id not in stored:
                v = lc.entry.lookup(e.id)
                return v.const() if isinstance(v, VInt) else None
            return None
        out = []
        for st_ in body:
            name = step = None
            if isinstance(st_, ast.AugAssign) and isinstance(st_.op, (ast.Add, ast.Sub)) and isinstance(st_.target, ast.Name):
                k = const_of(st_.value)
                if k is not None:
                    name, step = st_.target.id, (k if isinstance(st_.op, ast.Add) else -k)
            elif isinstance(st_, ast.Assign) and len(st_.targets) == 1 and isinstance(st_.targets[0], ast.Name) \
                    and isinstance(st_.value, ast.BinOp) and isinstance(st_.value.op, ast.Add):
                for x, y in ((st_.value.left, st_.value.right), (st_.value.right, st_.value.left)):
                    if isinstance(x, ast.Name) and x.id == st_.targets[0].id and const_of(y) is not None:
                        name, step = x.id, const_of(y)
                        break
            if name is None or sum(1 for z_ in ast.walk(ast.Module(body=body, type_ignores=[])) if isinstance(z_, ast.Name) and z_.id == name and isinstance(z_.ctx, ast.Store)) != 1:
                continue
            v0, v1 = lc.entry.lookup(name), lc.st.lookup(name)
            if v0 is None or v1 is None:
                continue
            out.append(ops.int_term(v1) == ops.int_term(v0) + step * lc.i)
        return out

    def inv_point(lc, j):
        """every value yielded so far is a block of the input: the j-th one is the 16 bytes data[16j .. 16j+15]"""
        n, a = M.arr_of(param(lc, "data"))
        return chunk_is_block(M.yield_stream(lc.st), a, j)

    def seq_level(c):
        """SEQUENCE-level postcondition of the generator: len/16 values are yielded and the k-th one is bytes 16k..16k+15"""
        n, a = M.arr_of(c.args["data"])
        cnt, yl, ys = M.yield_stream(c.st)
        k = z3.Int(fresh_name("k!chunk"))
        return z3.And(cnt == n / 16, z3.ForAll([k], chunk_is_block((cnt, yl, ys), a, k)))

    def with_stream(c):
        M.init_yield_stream(c.st)          # own verification only (this contract object is never applied at a call site)
        return c.args["data"].length % 16 == 0

    import ast as _ast
    fnode = loader.module(AES, repo).functions["_chunks"]
    is_gen = any(isinstance(x, (_ast.Yield, _ast.YieldFrom)) for x in _ast.walk(fnode))

    def seq_post(c):
        """the function RETURNS the sequence (generator expression / list): len/16 elements, element k = bytes 16k..16k+15"""
        n, a = M.arr_of(c.args["data"])
        r = c.result
        if not isinstance(r, VSeq):
            items = c.ex.concrete_items(c.st, r)
            raise ops.Unsupported("result of _chunks is not a sequence of symbolic length" if items is None else "concrete result for a symbolic buffer")
        k = z3.Int(fresh_name("k!chunk"))
        e = r.elem(k)
        if isinstance(e, VBytes):
            en, sel = z3.IntVal(len(e.items)), [M.byte_t(x) for x in e.items]
        else:
            en, ea = M.arr_of(e)
            sel = [z3.Select(ea, t) for t in range(16)]
        return z3.And(r.length == n / 16,
                      z3.ForAll([k], z3.Implies(z3.And(k >= 0, k < n / 16), z3.And([en == 16] + [sel[t] == z3.Select(a, 16 * k + t) for t in range(min(16, len(sel)))]))))

    if is_gen:
        c = FnContract(target=f"{AES}::_chunks", generator=True, params=sig_params("_chunks", {"data": DATA, "size": p_const(16)}),
                       requires=with_stream, raises=[],
                       ensures=[(CHUNKS_SEQ_LABEL, seq_level)],
                       loops={0: LoopSpec(inv=inv, inv_point=inv_point, havoc=M.YIELD_STREAM, label="chunk-k-is-bytes-16k..16k+15")})
    else:
        c = FnContract(target=f"{AES}::_chunks", params=sig_params("_chunks", {"data": DATA, "size": p_const(16)}),
                       requires=lambda c: c.args["data"].length % 16 == 0, raises=[],
                       ensures=[("chunk-k-is-bytes-16k..16k+15", seq_post)])
    c = bind_by_position(c)
    if "_chunks" not in loader.module(AES, repo).functions:
        return {"obligations": []}          # the drivers slice the buffer themselves
    rep = verify.run_contract("C20", c, reg, Universe(repo), repo=repo, executor_cls=M.C20Executor)
    pre = "C20/_pypdf_aes_fallback.py::_chunks"
    if rep.error or rep.out_of_subset:
        return {"obligations": [{"id": f"{pre}/out-of-subset", "kind": "out-of-subset", "status": "unknown", "vcs": 0, "seconds": 0.0, "backends": {},
                                 "witness": None, "reason": "OUT-OF-SUBSET " + str(rep.error or rep.out_of_subset), "function": f"{AES}::_chunks", "loc": "", "volatile": True}]}
    keep = [o for o in rep.obligations if "inv-" in o["id"] or "/ensures#" in o["id"] or o["id"].endswith("/raises")]
    for o in keep:
        o["function"] = f"{AES}::_chunks"
        o["volatile"] = True
    m = loader.module(AES, repo)
    return {"obligations": keep, "functions": [dict(m.fn_info("_chunks"), obligations=len(keep))]}


def cache_policy(repo, tier):
    """`_ROUND_KEY_CACHE` is read and written only by `_get_round_keys` (whose stores carry the cache-invariant obligation):
    the class invariant assumed by the cache-lookup model has no other writer in the package."""
    import ast
    from pyvc.flow import ground_obligation
    uses = []
    owner_q = roles_of(repo)["_get_round_keys"][0]
    # private helpers of the owner: module-level functions without a role of their own that are referenced ONLY from the owner (or
    # from such helpers) anywhere in the package -- they are executed in place when the owner is verified (no contract: inlined), so
    # their stores carry the owner's cache-invariant obligation
    amod = loader.module(AES, repo)
    role_fns = {q for (q, _g) in roles_of(repo).values()}
    owners = {owner_q}
    elsewhere = "".join(loader.module(rel, repo).source for rel in loader.all_package_files(repo) if rel != AES)
    for _round in range(4):
        grew = False
        for q, fn in amod.functions.items():
            if q in owners or "." in q or q in role_fns or q in elsewhere:
                continue
            ref_in = set()
            for q2, fn2 in amod.functions.items():
                if "." in q2:
                    continue
                if any(isinstance(n, ast.Name) and n.id == q for n in ast.walk(fn2)) and q2 != q:
                    ref_in.add(q2)
            top = any(isinstance(n, ast.Name) and n.id == q for st_ in amod.tree.body if not isinstance(st_, (ast.FunctionDef, ast.AsyncFunctionDef))
                      for n in ast.walk(st_))
            if ref_in and ref_in <= owners and not top:
                owners.add(q)
                grew = True
        if not grew:
            break
    for rel in loader.all_package_files(repo):
        mod = loader.module(rel, repo)
        if "_ROUND_KEY_CACHE" not in mod.source:
            continue
        owner = {}                      # innermost enclosing function of every node
        for q, fn in sorted(mod.functions.items(), key=lambda kv: -kv[0].count(".")):
            for n in ast.walk(fn):
                owner.setdefault(id(n), q)
        for n in ast.walk(mod.tree):
            if (isinstance(n, ast.Name) and n.id == "_ROUND_KEY_CACHE") or (isinstance(n, ast.Attribute) and n.attr == "_ROUND_KEY_CACHE") \
                    or (isinstance(n, ast.Constant) and n.value == "_ROUND_KEY_CACHE") or (isinstance(n, ast.alias) and n.name == "_ROUND_KEY_CACHE"):
                q = owner.get(id(n), "<module>")
                if rel == AES and q == "<module>" and isinstance(n, ast.Name) and isinstance(n.ctx, ast.Store):
                    continue        # the module-level definition
                if rel == AES and q in owners:
                    continue
                uses.append(f"{rel.split('/')[-1]}:{n.lineno} in {q}")
    ob = ground_obligation("C20/_pypdf_aes_fallback.py::_ROUND_KEY_CACHE/policy#only-_get_round_keys-touches-the-cache", not uses,
                           "other uses: " + ", ".join(uses[:5]), AES, kind="policy", definite=False)
    return {"obligations": [ob]}


def frame_policy(repo, tier):
    """Re-entrancy of the drivers ("for every key and block" quantifies over calls, also over calls that are in progress at the
    same time): no function reachable from a driver / a CryptAES method writes an object that outlives the call (module-level
    scratch state, closure variables, mutable defaults, function attributes, the cached round keys) -- contracts/c20_frame.py.
    Keyed caches written by the round-key provider are governed by the cache-invariant obligations.  Decided by code shape:
    a site found is `unknown`, the replayer's `concurrent` scope decides."""
    from pyvc.flow import ground_obligation
    from contracts import c20_frame as FR
    mod = loader.module(AES, repo)
    A = FR.Analysis(mod)
    roles = roles_of(repo)
    owner = roles.get("_get_round_keys", (None,))[0]
    obls = []
    for role in DRIVERS:
        q = roles.get(role, (None,))[0]
        if q is None or q not in A.fns:
            continue
        sites = A.persistent_writes(q, owner)
        obls.append(ground_obligation(f"C20/_pypdf_aes_fallback.py::{role}/policy#keeps-no-working-state-across-calls", not sites,
                                      "writes to objects that outlive the call: " + "; ".join(sites[:4]), AES, kind="policy", definite=False))
    # the CryptAES methods: the functions the installation code defines (nested) or refers to (module level) besides the drivers
    import ast
    driver_qs = {roles.get(r, (None,))[0] for r in DRIVERS}
    methods = [q for q in A.fns if ".<locals>." in q]
    inst = mod.functions.get("patch_pypdf_fallback_aes")
    if inst is not None:
        methods += [n.id for n in ast.walk(inst) if isinstance(n, ast.Name) and isinstance(n.ctx, ast.Load) and n.id in A.fns
                    and n.id not in driver_qs and n.id not in methods]
    sites = []
    for q in methods:
        sites += [x for x in A.persistent_writes(q, owner, constructor=q.endswith("init") or q.endswith("init__")) if x not in sites]
    ok = bool(methods) and not sites
    why = "writes to objects that outlive the call: " + "; ".join(sites[:4]) if methods else "the functions installed as CryptAES methods were not found"
    obls.append(ground_obligation("C20/_pypdf_aes_fallback.py::CryptAES/policy#keeps-no-working-state-across-calls", ok, why, AES,
                                  kind="policy", definite=False))
    return {"obligations": obls}


def _guarded(fn, subject):
    """an exception inside an EXTRA analysis on changed input is a shape this pack does not understand: `unknown` (native replay)"""
    def run(repo, tier):
        try:
            return fn(repo, tier)
        except Exception as e:  # noqa
            return {"obligations": [{"id": f"C20/_pypdf_aes_fallback.py::{subject}/out-of-subset", "kind": "out-of-subset", "status": "unknown", "vcs": 0,
                                     "seconds": 0.0, "backends": {}, "witness": None, "volatile": True, "function": f"{AES}::{subject}", "loc": "",
                                     "reason": f"OUT-OF-SUBSET analysis not applicable to this shape: {type(e).__name__}: {e}"[:300]}]}
    run.__name__ = fn.__name__
    return run


EXTRA = [_guarded(table_checks, "tables"), _guarded(install_site, "patch_pypdf_fallback_aes"), _guarded(cache_policy, "_ROUND_KEY_CACHE"),
         _guarded(chunks_iteration, "_chunks"), _guarded(frame_policy, "drivers")]
LOCK_OPTIONAL_KINDS = ("slice-store-in-range", "call-pre")       # exist only while the code has that store / call form
REPLAY_UNKNOWN = True
from contracts.c20_modes import C20Executor as EXECUTOR  # noqa: E402
TRUSTED = ["FIPS-197 spec transcription in contracts/C20.py (guarded by known-answer vectors each run)"]
ASSUMED_MODELS = []
ASSUMPTIONS = ["PY-INT with exact bit-vector encoding (widths grow, no overflow)", "bytes objects are immutable sequences of ints in [0,256)"]
