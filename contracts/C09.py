"""C09 -- archive processing is confined: no host file is read or written.

INSIDE(base, r) is the statement's containment notion made precise:
r is `base` itself, or a *normalised absolute* path equal to abspath(base) or
having abspath(base)+sep as a prefix.  `_safe_join` is proved to return only
such paths (or raise Bad7zFile); every file-system call of the 7z reader and of
the archive extractor gets the obligation that its path argument is INSIDE the
private temporary directory; ZIP/TAR paths have no file-system call at all
(policy, from the AST); skip rules dominate every member dispatch.

Round 5: the containment test may be written with os.path.commonprefix / commonpath / relpath (assumed models below; commonprefix is a
character prefix and does not prove INSIDE); a file-system call in a symbolically executed function whose path the AST policy cannot follow
is decided by its own fs-confined VC (the policy then only asks that every call site passes a confined directory); a second BOUNDED native
scope pins the temp dir name (`../<temp dir name>/x` re-enters the private directory: recorded finding, proposed_fixes/C09_2_climbing_names.diff).

Round 6: `contracts/c09_routing.py` -- the nested-archive rule is a suffix test while the extractor of a selected member is chosen by the router:
(a) the router functions meet the routing specification (C07's contracts, executed on the tree under check), (b) lemma over the two verified
specifications: a selected base name is never routed to the archive reader (refuted on the unchanged tree: `.gz` / `.bz2` / `.xz` aliases and
MIME-detected tar names -- recorded finding C09-nested-archive-aliases-are-dispatched, proposed_fixes/C09_3_nested_aliases.diff).

Round 7 (deepening): VERIFIED on the real bodies instead of assumed / policy-only -- sevenzip `_mkdirs`, `SevenZipReader._extract_files_from_folder`,
`SevenZipReader.extractall` (`writer_contracts`: every os.makedirs / open path is INSIDE the named directory for all member tables; callees through
their verified contracts, `call-pre` obligations), archive `_is_supported_file_cached`, `_get_file_extractor_cached`, `_process_archive_entry`
(no file-system call; the extractor is handed io.BytesIO(file_data)).  `contracts/c09_counts.py`: one-iteration step obligations on the 7z
path-count pass and the work-list pass.  Assumed models added: os.path.dirname below the base, io.BytesIO, sum of ints, file.write; the os.makedirs
clause is `mkdir_ok` (inside, or the parent of the private directory: nothing to create) -- TRUSTED, validated natively by `model_validation` (BOUNDED).
Clauses over ghost lists are judged only in the callee's own verification (`ctx.at_call_site`), and a `requires` never rebinds the caller's ghost directory.
"""
import os

import z3

from pyvc import loader, ops
from pyvc.contracts import FnContract, Raises
from pyvc.flow import ground_obligation
from pyvc.symex import Executor
from pyvc.values import NONE, VBool, VExt, VFunc, VSeq, VStr, VTuple, VUnk, ext_sort, fresh_name
from pyvc.verify import p_opt, p_str, p_unk

ARCH = "sharepoint2text/parsing/extractors/archive_extractor.py"
SEVEN = "sharepoint2text/parsing/extractors/util/sevenzip.py"
ROUTER_REL = "sharepoint2text/parsing/router.py"
S = z3.StringSort()
ABS = z3.Function("os_path_abspath", S, S)
JOIN = z3.Function("os_path_join", S, S, S)
DRIVE = z3.Function("os_path_splitdrive_drive", S, S)
TAIL = z3.Function("os_path_splitdrive_tail", S, S)
ISABS = z3.Function("os_path_isabs", S, z3.BoolSort())
NORM = z3.Function("is_normalised_absolute", S, z3.BoolSort())
NORMPATH = z3.Function("os_path_normpath", S, S)
SEP = z3.StringVal("/")


def inside(base, r):
    """r is base itself, or a normalised absolute path that equals abspath(base), lies below abspath(base) + sep, or -- when abspath(base)
    already ends in a separator (the file-system root) -- has it as a prefix."""
    b = ABS(base)
    return z3.Or(r == base, z3.And(NORM(r), z3.Or(r == b, z3.PrefixOf(z3.Concat(b, SEP), r), z3.And(z3.SuffixOf(SEP, b), z3.PrefixOf(b, r)))))


# ------------------------------------------------------ assumed os.path models --
def join_fact(b, t):
    """os.path.abspath(os.path.join(b, t)) (assumed, POSIX) for a normalised absolute b and a RELATIVE t (not absolute, no leading separator) whose
    normpath does not climb (is not `..` and does not start with `../`): the result is b or lies below it (join keeps b, normalisation of a
    non-climbing relative tail never removes a component of b).  Validated on the platform by the model-validation obligation."""
    r, n = ABS(JOIN(b, t)), NORMPATH(t)
    climbs = z3.Or(n == z3.StringVal(".."), z3.PrefixOf(z3.StringVal("../"), n))
    below = z3.Or(r == b, z3.PrefixOf(z3.Concat(b, SEP), r), z3.And(z3.SuffixOf(SEP, b), z3.PrefixOf(b, r)))
    return z3.Implies(z3.And(NORM(b), z3.Not(ISABS(t)), z3.Not(z3.PrefixOf(SEP, t)), z3.Not(climbs)), below)


def m_abspath(ex, st, args, kwargs, node):
    p = args[0].t
    st.assume(NORM(ABS(p)))
    try:
        if z3.is_app(p) and p.decl().name() == "os_path_join" and p.num_args() == 2:
            st.assume(join_fact(p.arg(0), p.arg(1)))
    except Exception:  # noqa
        pass
    return [(st, VStr(ABS(p)))]


def m_join(ex, st, args, kwargs, node):
    return [(st, VStr(JOIN(args[0].t, args[1].t)))]


def m_splitdrive(ex, st, args, kwargs, node):
    p = args[0].t
    st.assume(z3.Concat(DRIVE(p), TAIL(p)) == p)            # drive + tail == path (documented for every platform)
    return [(st, VTuple([VStr(DRIVE(p)), VStr(TAIL(p))]))]


def _two_strings(st, v):
    """the two str terms of a 2-element list / tuple literal, else None"""
    from pyvc.values import VRef
    items = None
    if isinstance(v, VTuple):
        items = list(v.items) if hasattr(v, "items") else None
    elif isinstance(v, VRef):
        o = st.obj(v.ref)
        if o.kind == "list" and isinstance(o.data, list):
            items = list(o.data)
    if items is not None and len(items) == 2 and all(isinstance(x, VStr) for x in items):
        return items[0].t, items[1].t
    return None


def m_commonprefix(ex, st, args, kwargs, node):
    """os.path.commonprefix([a, b]): the longest common *character* prefix (PY-OSPATH): r is a prefix of both, and r == a iff a is a prefix of b"""
    ab = _two_strings(st, args[0]) if args else None
    if ab is None:
        return ex.havoc_call(st, "os.path.commonprefix", args, node)
    a, b = ab
    r = z3.String(fresh_name("commonprefix"))
    st.assume(z3.And(z3.PrefixOf(r, a), z3.PrefixOf(r, b), z3.Implies(z3.PrefixOf(a, b), r == a), z3.Implies(z3.PrefixOf(b, a), r == b)))
    return [(st, VStr(r))]


def m_commonpath(ex, st, args, kwargs, node):
    """os.path.commonpath([a, b]) for normalised absolute a, b: the longest common *component* prefix; r == a iff b == a, b lies below
    a + sep, or a ends in a separator (root) and is a prefix of b.  May raise ValueError (mixed absolute / relative: excluded by NORM)."""
    ab = _two_strings(st, args[0]) if args else None
    if ab is None:
        return ex.havoc_call(st, "os.path.commonpath", args, node)
    a, b = ab
    r = z3.String(fresh_name("commonpath"))
    below = lambda x, y: z3.Or(y == x, z3.PrefixOf(z3.Concat(x, SEP), y), z3.And(z3.SuffixOf(SEP, x), z3.PrefixOf(x, y)))
    st.assume(z3.Implies(z3.And(NORM(a), NORM(b)), z3.And(z3.PrefixOf(r, a), z3.PrefixOf(r, b), (r == a) == below(a, b), (r == b) == below(b, a))))
    if not (ex.feasible(st.pc, z3.And(NORM(a), NORM(b))) and not ex.feasible(st.pc, z3.Not(z3.And(NORM(a), NORM(b))))):
        ex.exc_any(st.fork(), f"{ex.loc(node)} os.path.commonpath on paths not known to be normalised absolute")
    return [(st, VStr(r))]


def m_relpath(ex, st, args, kwargs, node):
    """os.path.relpath(t, b) for normalised absolute t, b (POSIX): the result climbs (is `..` or starts with `../`) iff t is not b and does not
    lie below b; it is `.` iff t == b.  Anything else about it stays unconstrained."""
    if len(args) != 2 or kwargs or not all(isinstance(x, VStr) for x in args):
        return ex.havoc_call(st, "os.path.relpath", args, node)
    t, b = args[0].t, args[1].t
    r = z3.String(fresh_name("relpath"))
    below = z3.Or(t == b, z3.PrefixOf(z3.Concat(b, SEP), t), z3.And(z3.SuffixOf(SEP, b), z3.PrefixOf(b, t)))
    climbs = z3.Or(r == z3.StringVal(".."), z3.PrefixOf(z3.StringVal("../"), r))
    st.assume(z3.Implies(z3.And(NORM(t), NORM(b)), z3.And(climbs == z3.Not(below), (r == z3.StringVal(".")) == (t == b), z3.Length(r) > 0)))
    if not (ex.feasible(st.pc, z3.And(NORM(t), NORM(b))) and not ex.feasible(st.pc, z3.Not(z3.And(NORM(t), NORM(b))))):
        ex.exc_any(st.fork(), f"{ex.loc(node)} os.path.relpath on paths not known to be normalised absolute")
    return [(st, VStr(r))]


def m_isabs(ex, st, args, kwargs, node):
    return [(st, VBool(ISABS(args[0].t)))]


DIRNAME = z3.Function("os_path_dirname", S, S)


def dirname_fact(base, p):
    """os.path.dirname (assumed, POSIX) of a normalised absolute path p that lies strictly below abspath(base): a normalised absolute path that is
    abspath(base) or lies below it (p = b/c1/../cn without empty components: dirname drops `/cn`).  Nothing is said about dirname(abspath(base))
    itself -- that is the PARENT of the private directory, see `mkdir_ok`."""
    b, d = ABS(base), DIRNAME(p)
    return z3.And(z3.Implies(z3.And(NORM(p), z3.PrefixOf(z3.Concat(b, SEP), p)), z3.And(NORM(d), z3.Or(d == b, z3.PrefixOf(z3.Concat(b, SEP), d)))),
                  z3.Implies(z3.And(NORM(p), z3.SuffixOf(SEP, b), z3.PrefixOf(b, p)), z3.And(NORM(d), z3.PrefixOf(b, d))))


def m_dirname(ex, st, args, kwargs, node):
    if len(args) != 1 or kwargs or not isinstance(args[0], VStr):
        return ex.havoc_call(st, "os.path.dirname", args, node)
    temp = st.ghost.get("temp_dir")
    if temp is not None:
        st.assume(dirname_fact(temp, args[0].t))
    return [(st, VStr(DIRNAME(args[0].t)))]


def mkdir_ok(temp, p):
    """what os.makedirs(p, exist_ok=True) may be given: a path inside the private directory (every directory it creates is then inside: the
    private directory exists), or the parent of the private directory (an ancestor of an existing directory exists: nothing is created; this
    is what a *file* member whose name normalises to `.` makes the reader do before open() fails with IsADirectoryError)."""
    return z3.Or(inside(temp, p), p == DIRNAME(ABS(temp)), p == DIRNAME(temp))


def fs_call(kind):
    """A file-system effect: emits the confinement obligation on its path argument."""
    def m(ex, st, args, kwargs, node):
        p = args[0] if args else next((kwargs[k] for k in ("name", "path", "file", "p", "s", "filename") if k in kwargs), None)   # os.makedirs(name=...), open(file=...)
        temp = st.ghost.get("temp_dir")
        label = "every-path-argument-is-inside-the-private-temp-dir"     # one id for all sites: call ordinals / primitive names may change
        st.ghost["fs_calls"] = st.ghost.get("fs_calls", ()) + (f"{ex.loc(node)} {kind}",)
        if temp is None or not isinstance(p, VStr):
            ex.add_vc("fs-confined", label, st.pc, z3.BoolVal(False), note=f"{ex.loc(node)} {kind}: no private temp dir in scope / path not a string", loc=ex.loc(node))
        else:
            ex.add_vc("fs-confined", label, st.pc, mkdir_ok(temp, p.t) if kind == "os.makedirs" else inside(temp, p.t), note=f"{ex.loc(node)} {kind}", loc=ex.loc(node))
        ex.exc_any(st.fork(), f"{ex.loc(node)} {kind}")
        if kind in ("os.path.exists", "os.path.lexists", "os.path.isfile", "os.path.isdir"):
            return [(st, VBool(z3.Bool(fresh_name("exists"))))]
        if kind == "os.path.getsize":
            from pyvc.values import VInt
            return [(st, VInt(z3.Int(fresh_name("getsize"))))]
        if kind == "open":
            return [(st, VExt("File"))]
        return [(st, NONE)]
    return m


def with_file(ex, st, cm, phase):
    if phase == "enter":
        return [(st, cm)]


OVER = z3.Bool("pyvc!overapprox")     # assumed on every path that went through an un-modelled call (EXC-ANY: the result is arbitrary):
                                      # a solver model on such a path is not a counterexample of the real code -> `unknown`, native replay decides


class FsExecutor(Executor):
    def b_open(self, st, args, kwargs, node):
        return fs_call("open")(self, st, args, kwargs, node)

    def add_vc(self, kind, label, pc, goal, note="", loc=""):
        # one `call-pre` id per callee: the ordinal of a call site changes when a harmless edit adds / merges / reorders calls
        if kind == "call-pre" and "@" in label and label.rsplit("@", 1)[1].isdigit():
            note, label = (note or f"{loc} call site {label}"), label.rsplit("@", 1)[0]
        return super().add_vc(kind, label, pc, goal, note=note, loc=loc)

    # `k in self._folder_to_files`, `self._folder_to_files[k]`: a dict from folder index to the list of its file indices (any dict: HASF / NIDX /
    # FIDX are uninterpreted; a missing key raises KeyError as a dict does)
    def contains(self, st, container, item, node):
        from pyvc.values import VInt
        if isinstance(container, VExt) and container.sort == "FolderMap" and isinstance(item, VInt):
            return [(st, VBool(HASF(ops.int_term(item))))]
        return super().contains(st, container, item, node)

    def get_index(self, st, base, idx, node):
        from pyvc.values import VInt
        if isinstance(base, VExt) and base.sort == "FolderMap" and isinstance(idx, VInt):
            k = ops.int_term(idx)
            st = self.fork_raise(st, z3.Not(HASF(k)), "KeyError")
            if st is None:
                return []
            st.assume(NIDX(k) >= 0)
            return [(st, VSeq(NIDX(k), lambda j, k=k: VInt(FIDX(k, j)), "int"))]
        return super().get_index(st, base, idx, node)

    def b_sum(self, st, args, kwargs, node):
        """sum() of a list of ints is an int and raises nothing (its value is of no interest here: positions in the in-memory archive)"""
        from pyvc.values import VInt
        if len(args) == 1 and not kwargs and isinstance(args[0], VSeq) and args[0].ekind == "int":
            return [(st, VInt(z3.Int(fresh_name("sum"))))]
        sup = getattr(super(), "b_sum", None)
        return sup(st, args, kwargs, node) if sup is not None else self.havoc_call(st, "sum", args, node)

    def havoc_call(self, st, what, args, node):
        st.ghost["opaque_calls"] = st.ghost.get("opaque_calls", ()) + ((str(what), tuple(args), self.loc(node)),)
        st.assume(OVER)          # before the fork: "may raise any Exception" is part of the over-approximation
        return super().havoc_call(st, what, args, node)


def _over(pc, goal):
    return any(z3.is_const(x) and z3.eq(x, OVER) for x in pc)


from pyvc import solve as _solve  # noqa: E402
if not any(getattr(f, "__name__", "") == "_over" and f.__module__ == __name__ for f in _solve.SAT_UNTRUSTED):
    _solve.SAT_UNTRUSTED.append(_over)


# primitives whose every call is a confinement VC of its own in a symbolically executed function (anything else there is havoc -> `unknown`)
SYMBOLIC_FS = ("open", "os.path.exists", "os.path.lexists", "os.path.isfile", "os.path.isdir", "os.path.getsize", "os.unlink", "os.rmdir",
               "os.makedirs", "os.remove", "os.mkdir")


def install(reg):
    reg.ext_models["os.path.abspath"] = m_abspath
    reg.ext_models["os.path.join"] = m_join
    reg.ext_models["os.path.splitdrive"] = m_splitdrive
    reg.ext_models["os.path.isabs"] = m_isabs
    reg.ext_models["os.path.dirname"] = m_dirname
    reg.ext_models["os.path.commonprefix"] = m_commonprefix
    reg.ext_models["os.path.commonpath"] = m_commonpath
    reg.ext_models["os.path.relpath"] = m_relpath
    reg.ext_models["os.path.normpath"] = lambda ex, st, args, kwargs, node: ([(st, VStr(NORMPATH(args[0].t)))] if len(args) == 1 and isinstance(args[0], VStr) and not kwargs
                                                                             else ex.havoc_call(st, "os.path.normpath", args, node))
    for k, v in (("os.sep", "/"), ("os.path.sep", "/"), ("os.pardir", ".."), ("os.path.pardir", ".."), ("os.curdir", "."), ("os.path.curdir", ".")):
        reg.ext_models[("const", k)] = VStr(v)            # POSIX (the replayer runs the real functions on this platform)
    for k in SYMBOLIC_FS:
        if k != "open":                                   # the builtin: FsExecutor.b_open
            reg.ext_models[k] = fs_call(k)
    reg.ext_models[("with", "File")] = with_file

    def m_bytesio(ex, st, args, kwargs, node):
        """io.BytesIO(data): an in-memory stream over `data` (no file); remembered so that a contract can say WHAT an extractor is handed"""
        ex.exc_any(st.fork(), f"{ex.loc(node)} io.BytesIO")
        v = VExt("BytesIO")
        st.ghost[("bytesio", v.t.get_id())] = args[0] if len(args) == 1 and not kwargs else None
        return [(st, v)]
    reg.ext_models["io.BytesIO"] = m_bytesio


EXECUTOR = FsExecutor
SUP = z3.Function("is_supported_file_cached", S, z3.BoolSort())
LOWER = z3.Function("str_lower", S, S)


def real_params(rel, qual, default):
    """parameter names of the real function, by position (a renamed parameter keeps its role); `default` when the arity differs"""
    try:
        f = loader.module(rel).functions.get(qual)
        names = [a.arg for a in f.args.posonlyargs + f.args.args] if f is not None else []
        if len(names) == len(default) and not f.args.kwonlyargs and not f.args.vararg and not f.args.kwarg:
            return names
        # parameters ADDED behind the roles, all with defaults (the unchanged call sites still work): the roles keep their positions; the added
        # ones are bound to arbitrary values by `with_added_params`
        if f is not None and len(names) > len(default) and not f.args.vararg and not f.args.kwarg and len(f.args.defaults) >= len(names) - len(default) \
                and all(d is not None for d in f.args.kw_defaults):
            return names[:len(default)]
    except Exception:  # noqa
        pass
    return list(default)


def extra_params(rel, qual, n_roles):
    """makers for the parameters a harmless edit ADDED behind the `n_roles` the contract speaks about (they must have defaults, else the call sites of
    the unchanged callers would not work): a str default -> any string, anything else -> unknown"""
    import ast
    try:
        f = loader.module(rel).functions.get(qual)
        pos = f.args.posonlyargs + f.args.args
        extra, defaults = pos[n_roles:], f.args.defaults
        if len(pos) < n_roles or (len(pos) == n_roles and not f.args.kwonlyargs) or len(defaults) < len(extra) or f.args.vararg or f.args.kwarg:
            return None
        out = []
        from pyvc.verify import Maker

        def mk(d):
            # verified for ANY value of the added parameter; a call site that omits it gets the declared default
            if isinstance(d, ast.Constant) and isinstance(d.value, str):
                return Maker(p_str().fn, default=lambda ex, st, v=d.value: VStr(z3.StringVal(v)), desc="str (added parameter)")
            if isinstance(d, ast.Constant):
                return Maker(p_unk().fn, default=lambda ex, st, v=d.value: ops.lift(v), desc="any (added parameter)")
            return Maker(p_unk().fn, default=lambda ex, st: VUnk("default"), desc="any (added parameter)")
        for a, d in zip(extra, defaults[len(defaults) - len(extra):]):
            out.append((a.arg, mk(d)))
        for a, d in zip(f.args.kwonlyargs, f.args.kw_defaults):
            if d is None:
                return None
            out.append((a.arg, mk(d)))
        return out
    except Exception:  # noqa
        return None


def contracts(reg):
    install(reg)
    out = []
    sj_base, sj_rel = real_params(SEVEN, "_safe_join", ("base_dir", "relative_path"))
    p7_files, p7_temp, p7_arch = real_params(ARCH, "_process_7z_files_sequential", ("files_to_process", "temp_dir", "archive_path"))
    sk_file, sk_base = real_params(ARCH, "_should_skip_file", ("filename", "basename"))
    (sup_name,) = real_params(ARCH, "_is_supported_file_cached", ("filename",))

    def no_fs(c):
        if getattr(c, "at_call_site", False):                  # a clause about the callee's own run: at a call site it is what the caller may rely on
            return z3.BoolVal(True)                            # (the caller's ghost list holds the CALLER's earlier calls and must not be judged here)
        calls = c.st.ghost.get("fs_calls", ())[len(c.entry.ghost.get("fs_calls", ())):]
        c.note = "; ".join(calls)
        return z3.BoolVal(not calls)

    def sj_raise(c):
        rel = c.args[sj_rel].t
        return z3.Length(rel) > 0

    out.append(FnContract(
        target=f"{SEVEN}::_safe_join",
        params=[(sj_base, p_str()), (sj_rel, p_str())],
        ensures=[("result-inside-base", lambda c: inside(c.args[sj_base].t, c.result.t))],
        raises=[Raises("Bad7zFile", when=sj_raise)],
        result_maker=lambda ex, st, ctx: VStr(z3.String(fresh_name("safe_path"))),
        note="returns only paths inside base_dir; absolute / drive / dot-dot escapes raise Bad7zFile",
    ))

    # _process_7z_files_sequential(files_to_process, temp_dir, archive_path): every FS call stays in temp_dir
    def files_maker():
        from pyvc.verify import Maker
        def mk(ex, st, name):
            n = z3.Int(f"{name}_len")
            fn = z3.Function(f"{name}_filename", z3.IntSort(), S)
            bn = z3.Function(f"{name}_basename", z3.IntSort(), S)
            return [(n >= 0, VSeq(n, lambda i: VTuple([VUnk("file_info"), VStr(fn(i)), VStr(bn(i))]), "tuple"))]
        return Maker(mk, desc="list of (FileInfo, filename, basename) with arbitrary member names")

    def bind_temp(c):
        c.st.ghost["temp_dir"] = c.args[p7_temp].t
        return z3.BoolVal(True)

    out.append(FnContract(
        target=f"{ARCH}::_process_7z_files_sequential",
        params=[(p7_files, files_maker()), (p7_temp, p_str()), (p7_arch, p_opt(p_str()))],
        requires=bind_temp, generator=True, raises=[],
        note="member names are arbitrary strings (absolute, dot-dot, names of host files)",
    ))
    pe = real_params(ARCH, "_process_archive_entry", ("filename", "file_data", "archive_path", "basename"))
    out.append(FnContract(
        target=f"{ARCH}::_process_archive_entry", generator=True,
        params=[(pe[0], p_str()), (pe[1], p_unk()), (pe[2], p_opt(p_str())), (pe[3], p_str())],
        raises=[], total=True, ensures=[("no-file-system-call", lambda c: no_fs(c)), ("the-extractor-is-handed-the-member-bytes-as-an-in-memory-stream", lambda c: pe_stream(c))],
        note="VERIFIED (round 7; was assumed from C01): touches no file (the member bytes go to the extractor in memory) and lets nothing escape; "
             "callers see the same contract"))
    def pe_stream(c):
        """every call of the callable that _get_file_extractor_cached returned has ONE positional argument: io.BytesIO(<the file_data parameter>)
        (a member name or any other string in that position would make the extractor open a host file)"""
        if getattr(c, "at_call_site", False):
            return z3.BoolVal(True)
        bad = []
        for (what, args, loc) in c.st.ghost.get("opaque_calls", ()):
            if not what.startswith("unknown:extractor"):
                continue
            a = args[0] if len(args) == 1 else None
            src = c.st.ghost.get(("bytesio", a.t.get_id())) if isinstance(a, VExt) and a.sort == "BytesIO" else None
            if src is None or src is not c.args[pe[1]]:
                bad.append(f"{loc}: extractor called with {list(args)!r}")
        c.note = "; ".join(bad)
        return z3.BoolVal(not bad)

    (gx_name,) = real_params(ARCH, "_get_file_extractor_cached", ("filename",))
    (rx_path,) = real_params(ROUTER_REL, "get_extractor", ("path",))

    def rx_result(ex, st, ctx):
        v = VUnk(fresh_name("extractor"))
        st.ghost["router_extractor"] = st.ghost.get("router_extractor", ()) + ((ctx.args[rx_path], v),)
        return v

    out.append(FnContract(
        target=f"{ROUTER_REL}::get_extractor", assumed=True, params=[(rx_path, p_str())], result_maker=rx_result,
        raises=[Raises("ExtractionFileFormatNotSupportedError")],
        note="call-site view: some callable chosen from the name, or ExtractionFileFormatNotSupportedError (no file-system access). The function itself is "
             "VERIFIED against the routing specification (C09/router.py/conformance#names-are-routed-as-specified), which implies this view"))

    def gx_same(c):
        if getattr(c, "at_call_site", False):
            return z3.BoolVal(True)
        got = c.st.ghost.get("router_extractor", ())
        ok = len(got) == 1 and got[0][1] is c.result and isinstance(got[0][0], VStr) and z3.eq(got[0][0].t, c.args[gx_name].t)
        c.note = "" if ok else f"router.get_extractor calls on this path: {[(str(a), str(v)) for a, v in got]}, returned {c.result!r}"
        return z3.BoolVal(ok)

    if "_get_file_extractor_cached" in loader.module(ARCH).functions:
        out.append(FnContract(
            target=f"{ARCH}::_get_file_extractor_cached", params=[(gx_name, p_str())],
            result_maker=lambda ex, st, ctx: VUnk(fresh_name("extractor")),
            ensures=[("is-router-get_extractor-of-the-very-name", gx_same), ("no-file-system-call", lambda c: no_fs(c))],
            raises=[Raises("ExtractionFileFormatNotSupportedError")],
            note="VERIFIED (round 7; was not under a C09 contract): the member's extractor is router.get_extractor of the very name, no file is touched, "
                 "only the router's own exception escapes; callers see: some callable or that exception"))

    # skip rule: _should_skip_file(filename, basename)  <=>  hidden | __MACOSX/ | unsupported | nested archive
    arch = loader.module(ARCH)
    nested = sorted(arch.literal("NESTED_ARCHIVE_EXTENSIONS"))

    def skip_spec(c):
        f, b = c.args[sk_file].t, c.args[sk_base].t
        return VBool(z3.Or(z3.PrefixOf(z3.StringVal("."), b), z3.PrefixOf(z3.StringVal("__MACOSX/"), f),
                           z3.Not(SUP(b)), z3.Or([z3.SuffixOf(z3.StringVal(e), LOWER(b)) for e in nested])))

    (r_path,) = real_params(ROUTER_REL, "is_supported_file", ("path",))
    out.append(FnContract(
        target=f"{ROUTER_REL}::is_supported_file", assumed=True, params=[(r_path, p_str())],
        returns=lambda c: VBool(SUP(c.args[r_path].t)), raises=[],
        note="call-site view: a function of the name (no file-system access). The function itself is VERIFIED against the routing specification "
             "(contracts/c09_routing.py: C09/router.py/conformance#names-are-routed-as-specified), which implies this view"))
    out.append(FnContract(
        target=f"{ARCH}::_is_supported_file_cached", params=[(sup_name, p_str())],
        returns=lambda c: VBool(SUP(c.args[sup_name].t)), raises=[], total=True,
        ensures=[("no-file-system-call", no_fs)],
        note="VERIFIED (round 7; was assumed): the member support check is router.is_supported_file of the very name it is given, touches no file and raises "
             "nothing; callers see the same contract. lru_cache is transparent for a deterministic function (PY-MEMO; memo soundness is C15's)"))
    reg.ext_models["str.lower"] = lambda ex, st, args, kwargs, node: [(st, VStr(LOWER(args[0].t)))]
    out.append(FnContract(
        target=f"{ARCH}::_should_skip_file",
        params=[(sk_file, p_str()), (sk_base, p_str())],
        returns=skip_spec, ensures=[("no-file-system-call", no_fs)],
        note="hidden members, macOS resource forks, unsupported types and nested archives are skipped",
    ))
    out.extend(writer_contracts(reg))
    # round-7 contracts sit on helpers a harmless edit may rename, merge or inline: a helper that no longer exists has nothing to prove (its callers
    # are then verified with the body of whatever they call instead); the vacuity guard tolerates the missing ids only when the file changed
    R7 = {f"{ARCH}::_is_supported_file_cached", f"{ARCH}::_get_file_extractor_cached", f"{ARCH}::_process_archive_entry", f"{SEVEN}::_mkdirs",
          f"{SEVEN}::SevenZipReader._extract_files_from_folder", f"{SEVEN}::SevenZipReader.extractall", f"{SEVEN}::SevenZipReader._decompress_folder"}

    def exists(t):
        try:
            rel, q = t.split("::")
            return q in loader.module(rel).functions
        except Exception:  # noqa
            return True
    return [with_added_params(c) for c in out if c.target not in R7 or exists(c.target)]


def with_added_params(c):
    try:
        if "::" not in c.target or (c.params and c.params[0][0] == "self" and False):
            return c
        rel, q = c.target.split("::")
        f = loader.module(rel).functions.get(q)
        if f is None:
            return c
        n_real = len(f.args.posonlyargs + f.args.args) + len(f.args.kwonlyargs)
        if n_real > len(c.params):
            extra = extra_params(rel, q, len(c.params))
            if extra and len(extra) == n_real - len(c.params) and not ({n for n, _ in extra} & {n for n, _ in c.params}):
                c.params = list(c.params) + extra
    except Exception:  # noqa
        pass
    return c


# ------------------------------------------------------------------- round 7: the 7z reader's writing side under deductive contracts --
I_ = z3.IntSort()
FileInfoS = ext_sort("FileInfo")
NFILES = z3.Int("c09_n_files")
FINFO = z3.Function("c09_file_info", I_, FileInfoS)
FNAME = z3.Function("c09_file_name", FileInfoS, S)                # arbitrary strings: absolute, dot-dot, drive, empty, names of host files
ISDIR = z3.Function("c09_file_is_directory", FileInfoS, z3.BoolSort())
USIZE = z3.Function("c09_file_uncompressed", FileInfoS, I_)
HASF = z3.Function("c09_folder_has_files", I_, z3.BoolSort())
NIDX = z3.Function("c09_folder_file_count", I_, I_)
FIDX = z3.Function("c09_folder_file_index", I_, I_, I_)
FS_SITES = SYMBOLIC_FS + ("file.write",)


def _fs_site(c):
    """the escaping exception was raised by a file-system primitive (EXC-ANY at that call: e.g. ValueError for a NUL in a member name)"""
    site = str(getattr(c.exc, "attrs", {}).get("site", "")) if c.exc is not None else ""
    return z3.BoolVal(any(site.endswith(" " + k) for k in FS_SITES))


def writer_contracts(reg):
    """_mkdirs / SevenZipReader._extract_files_from_folder / SevenZipReader.extractall (zero-length loop and directory creation): every path
    that reaches os.makedirs / open is INSIDE the directory the caller named, for ALL member tables (names, kinds and sizes are uninterpreted),
    any number of members, any folder output.  Rounds 3-6 had these three functions under the data-flow policy P6 only."""
    from pyvc.verify import Maker, p_int, p_obj
    out = []
    try:
        reg.attr_models[("FileInfo", "is_directory")] = lambda ex, st, o: VBool(ISDIR(o.t))
        reg.attr_models[("FileInfo", "uncompressed")] = lambda ex, st, o: __import__("pyvc.values", fromlist=["VInt"]).VInt(USIZE(o.t))
        reg.attr_models[("FileInfo", "filename")] = lambda ex, st, o: VStr(FNAME(o.t))

        def m_write(ex, st, obj, args, kwargs, node):
            from pyvc.values import VInt
            ex.exc_any(st.fork(), f"{ex.loc(node)} file.write")
            return [(st, VInt(z3.Int(fresh_name("written"))))]
        reg.method_models[("File", "write")] = m_write
        from pyvc.values import VInt
        p_files = Maker(lambda ex, st, name: [(NFILES >= 0, VSeq(NFILES, lambda i: VExt("FileInfo", FINFO(i)), "FileInfo"))], desc="list[FileInfo], any length, uninterpreted names / kinds / sizes")
        from pyvc.verify import p_ext
        p_fmap = p_ext("FolderMap")        # dict: folder index -> list of file indices (membership / lookup: FsExecutor.contains / get_index)
        p_blob = Maker(lambda ex, st, name: [(z3.Int(f"{name}_len") >= 0, VSeq(z3.Int(f"{name}_len"), lambda i: VInt(z3.Function(f"{name}_byte", I_, I_)(i)), "byte", is_bytes=True))],
                       desc="bytes of any length")
        mk_extra = extra_params(SEVEN, "_mkdirs", 1)
        if mk_extra:                                           # e.g. _mkdirs(path, what="directory"): the first parameter keeps the role
            mk_path = loader.module(SEVEN).functions["_mkdirs"].args.args[0].arg
        else:
            (mk_path,), mk_extra = real_params(SEVEN, "_mkdirs", ("path",)), []
        ef_self, ef_base, ef_k, ef_dec = real_params(SEVEN, "SevenZipReader._extract_files_from_folder", ("self", "base_path", "folder_idx", "decompressed"))

        def mk_requires(c):
            temp = c.st.ghost.get("temp_dir")
            if temp is None:                                   # the function's own verification: ANY private directory
                temp = z3.String("c09_private_dir")
                c.st.ghost["temp_dir"] = temp
            return mkdir_ok(temp, c.args[mk_path].t)

        out.append(FnContract(
            target=f"{SEVEN}::_mkdirs", params=[(mk_path, p_str())] + list(mk_extra), requires=mk_requires,
            raises=[Raises("Bad7zFile"), Raises("Exception", sub=True, when=_fs_site, label="raised by the file-system primitive itself")],
            note="requires: the path is inside the private directory (or is its parent: nothing to create); the only file-system call is os.makedirs on that very path. "
                 "VERIFIED; callers see the same contract (call-pre obligation at each call site)"))

        def ef_requires(c):
            k = ops.int_term(c.args[ef_k])
            j = z3.Int("j!c09req")
            temp = c.st.ghost.get("temp_dir")
            if temp is None:                                   # the function's own verification: base_path IS the private directory
                c.st.ghost["temp_dir"] = c.args[ef_base].t
                here = z3.BoolVal(True)
            else:                                              # a call site: the directory handed over is the caller's private directory
                here = c.args[ef_base].t == temp
            return z3.And(here, HASF(k),
                          z3.ForAll([j], z3.Implies(z3.And(j >= 0, j < NIDX(k)), z3.And(FIDX(k, j) >= 0, FIDX(k, j) < NFILES)), patterns=[FIDX(k, j)]))

        out.append(FnContract(
            target=f"{SEVEN}::SevenZipReader._extract_files_from_folder",
            params=[(ef_self, p_obj("SevenZipReader", {"_folder_to_files": p_fmap, "_files": p_files})), (ef_base, p_str()), (ef_k, p_int()), (ef_dec, p_blob)],
            requires=ef_requires,
            raises=[Raises("Bad7zFile"), Raises("Exception", sub=True, when=_fs_site, label="raised by the file-system primitive itself")],
            note="for every member table and every folder output: each os.makedirs / open path is inside base_path (fs-confined VCs at the real call sites, "
                 "_safe_join and _mkdirs through their VERIFIED contracts); the loop needs no invariant beyond base_path being loop-invariant"))
        # ---- extractall(self, path, source_file=None): the directory itself, every folder's members (through the contract above), every zero-length file
        ea = real_params(SEVEN, "SevenZipReader.extractall", ("self", "path", "source_file"))
        ea_self, ea_path, ea_src = ea
        NZ, NFO, NPK, NPP = z3.Int("c09_n_zero_length"), z3.Int("c09_n_folders"), z3.Int("c09_n_pack_sizes"), z3.Int("c09_n_pack_positions")
        ZIDX, PSZ, PPOS = z3.Function("c09_zero_length_index", I_, I_), z3.Function("c09_pack_size", I_, I_), z3.Function("c09_pack_position", I_, I_)
        zl_attr = next((n.attr for q, f in sorted(loader.module(SEVEN).functions.items()) if q.startswith("SevenZipReader.") and not q.endswith("__init__")
                        for n in __import__("ast").walk(f) if isinstance(n, __import__("ast").Attribute) and "empty" in n.attr and isinstance(n.ctx, __import__("ast").Load)
                        and isinstance(n.value, __import__("ast").Name) and n.value.id == "self" and not any(q2 == f"SevenZipReader.{n.attr}" for q2 in loader.module(SEVEN).functions)),
                       "_empty_file_indices")
        fields = {"_folder_to_files": p_fmap, "_files": p_files,
                  "_folders": Maker(lambda ex, st, name: [(NFO >= 0, VSeq(NFO, lambda i: VExt("Folder", z3.Function("c09_folder", I_, ext_sort("Folder"))(i)), "Folder"))], desc="list[Folder]"),
                  "_pack_sizes": Maker(lambda ex, st, name: [(NPK >= 0, VSeq(NPK, lambda i: VInt(PSZ(i)), "int"))], desc="list[int]"),
                  "_pack_positions": Maker(lambda ex, st, name: [(NPP >= 0, VSeq(NPP, lambda i: VInt(PPOS(i)), "int"))], desc="list[int]"),
                  "_header_offset": p_int(),
                  zl_attr: Maker(lambda ex, st, name: [(NZ >= 0, VSeq(NZ, lambda j: VInt(ZIDX(j)), "int"))], desc="indices of the zero-length files")}

        def ea_requires(c):
            c.st.ghost["temp_dir"] = c.args[ea_path].t
            j, t = z3.Int("j!c09ea"), z3.Int("t!c09ea")
            return z3.And(z3.ForAll([t, j], z3.Implies(z3.And(HASF(t), j >= 0, j < NIDX(t)), z3.And(FIDX(t, j) >= 0, FIDX(t, j) < NFILES)), patterns=[FIDX(t, j)]),
                          z3.ForAll([j], z3.Implies(z3.And(j >= 0, j < NZ), z3.And(ZIDX(j) >= 0, ZIDX(j) < NFILES)), patterns=[ZIDX(j)]))

        out.append(FnContract(
            target=f"{SEVEN}::SevenZipReader._decompress_folder", assumed=True,
            params=[(n, p_unk()) for n in real_params(SEVEN, "SevenZipReader._decompress_folder", ("self", "folder", "pack_pos", "pack_sizes", "source_file"))],
            result_maker=lambda ex, st, ctx: VSeq(z3.Int(fresh_name("folder_out_len")), lambda i: VInt(z3.Int(fresh_name("b"))), "byte", is_bytes=True),
            raises=[Raises("Bad7zFile")], exc_any_ok=True,
            note="works on the in-memory archive object only (policy P1 lists every file-system call site of the module: none is in it); what it returns is C10's"))
        out.append(FnContract(
            target=f"{SEVEN}::SevenZipReader.extractall",
            params=[(ea_self, p_obj("SevenZipReader", fields)), (ea_path, p_str()), (ea_src, p_opt(p_unk()))],
            requires=ea_requires,
            raises=[Raises("Bad7zFile"), Raises("ValueError"), Raises("Exception", sub=True, when=_fs_site, label="raised by the file-system primitive itself")],
            note="os.makedirs(path) is the named directory itself; folders go through the VERIFIED contract of _extract_files_from_folder (call-pre: the key is "
                 "present, indices in range); every zero-length file is created at _safe_join(path, name), its parent through _mkdirs"))
    except Exception:  # noqa  a contract that cannot be built is reported by the vacuity guard (missing obligation), never an exception
        pass
    return out


# ----------------------------------------------------------------- policy --
# Round 3: every obligation below follows the data flow of the real AST (contracts/C09_flow.py) instead of matching function names,
# local names or statement shapes.  None of them is a refutation when it fails -- the analyses under-approximate -- so a failure is
# `unknown` (definite=False) and the native replayer (hostile archives under a file-system observer) decides.
def _obl(oid, ok, detail, loc, first=()):
    o = ground_obligation(oid, ok, detail, loc, definite=False)
    o["replay_hint"] = {"first": list(first)}
    return o


def policy(repo, tier):
    from contracts import C09_flow, archive_guards
    obls, fns = [], []
    mods = {ARCH: loader.module(ARCH, repo), SEVEN: loader.module(SEVEN, repo)}
    arch, sv = mods[ARCH], mods[SEVEN]
    try:
        text = []
        for other in loader.all_package_files(repo):
            try:
                text.append(open(os.path.join(repo or loader.REPO, other), encoding="utf-8").read())
            except OSError:
                pass
        conf = C09_flow.Confined(mods, package_text="\n".join(text))
        sites = conf.fs_sites()
        blocks = conf.tempdir_blocks(ARCH)
        conf_err = ""
    except Exception as e:  # noqa  a shape the analysis does not foresee is "not recognised", never an engine error
        conf, sites, blocks, conf_err = None, [], [], f"confinement analysis does not cover this shape ({type(e).__name__}: {e})"
    try:
        gf = C09_flow.guard_flow(repo, ARCH)
        gf_err = ""
    except Exception as e:  # noqa
        gf, gf_err = None, f"guard analysis does not cover this shape ({type(e).__name__}: {e})"

    # P1: every file-system primitive used by the two modules is of a kind whose effect is determined by its path argument(s)
    odd = [d for (_r, _q, _c, _n, v, d) in sites if v == "unrecognised"]
    obls.append(_obl("C09/package/policy#file-system-primitives-are-recognised", not conf_err and not odd and len(sites) >= 4,
                     conf_err or "; ".join(odd) or f"{len(sites)} file-system call sites, all path-determined primitives", "archive_extractor.py, sevenzip.py",
                     first=("7z unix symlink", "tar links")))
    sym_fns = {}
    try:
        sym_fns[(ARCH, "_process_7z_files_sequential")] = real_params(ARCH, "_process_7z_files_sequential", ("files_to_process", "temp_dir", "archive_path"))[1]
    except Exception:  # noqa
        pass
    # P6: every path that reaches such a primitive is the private base, a _safe_join(base, ...) result, its dirname, or a parameter
    #     bound to such a value at every call site (fixpoint over the helper functions of both modules)
    for rel, short, want in ((SEVEN, "sevenzip.py", ("open", "os.makedirs")), (ARCH, "archive_extractor.py", ("tempfile.TemporaryDirectory",))):
        mine = [s_ for s_ in sites if s_[0] == rel]
        # a site the path analysis cannot follow (a containment test written in line, say) is not lost when the function is executed
        # symbolically with the private directory bound to a parameter: the call has its own `fs-confined` VC there, and what is left for
        # the policy is that every call site passes a confined value for that parameter
        deferred = [s_ for s_ in mine if s_[4] == "unconfined" and s_[3] in SYMBOLIC_FS and (rel, s_[1]) in sym_fns
                    and conf is not None and conf.param_conf.get(((rel, s_[1]), sym_fns[(rel, s_[1])]))]
        bad = [d for s_ in mine for (_r, _q, _c, _n, v, d) in [s_] if v == "unconfined" and not any(s_ is x for x in deferred)]
        seen = {n for (_r, _q, _c, n, _v, _d) in mine}
        missing = [w for w in want if w not in seen and not (w == "tempfile.TemporaryDirectory" and "tempfile.mkdtemp" in seen)]
        detail = conf_err or "; ".join(bad) or ("; ".join(f"no {w} call found (vacuity)" for w in missing)) or (
            f"{len(mine)} call sites, every path confined" + (f" ({len(deferred)} of them by the fs-confined VCs of the symbolically executed function)" if deferred else ""))
        obls.append(_obl(f"C09/{short}/policy#paths-reaching-the-file-system-are-confined", not conf_err and not bad and not missing, detail, rel,
                         first=("7z member with a stream", "7z zero-length", "7z listed member", "7z directory")))
        for q in sorted({q for (_r, q, _c, _n, _v, _d) in mine if q in mods[rel].functions}):
            fns.append(dict(mods[rel].fn_info(q), obligations=1))
    # P7: what the 7z reader writes for a member is the slice of the decompressed folder that the header declares for it -- the size the
    #     extractor's per-member limit is checked against is the size that reaches the disk (and then the result)
    oid = "C09/sevenzip.py/policy#bytes-written-for-a-member-are-its-declared-slice"
    try:
        judged = C09_flow.guard_flow(repo, SEVEN).judged_writes()
        bad = [d for ok, d in judged if not ok]
        obls.append(_obl(oid, bool(judged) and not bad, "; ".join(bad) or (f"{len(judged)} write site(s), each writes [lo : lo + member.uncompressed] or nothing" if judged
                                                                          else "no write to a file found in the 7z reader (vacuity)"), SEVEN, first=("declared-sizes",)))
    except Exception as e:  # noqa
        obls.append(_obl(oid, False, f"write analysis does not cover this shape ({type(e).__name__}: {e})", SEVEN, first=("declared-sizes",)))
    # P5: the private temp dir is owned by a `with tempfile.TemporaryDirectory()` block that encloses every use of its name
    life = [d for (_r, _q, _c, _n, v, d) in sites if v == "tempdir-lifetime"]
    why = list(life)
    for (q, w, name, n_in, n_all, n_st) in blocks:
        if name is None:
            why.append(f"{q} line {w.lineno}: the directory is not bound to a name")
        elif n_in != n_all or n_st != 1:
            why.append(f"{q} line {w.lineno}: {name} is used outside the with block ({n_in}/{n_all} uses inside, {n_st - 1} other bindings)")
        elif n_in < 1:
            why.append(f"{q} line {w.lineno}: {name} is never used")
    if not blocks and not life:
        why.append("no temporary directory is created (vacuity)")
    obls.append(_obl("C09/archive_extractor.py::_extract_from_7z_optimized/typestate#temp-dir-is-a-with-block-enclosing-all-uses",
                     not conf_err and not why, conf_err or "; ".join(why) or f"{len(blocks)} with-block(s), every use of the directory name inside", ARCH,
                     first=("histories",)))
    # P2: ZIP and TAR processing has no file-system effect (in-memory reads only), helpers included
    entries = {"zip": "_extract_from_zip_optimized", "tar": "_extract_from_tar_optimized", "7z": "_extract_from_7z_optimized"}
    for kind in ("zip", "tar"):
        q = entries[kind]
        oid = f"C09/archive_extractor.py::{q}/policy#no-file-system-effect"
        if q not in arch.functions or gf is None or conf is None:
            obls.append(_obl(oid, False, gf_err or conf_err or "function missing", ARCH))
            continue
        reach = gf.reachable(q)
        eff = [d for (r, fq, _c, _n, _v, d) in sites if r == ARCH and fq in reach]
        obls.append(_obl(oid, not eff, "; ".join(eff) or f"{len(reach)} function(s) reachable in the module, none touches the file system", ARCH,
                         first=("zip", "tar")))
        fns.append(dict(arch.fn_info(q), obligations=1))
    # oversize members never produce results: the size guard dominates every member read (shared with C12)
    for o, info in archive_guards.zip_and_tar("C09", repo, label="oversize-members-are-never-read"):
        obls.append(o)

    def typestate(oid, root, kind, what, first=()):
        if gf is None or root not in arch.functions:
            obls.append(_obl(oid, False, gf_err or "function missing", ARCH, first))
            return
        sinks = gf.sinks(root, kind)
        bad = [f"{d} in {q}: {what}" for (q, _n, _f, ok, d) in sinks if not ok]
        obls.append(_obl(oid, bool(sinks) and not bad, "; ".join(bad) or (f"{len(sinks)} site(s), each dominated by the guard on the same values" if sinks
                                                                           else "no such site found from this function (vacuity)"), ARCH, first))
    # P3: tar: only regular members are read (isreg() of the same member value dominates extractfile)
    typestate("C09/archive_extractor.py::_extract_from_tar_optimized/typestate#only-regular-members-are-read", entries["tar"], "tar-regular",
              "the member read here was not established to be a regular file on this path", first=("tar links",))
    # P4: skip rules dominate every member dispatch (the file name / base name dispatched are the values the skip rule rejected to skip)
    for kind in ("zip", "tar", "7z"):
        typestate(f"C09/archive_extractor.py::{entries[kind]}/typestate#skip-rule-dominates-member-dispatch", entries[kind], "dispatch",
                  "the member dispatched here was not established to pass the skip rule on this path", first=("skip-rules",))
        if entries[kind] in arch.functions and kind == "7z":
            fns.append(dict(arch.fn_info(entries[kind]), obligations=1))
    # the names the skip rule judged and the extractor receives are the member's own stored name and its basename (nothing rewritten between)
    for kind in ("zip", "tar", "7z"):
        typestate(f"C09/archive_extractor.py::{entries[kind]}/typestate#skip-rule-sees-the-stored-member-name", entries[kind], "dispatch-name",
                  "the file name / base name dispatched here are not established to be the member's stored name and its os.path.basename", first=("skip-rules",))
    typestate("C09/archive_extractor.py::_extract_from_7z_optimized/typestate#oversize-members-are-never-dispatched", entries["7z"], "dispatch-size",
              "no size of the member dispatched here was checked against the limit on this path", first=("oversize",))
    return {"obligations": obls, "functions": fns}


COLLISION_OID = "C09/replay::native-scope/bounded#7z-read-back-path-identifies-one-member.BOUNDED"
COLLISION_FINDING = "C09-7z-read-back-by-path-collisions"


def _native(req, repo, timeout=300):
    import json
    import subprocess
    root = os.path.dirname(os.path.dirname(os.path.abspath(__file__)))
    try:
        p = subprocess.run(["/venv/bin/python", os.path.join(root, "replay", "run.py")], input=json.dumps(req), capture_output=True, text=True, timeout=timeout,
                           cwd=root, env=dict(os.environ, VERIF_REPO=repo or loader.REPO))
        lines = [l for l in p.stdout.splitlines() if l.startswith("{")]
        return json.loads(lines[-1]) if lines else {"error": (p.stderr or p.stdout)[-500:]}
    except Exception as e:  # noqa
        return {"error": str(e)}


PINNED_OID = "C09/replay::native-scope/bounded#7z-read-back-path-identifies-one-member-when-the-temp-dir-name-is-known.BOUNDED"
PINNED_FINDING = "C09-7z-read-back-collision-through-temp-dir-name"
NATIVE_SCOPES = ((COLLISION_OID, COLLISION_FINDING, "4 collision layouts x (solid, one folder per file), per-member limit 1000 bytes"),
                 (PINNED_OID, PINNED_FINDING, "3 layouts re-entering the private directory through its (pinned) name x (solid, one folder per file), per-member limit 1000 bytes"))


def _native_scope(oid, bound, repo):
    import json
    res = _native({"property": "C09", "obligation": oid, "repo": repo}, repo)
    if "error" in res or "crashed" in str(res.get("note", "")):
        return {"obligations": [], "undecided": [{"obligation": oid, "why": "native scope could not run: " + str(res.get("error", res.get("note")))[:300]}]}
    ok = not res.get("reproduced")
    o = ground_obligation(oid, ok, "" if ok else f"{json.dumps((res.get('inputs') or {}).get('archive'))}: {str(res.get('observed'))[:300]}",
                          "replay/C09_probe.py", kind="bounded", backend="native-replay")
    o["bounded"] = True
    o["bound"] = bound
    return {"obligations": [o]}


def native_collisions(repo, tier):
    """BOUNDED stand-in (DESIGN 2.8): 7z members are read back from the temp dir by path, and no contract says that a path belongs to one
    entry only.  The native scope (entries sharing a name, `x` vs `./x`, `x` vs `__MACOSX/../x`, `d/x` vs `d//x`; solid and one folder per
    file) runs on the real code: a selected member that comes out with another entry's bytes is a failing input; nothing found is
    `bounded-ok`, never counted as proved."""
    try:
        return _native_scope(COLLISION_OID, NATIVE_SCOPES[0][2], repo)
    except Exception as e:  # noqa
        return {"obligations": [], "undecided": [{"obligation": COLLISION_OID, "why": f"native scope could not run: {type(e).__name__}: {e}"}]}


def native_collisions_known_temp_name(repo, tier):
    """BOUNDED, its own obligation: the second spelling of a member's path leaves the private directory and re-enters it through the
    directory's own name (`../<temp dir name>/x` is lexically inside, so `_safe_join` accepts it, and it is the file of `x`).  The name is
    random in production; the scope pins tempfile's name sequence (an author who knows or guesses the name)."""
    try:
        return _native_scope(PINNED_OID, NATIVE_SCOPES[1][2], repo)
    except Exception as e:  # noqa
        return {"obligations": [], "undecided": [{"obligation": PINNED_OID, "why": f"native scope could not run: {type(e).__name__}: {e}"}]}


def known_findings(kf, violations, repo, tier):
    """A recorded defect covers exactly its own bounded obligation, and only while that obligation still fails on the tree under check."""
    out = []
    vio_ids = {v["id"] for v in violations}
    by_finding = {fid: oid for oid, fid, _b in NATIVE_SCOPES}
    by_finding[c09_routing.ALIAS_FINDING] = c09_routing.LEMMA_OID
    for f in kf:
        oid = by_finding.get(f.get("id"))
        if oid is None:
            continue
        still = oid in vio_ids
        out.append({"finding": f["id"], "still_fails": still, "line": f"{f['id']}: {f['what']}", "covers": [oid] if still else [],
                    "witness_replay": next((v.get("reason") for v in violations if v["id"] == oid), "")})
    return out


MODEL_OID = "C09/replay::model-validation/bounded#round-7-os-models-agree-with-the-platform.BOUNDED"
MODEL_BOUND = "dirname fact and abspath-of-join fact: 5 base directories x 40 member-name shapes (the z3 formula itself, evaluated on the platform's os.path); os.makedirs: parent / nested / existing cases in a scratch directory"


def model_validation(repo, tier):
    """The two models this round ADDS (os.path.dirname of a path below the base; what os.makedirs(exist_ok=True) creates) are assumptions about the
    standard library, not about the code under check.  They are validated on the platform: the very z3 formula `dirname_fact` is checked with ABS /
    DIRNAME / NORM pinned to what os.path computes, and os.makedirs is run in a scratch directory.  BOUNDED: never counted as proved; a disagreement
    is a defect of the MODEL (exit 2 territory), reported as `unknown`."""
    import shutil
    import tempfile
    bad, n = [], 0
    try:
        names = ["a", "a/b", "a/b/c.txt", "./a", "a/./b", "a//b", "a/../b", "a/b/..", ".", "", "a/", "..a", "a..", "...", "a/...", "\u00e9/x", "a b/c d", "a\\b", "x" * 40 + "/y",
                 "a/b/c/d/e/f", "-", "~", "~/x", "a/~", "$HOME/x", "a\nb/c", "a/.hidden", ".hidden/a", "a/b/../../c", "a/b/../c/./d", "C:x", "C:/x", "a:b/c", "x/", "x//", "x/./", "./", ".//", "a/./", "a/b/."]
        isnorm = lambda q: os.path.isabs(q) and os.path.normpath(q) == q and not q.startswith("//")
        for base in ("/tmp/private_x", "/", "/a", "/tmp/with space/d", "/tmp/priv\u00e9"):
            for nm in names:
                pth = os.path.abspath(os.path.join(os.path.abspath(base), nm))
                d = os.path.dirname(pth)
                sv = z3.StringVal
                sol = z3.Solver()
                sol.set("timeout", 2000)
                sol.add(ABS(sv(base)) == sv(os.path.abspath(base)), DIRNAME(sv(pth)) == sv(d))
                for q in {pth, d, os.path.abspath(base)}:
                    sol.add(NORM(sv(q)) == z3.BoolVal(isnorm(q)))
                sol.add(z3.Not(dirname_fact(sv(base), sv(pth))))
                n += 1
                if sol.check() != z3.unsat:
                    bad.append(f"dirname fact fails for base={base!r} path={pth!r} dirname={d!r}")
                # join fact (the abspath-of-join model): same pinning, the formula itself
                b_abs = os.path.abspath(base)
                tgt = os.path.abspath(os.path.join(b_abs, nm))
                dr, tl = os.path.splitdrive(nm)
                sol = z3.Solver()
                sol.set("timeout", 2000)
                sol.add(ABS(JOIN(sv(b_abs), sv(nm))) == sv(tgt), NORMPATH(sv(nm)) == sv(os.path.normpath(nm)), ISABS(sv(nm)) == z3.BoolVal(os.path.isabs(nm)),
                        NORM(sv(b_abs)) == z3.BoolVal(isnorm(b_abs)))
                sol.add(z3.Not(join_fact(sv(b_abs), sv(nm))))
                n += 1
                if sol.check() != z3.unsat:
                    bad.append(f"join fact fails for base={b_abs!r} name={nm!r} abspath(join)={tgt!r}")
                if dr + tl != nm:
                    bad.append(f"splitdrive fact fails for {nm!r}")
        root = tempfile.mkdtemp(prefix="c09_model_")
        try:
            priv = os.path.join(root, "private")
            os.mkdir(priv)
            listing = lambda: sorted(os.path.relpath(os.path.join(dp, x), root) for dp, dn, fn in os.walk(root) for x in dn + fn)
            before = listing()
            os.makedirs(os.path.dirname(priv), exist_ok=True)            # the parent of the private directory: nothing is created
            os.makedirs(os.path.dirname(os.path.abspath(priv)), exist_ok=True)
            n += 2
            if listing() != before:
                bad.append(f"os.makedirs(parent, exist_ok=True) changed the directory tree: {before} -> {listing()}")
            os.makedirs(os.path.join(priv, "a", "b"), exist_ok=True)   # inside: everything created is inside
            os.makedirs(priv, exist_ok=True)
            n += 2
            if listing() != ["private", "private/a", "private/a/b"]:
                bad.append(f"os.makedirs(private/a/b) created {listing()}")
        finally:
            shutil.rmtree(root, ignore_errors=True)
    except Exception as e:  # noqa
        return {"obligations": [], "undecided": [{"obligation": MODEL_OID, "why": f"model validation could not run: {type(e).__name__}: {e}"}]}
    o = ground_obligation(MODEL_OID, not bad, "; ".join(bad[:5]) or f"{n} instances agree", "contracts/C09.py", kind="bounded", backend="native-replay", definite=False)
    o["bounded"] = True
    o["bound"] = MODEL_BOUND
    return {"obligations": [o]}


from contracts import c09_routing  # noqa: E402

from contracts import c09_counts  # noqa: E402

EXTRA = [policy, native_collisions, native_collisions_known_temp_name, c09_routing.routing_conformance, c09_routing.routing_lemma, model_validation,
         c09_counts.count_obligations]
TRUSTED = ["a normalised absolute path equal to abspath(base) or prefixed by abspath(base)+sep lies inside base (no symlinks are created by the reader)",
           "os.path.abspath returns a normalised absolute path",
           "a normalised absolute path that ends in a separator is the file-system root: every normalised absolute path with that prefix lies inside it",
           "the private directory exists while the reader writes into it: os.makedirs(p, exist_ok=True) creates only missing directories on the way to p, so for p "
           "inside the private directory everything it creates is inside, and for p = the parent of the private directory it creates nothing (round 7; validated natively: "
           "C09/replay::model-validation obligation)"]
ASSUMED_MODELS = ["os.path.abspath/join/splitdrive/isabs/normpath (uninterpreted; splitdrive: drive + tail == path; abspath(join(b, t)) is b or lies below b when b is normalised absolute and t is relative with a non-climbing normpath: validated natively)", "os.path.commonprefix([a, b]) (character prefix; == a iff a is a prefix of b)",
                  "os.path.commonpath([a, b]) on normalised absolute paths (== a iff b is a or lies below a)",
                  "os.path.relpath(t, b) on normalised absolute paths (climbs with `..` iff t is neither b nor below b)", "os.sep / os.pardir / os.curdir (POSIX values)",
                  "os.path.dirname(p) of a normalised absolute path strictly below abspath(base) (is abspath(base) or lies below it; nothing assumed for abspath(base) itself)",
                  "open/os.makedirs/os.path.exists (effects with confinement obligation)", "io.BytesIO(data) (an in-memory stream over data; no file)",
                  "sum(list of ints) (an int; raises nothing)", "file.write (may raise; no other effect than on the already confined open file)"]
# round 7: archive_extractor._process_archive_entry and archive_extractor._is_supported_file_cached are no longer assumed (verified contracts above);
# what is still assumed of the library itself is listed by the engine from the `assumed=True` registrations: router.is_supported_file (call-site
# view of a function verified by the conformance obligation), _get_file_extractor_cached (some callable or an exception), SevenZipReader._decompress_folder
# (returns bytes or raises Bad7zFile; its content is C10's)
ASSUMPTIONS = ["PY-STR", "EXC-ANY", "os.path.splitext by axioms A1-A3 and an arbitrary MIME database (routing lemma, as in pack C07)", "what third-party extractors do with member *bytes* is outside this property's contracts",
               "OS-level races (symlink swaps in the temp dir by another process) are not modelled",
               "PY-MEMO: functools.lru_cache in front of a deterministic function is transparent (memo soundness is C15's)"]

REPLAY_UNKNOWN = True    # undecided / out-of-subset items are searched natively (replay) before being reported UNDECIDED
