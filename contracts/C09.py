"""C09 -- archive processing is confined: no host file is read or written.

INSIDE(base, r) is the statement's containment notion made precise:
r is `base` itself, or a *normalised absolute* path equal to abspath(base) or
having abspath(base)+sep as a prefix.  `_safe_join` is proved to return only
such paths (or raise Bad7zFile); every file-system call of the 7z reader and of
the archive extractor gets the obligation that its path argument is INSIDE the
private temporary directory; ZIP/TAR paths have no file-system call at all
(policy, from the AST); skip rules dominate every member dispatch.
"""
import ast

import z3

from pyvc import loader, ops
from pyvc.contracts import FnContract, Raises
from pyvc.flow import MustFacts, dotted, ground_obligation
from pyvc.symex import Executor
from pyvc.values import NONE, VBool, VExt, VFunc, VSeq, VStr, VTuple, VUnk, ext_sort, fresh_name
from pyvc.verify import p_opt, p_str, p_unk

ARCH = "sharepoint2text/parsing/extractors/archive_extractor.py"
SEVEN = "sharepoint2text/parsing/extractors/util/sevenzip.py"
S = z3.StringSort()
ABS = z3.Function("os_path_abspath", S, S)
JOIN = z3.Function("os_path_join", S, S, S)
DRIVE = z3.Function("os_path_splitdrive_drive", S, S)
TAIL = z3.Function("os_path_splitdrive_tail", S, S)
ISABS = z3.Function("os_path_isabs", S, z3.BoolSort())
NORM = z3.Function("is_normalised_absolute", S, z3.BoolSort())
SEP = z3.StringVal("/")


def inside(base, r):
    b = ABS(base)
    return z3.Or(r == base, z3.And(NORM(r), z3.Or(r == b, z3.PrefixOf(z3.Concat(b, SEP), r))))


# ------------------------------------------------------ assumed os.path models --
def m_abspath(ex, st, args, kwargs, node):
    p = args[0].t
    st.assume(NORM(ABS(p)))
    return [(st, VStr(ABS(p)))]


def m_join(ex, st, args, kwargs, node):
    return [(st, VStr(JOIN(args[0].t, args[1].t)))]


def m_splitdrive(ex, st, args, kwargs, node):
    p = args[0].t
    return [(st, VTuple([VStr(DRIVE(p)), VStr(TAIL(p))]))]


def m_isabs(ex, st, args, kwargs, node):
    return [(st, VBool(ISABS(args[0].t)))]


def fs_call(kind):
    """A file-system effect: emits the confinement obligation on its path argument."""
    def m(ex, st, args, kwargs, node):
        p = args[0] if args else None
        temp = st.ghost.get("temp_dir")
        label = f"{kind}@{ex.call_ordinal(node, kind.split('.')[-1])}"
        if temp is None or not isinstance(p, VStr):
            ex.add_vc("fs-confined", label, st.pc, z3.BoolVal(False), note=f"{ex.loc(node)} {kind}: no private temp dir in scope / path not a string", loc=ex.loc(node))
        else:
            ex.add_vc("fs-confined", label, st.pc, inside(temp, p.t), note=f"{ex.loc(node)} {kind}", loc=ex.loc(node))
        ex.exc_any(st.fork(), f"{ex.loc(node)} {kind}")
        if kind == "os.path.exists":
            return [(st, VBool(z3.Bool(fresh_name("exists"))))]
        if kind == "open":
            return [(st, VExt("File"))]
        return [(st, NONE)]
    return m


def with_file(ex, st, cm, phase):
    if phase == "enter":
        return [(st, cm)]


class FsExecutor(Executor):
    def b_open(self, st, args, kwargs, node):
        return fs_call("open")(self, st, args, kwargs, node)


def install(reg):
    reg.ext_models["os.path.abspath"] = m_abspath
    reg.ext_models["os.path.join"] = m_join
    reg.ext_models["os.path.splitdrive"] = m_splitdrive
    reg.ext_models["os.path.isabs"] = m_isabs
    reg.ext_models[("const", "os.sep")] = VStr("/")
    reg.ext_models["os.path.exists"] = fs_call("os.path.exists")
    reg.ext_models["os.makedirs"] = fs_call("os.makedirs")
    reg.ext_models["os.remove"] = fs_call("os.remove")
    reg.ext_models["os.mkdir"] = fs_call("os.mkdir")
    reg.ext_models[("with", "File")] = with_file


EXECUTOR = FsExecutor
SUP = z3.Function("is_supported_file_cached", S, z3.BoolSort())
LOWER = z3.Function("str_lower", S, S)


def contracts(reg):
    install(reg)
    out = []

    def sj_raise(c):
        rel, base = c.args["relative_path"].t, c.args["base_dir"].t
        return z3.Length(rel) > 0

    out.append(FnContract(
        target=f"{SEVEN}::_safe_join",
        params=[("base_dir", p_str()), ("relative_path", p_str())],
        ensures=[("result-inside-base", lambda c: inside(c.args["base_dir"].t, c.result.t))],
        raises=[Raises("Bad7zFile", when=sj_raise)],
        result_maker=lambda ex, st, ctx: VStr(z3.String(fresh_name("safe_path"))),
        note="returns only paths inside base_dir; absolute / drive / dot-dot escapes raise Bad7zFile",
    ))

    # _process_7z_files_sequential(files_to_process, temp_dir, archive_path): every FS call stays in temp_dir
    def files_maker():
        from pyvc.verify import Maker
        def mk(ex, st, name):
            n = z3.Int(f"{name}_len")
            fn = z3.Function(f"{name}_filename", z3.IntSort(), S)
            bn = z3.Function(f"{name}_basename", z3.IntSort(), S)
            return [(n >= 0, VSeq(n, lambda i: VTuple([VUnk("file_info"), VStr(fn(i)), VStr(bn(i))]), "tuple"))]
        return Maker(mk, desc="list of (FileInfo, filename, basename) with arbitrary member names")

    def bind_temp(c):
        c.st.ghost["temp_dir"] = c.args["temp_dir"].t
        return z3.BoolVal(True)

    out.append(FnContract(
        target=f"{ARCH}::_process_7z_files_sequential",
        params=[("files_to_process", files_maker()), ("temp_dir", p_str()), ("archive_path", p_opt(p_str()))],
        requires=bind_temp, generator=True, raises=[],
        note="member names are arbitrary strings (absolute, dot-dot, names of host files)",
    ))
    out.append(FnContract(
        target=f"{ARCH}::_process_archive_entry", assumed=True, generator=True,
        params=[("filename", p_unk()), ("file_data", p_unk()), ("archive_path", p_unk()), ("basename", p_unk())],
        raises=[], note="verified by the C01 pack (raises nothing); works on in-memory bytes only"))

    # skip rule: _should_skip_file(filename, basename)  <=>  hidden | __MACOSX/ | unsupported | nested archive
    arch = loader.module(ARCH)
    nested = sorted(arch.literal("NESTED_ARCHIVE_EXTENSIONS"))

    def skip_spec(c):
        f, b = c.args["filename"].t, c.args["basename"].t
        return VBool(z3.Or(z3.PrefixOf(z3.StringVal("."), b), z3.PrefixOf(z3.StringVal("__MACOSX/"), f),
                           z3.Not(SUP(b)), z3.Or([z3.SuffixOf(z3.StringVal(e), LOWER(b)) for e in nested])))

    out.append(FnContract(
        target=f"{ARCH}::_is_supported_file_cached", assumed=True, params=[("filename", p_str())],
        returns=lambda c: VBool(SUP(c.args["filename"].t)),
        note="lru_cache wrapper of router.is_supported_file (verified by C07); memo soundness is C15's"))
    reg.ext_models["str.lower"] = lambda ex, st, args, kwargs, node: [(st, VStr(LOWER(args[0].t)))]
    out.append(FnContract(
        target=f"{ARCH}::_should_skip_file",
        params=[("filename", p_str()), ("basename", p_str())],
        returns=skip_spec,
        note="hidden members, macOS resource forks, unsupported types and nested archives are skipped",
    ))
    return out


# ----------------------------------------------------------------- policy --
FS_NAMES = ("open", "os.makedirs", "os.mkdir", "os.remove", "os.unlink", "os.rename", "os.replace", "os.rmdir", "os.symlink", "os.link",
            "os.path.exists", "os.path.isfile", "os.path.isdir", "os.listdir", "os.scandir", "os.walk", "os.stat", "os.chmod", "os.utime")
FS_PREFIXES = ("shutil.", "tempfile.", "pathlib.")
# (module, function qualname) -> allowed file-system calls
ALLOWED = {
    (ARCH, "_extract_from_7z_optimized"): {"tempfile.TemporaryDirectory"},
    (ARCH, "_process_7z_files_sequential"): {"os.path.exists", "open"},
    (SEVEN, "SevenZipReader.extractall"): {"os.makedirs", "open"},       # confined by policy#writes-only-to-_safe_join-results
    (SEVEN, "SevenZipReader._extract_files_from_folder"): {"open"},
    (SEVEN, "_mkdirs"): {"os.makedirs"},
}


def canonical(mod, call):
    d = dotted(call.func)
    if not d:
        return ""
    head, _, rest = d.partition(".")
    origin = mod.imports.get(head)
    if origin:
        return origin + ("." + rest if rest else "")
    return d


def owner_fn(mod, node):
    best = None
    for q, f in mod.functions.items():
        if f.lineno <= node.lineno <= f.end_lineno and any(n is node for n in ast.walk(f)):
            if best is None or f.lineno >= mod.functions[best].lineno:
                best = q
    return best


def policy(repo, tier):
    obls, fns = [], []
    mods = {ARCH: loader.module(ARCH, repo), SEVEN: loader.module(SEVEN, repo)}
    # P1: file-system calls only at the allow-listed sites
    bad, seen = [], 0
    for rel, m in mods.items():
        for call in (n for n in ast.walk(m.tree) if isinstance(n, ast.Call)):
            c = canonical(m, call)
            is_fs = c in FS_NAMES or c.startswith(FS_PREFIXES)
            # archive objects: extract()/extractall() of zipfile/tarfile write to disk
            if isinstance(call.func, ast.Attribute) and call.func.attr in ("extract", "extractall") and rel == ARCH:
                recv = ast.unparse(call.func.value)
                if recv != "szf":
                    is_fs, c = True, f"{recv}.{call.func.attr}"
            if not is_fs:
                continue
            seen += 1
            q = owner_fn(m, call)
            if c not in ALLOWED.get((rel, q), set()):
                bad.append(f"{rel}:{call.lineno} {c} in {q}")
    obls.append(ground_obligation("C09/package/policy#file-system-calls-only-at-allow-listed-sites", not bad and seen >= 4,
                                  "; ".join(bad) or f"{seen} file-system call sites, all allow-listed", "archive_extractor.py, sevenzip.py"))
    arch = mods[ARCH]
    # P2: ZIP and TAR member loops have no file-system effect (in-memory reads of regular members only)
    for q in ("_extract_from_zip_optimized", "_extract_from_tar_optimized"):
        f = arch.functions.get(q)
        if f is None:
            obls.append(ground_obligation(f"C09/archive_extractor.py::{q}/policy#no-file-system-effect", False, "function missing", definite=False))
            continue
        eff = [f"{n.lineno}:{canonical(arch, n)}" for n in ast.walk(f) if isinstance(n, ast.Call) and
               (canonical(arch, n) in FS_NAMES or canonical(arch, n).startswith(FS_PREFIXES)
                or (isinstance(n.func, ast.Attribute) and n.func.attr in ("extract", "extractall", "makefile")))]
        obls.append(ground_obligation(f"C09/archive_extractor.py::{q}/policy#no-file-system-effect", not eff, "; ".join(eff), ARCH))
        fns.append(dict(arch.fn_info(q), obligations=1))
    # oversize members never produce results: the size guard dominates every member read (shared with C12)
    from contracts import archive_guards
    for o, info in archive_guards.zip_and_tar("C09", repo, label="oversize-members-are-never-read"):
        obls.append(o)
    # P3: tar: only regular members are read (isreg() dominates extractfile)
    f = arch.functions.get("_extract_from_tar_optimized")
    if f is not None:
        def gen_cond(test, branch):
            t = ast.unparse(test)
            if t == "not member.isreg()" and branch is False:
                return ["isreg(member)"]
            if t == "member.isreg()" and branch is True:
                return ["isreg(member)"]
            return []
        mf = MustFacts(gen_cond=gen_cond,
                       need=lambda n: [("isreg(member)", f"line {n.lineno}")] if isinstance(n, ast.Call) and isinstance(n.func, ast.Attribute)
                       and n.func.attr == "extractfile" else [], kill_names=lambda fact: ["member"])
        # the `continue` in the true branch means the fact holds after the if: handled by join (None & facts)
        res = mf.run(f)
        obls.append(ground_obligation("C09/archive_extractor.py::_extract_from_tar_optimized/typestate#only-regular-members-are-read",
                                      bool(res) and all(r.ok for r in res), "; ".join(r.desc for r in res if not r.ok), ARCH))
    # P4: skip rules dominate every member dispatch
    for q, listvar in (("_extract_from_zip_optimized", "files_to_process"), ("_extract_from_tar_optimized", None),
                       ("_extract_from_7z_optimized", "files_to_process")):
        f = arch.functions.get(q)
        if f is None:
            continue
        def gen_cond(test, branch):
            t = ast.unparse(test)
            if t == "_should_skip_file(filename, basename)" and branch is False:
                return ["not-skipped"]
            return []
        def need(n):
            if isinstance(n, ast.Call):
                d = dotted(n.func)
                if d == "_process_archive_entry" and listvar is None:
                    return [("not-skipped", f"{q} line {n.lineno} dispatch")]
                if listvar and d == f"{listvar}.append":
                    return [("not-skipped", f"{q} line {n.lineno} append")]
            return []
        mf = MustFacts(gen_cond=gen_cond, need=need, kill_names=lambda fact: ["filename", "basename"])
        res = mf.run(f)
        ok = bool(res) and all(r.ok for r in res)
        why = [r.desc for r in res if not r.ok]
        if listvar:
            # dispatches must iterate over exactly that list
            disp = [n for n in ast.walk(f) if isinstance(n, ast.Call) and dotted(n.func) in ("_process_archive_entry", "_process_7z_files_sequential")]
            for d_ in disp:
                loops = [l for l in ast.walk(f) if isinstance(l, ast.For) and any(x is d_ for x in ast.walk(l))]
                if dotted(d_.func) == "_process_7z_files_sequential":
                    if not (d_.args and ast.unparse(d_.args[0]) == listvar):
                        ok = False
                        why.append(f"line {d_.lineno}: sequential processing not over {listvar}")
                elif not any(ast.unparse(l.iter) == listvar for l in loops):
                    ok = False
                    why.append(f"line {d_.lineno}: dispatch outside a loop over {listvar}")
            stores = [n for n in ast.walk(f) if isinstance(n, ast.Name) and n.id == listvar and isinstance(n.ctx, ast.Store)]
            if len(stores) != 1:
                ok = False
                why.append(f"{listvar} assigned {len(stores)} times")
        obls.append(ground_obligation(f"C09/archive_extractor.py::{q}/typestate#skip-rule-dominates-member-dispatch", ok, "; ".join(why), ARCH))
        fns.append(dict(arch.fn_info(q), obligations=1))
    # P5: the private temp dir is a `with tempfile.TemporaryDirectory()` that encloses every use of its name
    f = arch.functions.get("_extract_from_7z_optimized")
    ok, why = False, "function missing"
    if f is not None:
        tds = [n for n in ast.walk(f) if isinstance(n, ast.Call) and canonical(arch, n) == "tempfile.TemporaryDirectory"]
        withs = [w for w in ast.walk(f) if isinstance(w, ast.With) and any(it.context_expr in tds for it in w.items)]
        ok = len(tds) == 1 and len(withs) == 1
        why = f"{len(tds)} TemporaryDirectory calls, {len(withs)} as with-item"
        if ok:
            w = withs[0]
            name = ast.unparse(w.items[0].optional_vars) if w.items[0].optional_vars is not None else None
            uses = [n for n in ast.walk(f) if isinstance(n, ast.Name) and n.id == name and isinstance(n.ctx, ast.Load)]
            inside_uses = [n for n in ast.walk(w) if isinstance(n, ast.Name) and n.id == name and isinstance(n.ctx, ast.Load)]
            ok = name is not None and len(uses) == len(inside_uses) and len(uses) >= 2
            why = f"temp dir name {name}: {len(inside_uses)}/{len(uses)} uses inside the with block"
    obls.append(ground_obligation("C09/archive_extractor.py::_extract_from_7z_optimized/typestate#temp-dir-is-a-with-block-enclosing-all-uses", ok, why, ARCH))
    # P6: sevenzip writes only to paths returned by _safe_join (or their dirname), under the directory it was given
    sv = mods[SEVEN]
    # every path handed to open / _mkdirs / os.makedirs in the 7z reader is the extraction base itself or a _safe_join(base, ...) result
    # (or its dirname); the base is the private temporary directory by the with-block obligation above
    for q, base_param, min_sinks in (("SevenZipReader._extract_files_from_folder", "base_path", 3), ("SevenZipReader.extractall", "path", 1)):
        f = sv.functions.get(q)
        ok, why = False, ["function missing"]
        if f is not None:
            why = []
            safe_vars = {base_param}
            for n in ast.walk(f):
                if isinstance(n, ast.Assign) and isinstance(n.value, ast.Call) and len(n.targets) == 1 and isinstance(n.targets[0], ast.Name):
                    d = dotted(n.value.func)
                    if d == "_safe_join" and n.value.args and ast.unparse(n.value.args[0]) == base_param:
                        safe_vars.add(n.targets[0].id)
            changed = True
            while changed:
                changed = False
                for n in ast.walk(f):
                    if isinstance(n, ast.Assign) and isinstance(n.value, ast.Call) and len(n.targets) == 1 and isinstance(n.targets[0], ast.Name):
                        if canonical(sv, n.value) == "os.path.dirname" and n.value.args and ast.unparse(n.value.args[0]) in safe_vars \
                                and n.targets[0].id not in safe_vars:
                            safe_vars.add(n.targets[0].id)
                            changed = True
            for n in ast.walk(f):
                if isinstance(n, (ast.Assign, ast.AugAssign, ast.AnnAssign)):
                    tg = n.targets if isinstance(n, ast.Assign) else [n.target]
                    for t in tg:
                        if isinstance(t, ast.Name) and t.id in safe_vars and not (isinstance(n, ast.Assign) and isinstance(n.value, ast.Call) and (
                                dotted(n.value.func) == "_safe_join" and n.value.args and ast.unparse(n.value.args[0]) == base_param
                                or canonical(sv, n.value) == "os.path.dirname")):
                            why.append(f"line {n.lineno}: {t.id} reassigned from something else")
            sinks = [n for n in ast.walk(f) if isinstance(n, ast.Call) and dotted(n.func) in ("open", "_mkdirs", "os.makedirs")]
            for s_ in sinks:
                a0 = ast.unparse(s_.args[0]) if s_.args else ""
                if a0 not in safe_vars:
                    why.append(f"line {s_.lineno}: {dotted(s_.func)}({a0}) not the extraction base or a _safe_join result")
            ok = not why and len(sinks) >= min_sinks
            fns.append(dict(sv.fn_info(q), obligations=1))
        obls.append(ground_obligation(f"C09/sevenzip.py::{q}/policy#writes-only-to-_safe_join-results", ok, "; ".join(why), SEVEN))
    return {"obligations": obls, "functions": fns}


EXTRA = [policy]
TRUSTED = ["a normalised absolute path equal to abspath(base) or prefixed by abspath(base)+sep lies inside base (no symlinks are created by the reader)",
           "os.path.abspath returns a normalised absolute path"]
ASSUMED_MODELS = ["os.path.abspath/join/splitdrive/isabs (uninterpreted)", "open/os.makedirs/os.path.exists (effects with confinement obligation)",
                  "archive_extractor._process_archive_entry (C01)", "archive_extractor._is_supported_file_cached (C07/C15)"]
ASSUMPTIONS = ["PY-STR", "EXC-ANY", "what third-party extractors do with member *bytes* is outside this property's contracts",
               "OS-level races (symlink swaps in the temp dir by another process) are not modelled"]

REPLAY_UNKNOWN = True    # undecided / out-of-subset items are searched natively (replay) before being reported UNDECIDED
