"""C04 -- every result honours the common interface, for any input.  (work in progress)"""
import ast

import z3

from pyvc import loader, ops
from pyvc.contracts import FnContract, LoopSpec, Raises
from pyvc.values import NONE, VBool, VExt, VInt, VNoneT, VReal, VRef, VSeq, VStr, VTuple, VUnk, ext_sort, fresh_name
from pyvc.verify import Maker, p_bool, p_ext, p_obj, p_opt, p_str

from contracts import c03_exec as X
from contracts import c04_exec as E
from contracts import common
from contracts.c03_exec import DT, I, S, B, K, fld, fld_at, fld_len, fun
from contracts.c04_exec import BLEN, CONTENT, EMPTY, SEQMAX, IfaceExecutor

EXECUTOR = IfaceExecutor
EXECUTOR_KW = {}


def dt_module(repo=None):
    return loader.module(DT, repo)


def base_names(node):
    return [ast.unparse(b).split(".")[-1] for b in node.bases]


def classes_implementing(mod, iface):
    return [name for name, node in mod.classes.items() if iface in base_names(node) and "." not in name]


# ------------------------------------------------------------------ tables --
def table_view(c, st, table):
    """(rows, Array k |-> len(row k)) of a value returned by get_table()."""
    if isinstance(table, VRef):
        o = st.obj(table.ref)
        if o.kind == "alist":
            table = o.data
        elif o.kind == "list" and o.data is not None:
            items = o.data
            lens = []
            for it in items:
                if isinstance(it, VSeq):
                    lens.append(it.length)
                elif isinstance(it, VRef) and st.obj(it.ref).kind == "alist":
                    lens.append(st.obj(it.ref).data.length)
                elif c.ex.concrete_items(st, it) is not None:
                    lens.append(z3.IntVal(len(c.ex.concrete_items(st, it))))
                else:
                    return None
            arr = z3.K(I, z3.IntVal(0))
            for i, l in enumerate(lens):
                arr = z3.Store(arr, i, l)
            return z3.IntVal(len(items)), arr
    if isinstance(table, VSeq):
        row = table.elem(K)
        if not isinstance(row, VSeq):
            return None
        return table.length, z3.Lambda([K], row.length)
    return None


def table_contract(cls):
    def shape(c):
        """Runs the REAL get_table() on the final state and returns (rows, cols) of its result."""
        me = c.args["self"]
        res = c.ex.call_method(c.st.fork(), me, "get_table", [], {}, c.ex.cur_fn_stack[-1] if c.ex.cur_fn_stack else None)
        if len(res) != 1:
            return None
        st2, table = res[0]
        tv = table_view(c, st2, table)
        if tv is None:
            return None
        n, lens = tv
        return n, SEQMAX(lens, n, z3.IntVal(0))

    def dim(c):
        r = c.result
        if not isinstance(r, VRef):
            return None
        o = c.st.obj(r.ref)
        if o.kind != "obj" or o.cls != "TableDim":
            return None
        return o.data.get("rows"), o.data.get("columns")

    def e_rows(c):
        sh, d = shape(c), dim(c)
        if sh is None or d is None or not isinstance(d[0], VInt):
            c.note = "result is not a TableDim with an int `rows` (or get_table() is not a list of rows)"
            return z3.BoolVal(False)
        return ops.int_term(d[0]) == sh[0]

    def e_cols(c):
        sh, d = shape(c), dim(c)
        if sh is None or d is None or not isinstance(d[1], VInt):
            c.note = "result is not a TableDim with an int `columns` (or get_table() is not a list of rows)"
            return z3.BoolVal(False)
        return ops.int_term(d[1]) == sh[1]

    return FnContract(
        target=f"{DT}::{cls}.get_dim",
        params=[("self", p_ext(cls))],
        ensures=[("rows-equals-len-of-get_table", e_rows), ("columns-equals-longest-row-of-get_table", e_cols)],
        raises=[],
        note="get_dim() == (len(T), max(len(row) for row in T), 0 for the empty table) with T = get_table()",
    )


# ------------------------------------------------------------------ images --
PAYLOAD_FIELDS = ("data", "blob")      # the stored binary payload of an image object (documented field names)
SIZE_FIELD = "size_bytes"              # the reported size


def payload_field(mod, cls):
    sch = E.class_schema(mod, cls) or {}
    for f in PAYLOAD_FIELDS:
        if f in sch:
            return f, sch[f]
    return None, None


def payload_term(cls, f, kind, me):
    """Bytes term of the stored payload of abstract image `me` (b"" when the payload is absent)."""
    opt = isinstance(kind, tuple) and kind[0] == "opt"
    base = kind[1] if opt else kind
    raw = fld(cls, f, E.sort_of_kind(base))(me)
    val = CONTENT(raw) if base == "bytesio" else raw
    if opt:
        return z3.If(fld(cls, f + ".is_none", B)(me), EMPTY, val)
    return val


def image_contract(mod, cls):
    f, kind = payload_field(mod, cls)
    sch = E.class_schema(mod, cls) or {}

    def stream(c):
        r = c.result
        return r if isinstance(r, VExt) and r.sort == "BytesIO" else None

    def e_stream(c):
        if stream(c) is None:
            c.note = "get_bytes() does not return an io.BytesIO"
        return z3.BoolVal(stream(c) is not None)

    def e_pos(c):
        r = stream(c)
        if r is None:
            return z3.BoolVal(False)
        return common.bytesio_pos(c.st, r) == 0

    def e_content(c):
        r = stream(c)
        if r is None or f is None:
            return z3.BoolVal(False)
        return CONTENT(r.t) == payload_term(cls, f, kind, c.args["self"].t)

    def e_size(c):
        r = stream(c)
        if r is None or f is None:
            return z3.BoolVal(False)
        me = c.args["self"].t
        inv = fld(cls, SIZE_FIELD, I)(me) == BLEN(payload_term(cls, f, kind, me))
        return z3.Implies(inv, BLEN(CONTENT(r.t)) == fld(cls, SIZE_FIELD, I)(me))

    ens = [("returns-a-BytesIO", e_stream), ("positioned-at-0", e_pos), ("content-is-the-stored-payload", e_content)]
    if SIZE_FIELD in sch:
        ens.append(("length-equals-reported-size-under-class-invariant", e_size))
    return FnContract(
        target=f"{DT}::{cls}.get_bytes",
        params=[("self", p_ext(cls))],
        requires=lambda c: BLEN(EMPTY) == 0,
        ensures=ens,
        raises=[],
        note=f"get_bytes(): readable stream at position 0 over self.{f} (empty when absent); "
             f"class invariant size_bytes == len(payload) is established at the constructor call sites",
    )


def install_opaque():
    OP = IfaceExecutor.OPAQUE

    def xls_table(ex, st, o, a, env):
        """XlsSheet.get_table(): header row + one row per record -- a pure function of the instance (C06 frame
        obligation); its shape is opaque here, totality is obligation (f)."""
        n = fun("XlsSheet.get_table().len", ext_sort("XlsSheet"), I)(o.t)
        st.assume(n >= 0)
        rl = fun("XlsSheet.get_table().rowlen", ext_sort("XlsSheet"), I, I)
        return VSeq(n, lambda r: VSeq(E.clamp(rl(o.t, r)), lambda k: VUnk("cell"), "unk"), "row")
    OP[("XlsSheet", "get_table")] = xls_table


def contracts(reg):
    E.install(reg)
    install_opaque()
    mod = dt_module()
    out = []
    for cls in classes_implementing(mod, "TableInterface"):
        out.append(table_contract(cls))
    for cls in classes_implementing(mod, "ImageInterface"):
        out.append(image_contract(mod, cls))
    return out


REPLAY_UNKNOWN = True
TRUSTED = []
ASSUMED_MODELS = []
ASSUMPTIONS = []
BOUNDED = []
