"""C04 -- every result honours the common interface, for any input.

Obligations generated from the real source on every run (DESIGN §3 C04):

 (a) get_dim() == (len(T), longest row of T) with T = get_table(), for every TableInterface class of data_types.py
     (symbolic execution on an abstract instance; rows are symbolic-length sequences; spec function seq_max);
 (b) get_bytes() of every ImageInterface class returns an io.BytesIO positioned at 0 whose content is the stored payload,
     and has the reported length under the class invariant size_bytes == len(payload); the invariant is an obligation at
     every image-constructor call site of the parsing package (c04_flow: the size argument is len() of the payload expression),
     and no store overwrites payload / size afterwards;
 (c) FileMetadataInterface.populate_from_path against an assumed pathlib contract;
 (d) well-formed Unicode: every own-code source of characters -- each int->character site: chr(n) calls, the builtin chr used as a
     value (`map(chr, xs)`: element range of xs incl. quantified guards `not any(P(v) for v in xs)`; aliases are undecided sites),
     'c' formats, int-valued translate tables; each bytes->str decode site (codec and error handler); other calls taking errors= and
     escape-syntax decoders (json.loads ...); string literals;
 (e) image numbers >= 1 at the constructor call sites (counter discipline), at stores to number fields, at indirect stores
     (dataclasses.replace / setattr with resolvable names) and for image classes passed around as values
     (unit numbers: C03's obligations);
 (f) accessor totality: get_text / get_images / get_tables / get_metadata of every unit class, get_content_type / get_caption /
     get_description / get_metadata of every image class, get_table / get_dim, get_metadata of every content class raise
     nothing on instances whose fields hold values of their declared types, and the text accessors return str;
 (g) metadata readers copy each documented property (title, creator, subject, keywords, description) unchanged from the
     node that stores it (c04_meta: dataflow postcondition per reader and property).
 (h) isolation: the object whose path fields populate_from_path() fills belongs to this extraction (no module-level object, mutable
     default, cached result flows into it: c04_flow.SharedSources), decided natively by three extractions in one process;
 (i) DT-TYPED at the source: no recognised source of None reaches an int / str / bytes field at an image constructor.
BOUNDED (never counted as proved): the native sweep (all fixtures, every accessor, repeated extractions) and the small-scope
enumeration of hand-built content objects for iterate_units / get_full_text (iterate_images / iterate_tables: contracts since round 7).
Round 7: (j) XlsSheet.get_table (rows computed from records) has a verified shape contract -- [] without records, else header row +
one row per record, each with one cell per key of the first record (loop invariant + pointwise clause) -- which replaces the assumed
opaque model; get_dim's call site sees the verified postcondition.  (k) iterate_images / iterate_tables of all 17 content classes:
raise nothing on well-typed instances and yield only objects of classes implementing ImageInterface / TableInterface.
"""
import ast

import z3

from pyvc import loader, ops
from pyvc.contracts import FnContract, LoopSpec, Raises
from pyvc.values import NONE, VBool, VExt, VInt, VNoneT, VReal, VRef, VSeq, VStr, VTuple, VUnk, ext_sort, fresh_name
from pyvc.verify import Maker, p_bool, p_ext, p_obj, p_opt, p_str

from contracts import c03_exec as X
from contracts import c04_exec as E
from contracts import c04_flow as FLOW
from contracts import c04_meta as META
from contracts import common
from contracts.c03_exec import DT, I, S, B, K, fld, fld_at, fld_len, fun
from contracts.c04_exec import BLEN, CONTENT, EMPTY, SEQMAX, UNRECOGNISED, IfaceExecutor

EXECUTOR = IfaceExecutor
EXECUTOR_KW = {}


def dt_module(repo=None):
    return loader.module(DT, repo)


def base_names(node):
    return [ast.unparse(b).split(".")[-1] for b in node.bases]


def classes_implementing(mod, iface):
    return [name for name, node in mod.classes.items() if iface in base_names(node) and "." not in name]


# ------------------------------------------------------------------ tables --
def table_view(c, st, table):
    """(rows, Array k |-> len(row k)) of a value returned by get_table()."""
    if isinstance(table, VRef):
        o = st.obj(table.ref)
        if o.kind == "alist":
            table = o.data
        elif o.kind == "list" and o.data is not None:
            items = o.data
            lens = []
            for it in items:
                if isinstance(it, VSeq):
                    lens.append(it.length)
                elif isinstance(it, VRef) and st.obj(it.ref).kind == "alist":
                    lens.append(st.obj(it.ref).data.length)
                elif c.ex.concrete_items(st, it) is not None:
                    lens.append(z3.IntVal(len(c.ex.concrete_items(st, it))))
                else:
                    return None
            arr = z3.K(I, z3.IntVal(0))
            for i, l in enumerate(lens):
                arr = z3.Store(arr, i, l)
            return z3.IntVal(len(items)), arr
    if isinstance(table, VSeq):
        row = table.elem(K)
        if not isinstance(row, VSeq):
            return None
        return table.length, z3.Lambda([K], row.length)
    return None


def table_contract(cls):
    def shape(c):
        """Runs the REAL get_table() on the final state and returns (rows, cols) of its result."""
        me = c.args["self"]
        res = c.ex.call_method(c.st.fork(), me, "get_table", [], {}, c.ex.cur_fn_stack[-1] if c.ex.cur_fn_stack else None)
        if len(res) != 1:
            return None
        st2, table = res[0]
        tv = table_view(c, st2, table)
        if tv is None:
            return None
        n, lens = tv
        sm = SEQMAX(lens, n, z3.IntVal(0))
        # defining facts of the spec function max(..., default=0) used by the proofs: empty -> default, one row -> that row
        c.seqmax_facts = z3.And(z3.Implies(n <= 0, sm == 0), z3.Implies(n == 1, sm == z3.Select(lens, 0)))
        return n, sm

    def dim(c):
        r = c.result
        if not isinstance(r, VRef):
            return None
        o = c.st.obj(r.ref)
        if o.kind != "obj" or o.cls != "TableDim":
            return None
        return o.data.get("rows"), o.data.get("columns")

    def e_rows(c):
        sh, d = shape(c), dim(c)
        if sh is None or d is None or not isinstance(d[0], VInt):
            c.note = "result is not a TableDim with an int `rows` (or get_table() is not a list of rows): shape not recognised"
            return UNRECOGNISED
        return ops.int_term(d[0]) == sh[0]

    def e_cols(c):
        sh, d = shape(c), dim(c)
        if sh is None or d is None or not isinstance(d[1], VInt):
            c.note = "result is not a TableDim with an int `columns` (or get_table() is not a list of rows): shape not recognised"
            return UNRECOGNISED
        return z3.Implies(c.seqmax_facts, ops.int_term(d[1]) == sh[1])

    return FnContract(
        target=f"{DT}::{cls}.get_dim",
        params=[("self", p_ext(cls))],
        ensures=[("rows-equals-len-of-get_table", e_rows), ("columns-equals-longest-row-of-get_table", e_cols)],
        raises=[],
        note="get_dim() == (len(T), max(len(row) for row in T), 0 for the empty table) with T = get_table()",
    )


# ------------------------------------------- tables built from records --
PYDICT = ext_sort("PyDict")
DICT_LEN = fun("dict_len", PYDICT, I)          # same symbol as c04_exec.install_pydict: number of keys of a dict value


def record_table_classes(mod):
    """TableInterface classes whose rows are COMPUTED from a list of records (`data: List[Dict[...]]`; today: XlsSheet):
    found by the declared field kind, not by name."""
    out = []
    for cls in classes_implementing(mod, "TableInterface"):
        sch = E.class_schema(mod, cls) or {}
        if sch.get("data") == ("list", "dict") and f"{cls}.get_table" in mod.functions:
            out.append(cls)
    return out


def record_shape(cls, me):
    """(number of rows, cells per row) of the table of abstract instance `me`: header row + one row per record, every row
    with one cell per key of the FIRST record; the empty table when there is no record."""
    dlen = fld_len(cls, "data")(me)
    nkeys = DICT_LEN(fld_at(cls, "data", PYDICT)(me, 0))
    return z3.If(dlen <= 0, z3.IntVal(0), dlen + 1), nkeys


def record_table_view(cls, me):
    """Call-site view of <cls>.get_table(): the row count the verified postcondition states; the length of row r is a function
    of (instance, r) -- weaker than (hence implied by) the verified `one cell per key of the first record`, which callers get as
    an assumed postcondition at the call; kept indexed by r so that fold / seq_max summaries of callers' loops over the rows keep
    their shape (a row length that does not mention the index made the harmless `_dim_of(self.get_table())` helper undecided)."""
    n, _w = record_shape(cls, me)
    rl = fun(f"{cls}.get_table().rowlen", ext_sort(cls), I, I)
    return VSeq(n, lambda r: VSeq(E.clamp(rl(me, r)), lambda k: VUnk("cell"), "unk", tag=("row", cls, "get_table")), "row", tag=("result", cls, "get_table"))


def record_table_contract(mod, cls):
    """VERIFIED on the real body (round 7; before: the assumed opaque model `XlsSheet.get_table(): a pure function of the
    instance`).  The call-site view (`call_outcomes`, record_table_view) has the proved row count and row lengths that are a function
    of (instance, row index): implied by what is proved here; the postconditions themselves are assumed on the result at the call."""
    def view(c):
        r = c.result
        if isinstance(r, VRef) and c.st.obj(r.ref).kind not in ("alist", "list"):
            return None
        return table_view(c, c.st, r)

    def definite_non_table(c):
        r = c.result
        return r is NONE or isinstance(r, (VStr, VInt, VBool, VReal))

    def e_rows(c):
        tv = view(c)
        if tv is None:
            c.note = f"get_table() returns {c.result!r}: not recognised as a list of rows"
            return z3.BoolVal(False) if definite_non_table(c) else UNRECOGNISED
        return tv[0] == record_shape(cls, c.args["self"].t)[0]

    def e_width(c):
        tv = view(c)
        if tv is None:
            c.note = f"get_table() returns {c.result!r}: not recognised as a list of rows"
            return z3.BoolVal(False) if definite_non_table(c) else UNRECOGNISED
        n, lens = tv
        k = z3.Int(fresh_name("row"))
        return z3.Implies(z3.And(k >= 0, k < n), z3.Select(lens, k) == record_shape(cls, c.args["self"].t)[1])

    def rows_of(lc):
        """the list under construction: the one abstract list of rows among the locals (found by kind, not by name)"""
        fr = lc.st.frames[-1]
        for name, v in fr.env.items():
            if isinstance(v, VRef) and lc.st.heap.get(v.ref) is not None:
                o = lc.st.obj(v.ref)
                if o.kind == "alist" and o.data.ekind == "row":
                    return o.data
                if o.kind == "list" and o.data is not None and all(isinstance(x, VSeq) for x in o.data):
                    items = list(o.data)
                    if not items:
                        return VSeq(z3.IntVal(0), lambda k: VSeq(z3.IntVal(0), None, "unk"), "row")
                    return VSeq(z3.IntVal(len(items)), lambda k, items=items: VSeq(X._sel([VInt(x.length) for x in items], k).t, None, "unk"), "row")
        raise E.Unsupported("loop invariant: no list of rows under construction among the locals")

    def inv(lc):
        return rows_of(lc).length == lc.i + 1

    def inv_point(lc, j):
        sq = rows_of(lc)
        return z3.Implies(z3.And(j >= 0, j < sq.length), sq.elem(j).length == record_shape(cls, lc.st.lookup("self").t)[1])

    c = FnContract(
        target=f"{DT}::{cls}.get_table",
        params=[("self", p_ext(cls))],
        ensures=[("row-count-is-header-plus-one-per-record-or-empty", e_rows),
                 ("every-row-has-one-cell-per-key-of-the-first-record", e_width)],
        raises=[],
        loops={0: LoopSpec(inv=inv, inv_point=inv_point, label="rows")},
        inline=False,
        note="get_table(): [] without records, else header row + one row per record, each with one cell per key of the first record; "
             "raises nothing on a well-typed instance (DT-TYPED).  Call sites (get_dim) see exactly this shape.",
    )
    c.call_outcomes = lambda ctx: [(z3.BoolVal(True), record_table_view(cls, ctx.args["self"].t))]
    c.row_lists = True        # executor: lists the body appends rows to are havocked as sequences of rows (c04_exec.havoc_loop_state)
    return c


# ------------------------------------------------------------------ images --
PAYLOAD_FIELDS = ("data", "blob")      # the stored binary payload of an image object (documented field names)
SIZE_FIELD = "size_bytes"              # the reported size


def payload_field(mod, cls):
    sch = E.class_schema(mod, cls) or {}
    for f in PAYLOAD_FIELDS:
        if f in sch:
            return f, sch[f]
    return None, None


def payload_term(cls, f, kind, me):
    """Bytes term of the stored payload of abstract image `me` (b"" when the payload is absent)."""
    opt = isinstance(kind, tuple) and kind[0] == "opt"
    base = kind[1] if opt else kind
    raw = fld(cls, f, E.sort_of_kind(base))(me)
    val = CONTENT(raw) if base == "bytesio" else raw
    if opt:
        return z3.If(fld(cls, f + ".is_none", B)(me), EMPTY, val)
    return val


def image_contract(mod, cls):
    f, kind = payload_field(mod, cls)
    sch = E.class_schema(mod, cls) or {}

    def stream(c):
        r = c.result
        return r if isinstance(r, VExt) and r.sort == "BytesIO" else None

    def definitely_no_stream(c):
        """The result has a definite kind that is not a stream (None, str, int, bytes ...): a counterexample by itself."""
        r = c.result
        return r is NONE or isinstance(r, (VStr, VInt, VBool, VReal)) or (isinstance(r, VExt) and r.sort == "Bytes")

    def e_stream(c):
        if stream(c) is None:
            c.note = f"get_bytes() returns {c.result!r}, not an io.BytesIO"
            return z3.BoolVal(False) if definitely_no_stream(c) else UNRECOGNISED
        return z3.BoolVal(True)

    def e_pos(c):
        r = stream(c)
        if r is None:
            return UNRECOGNISED
        return common.bytesio_pos(c.st, r) == 0

    def e_content(c):
        r = stream(c)
        if r is None or f is None:
            c.note = "no stream result / no payload field (data, blob) recognised"
            return UNRECOGNISED
        return CONTENT(r.t) == payload_term(cls, f, kind, c.args["self"].t)

    def e_size(c):
        r = stream(c)
        if r is None or f is None:
            return UNRECOGNISED
        me = c.args["self"].t
        inv = fld(cls, SIZE_FIELD, I)(me) == BLEN(payload_term(cls, f, kind, me))
        return z3.Implies(inv, BLEN(CONTENT(r.t)) == fld(cls, SIZE_FIELD, I)(me))

    ens = [("returns-a-BytesIO", e_stream), ("positioned-at-0", e_pos), ("content-is-the-stored-payload", e_content)]
    if SIZE_FIELD in sch:
        ens.append(("length-equals-reported-size-under-class-invariant", e_size))
    return FnContract(
        target=f"{DT}::{cls}.get_bytes",
        params=[("self", p_ext(cls))],
        requires=lambda c: BLEN(EMPTY) == 0,
        ensures=ens,
        raises=[],
        note=f"get_bytes(): readable stream at position 0 over self.{f} (empty when absent); "
             f"class invariant size_bytes == len(payload) is established at the constructor call sites",
    )


# ------------------------------------------------------- metadata from path --
PATH = ext_sort("Path")
P_OF = fun("pathlib.Path", S, PATH)                 # Path(s)
P_NAME = fun("Path.name", PATH, S)
P_SUFFIX = fun("Path.suffix", PATH, S)
P_PARENT = fun("Path.parent", PATH, PATH)
P_STR = fun("str_of.Path", PATH, S)                 # str(p)   (same symbol as the executor's str() of an abstract object)
P_EXISTS = fun("Path.exists", PATH, B)              # file-system query at the time of the call
P_RESOLVE = fun("Path.resolve", PATH, PATH)
FILE_FIELDS = ("filename", "file_extension", "file_path", "folder_path")


def install_pathlib(reg):
    """ASSUMED pathlib contract: Path(x) total for str / Path; name, suffix, parent, str() are pure functions of the path;
    exists() is a file-system query that may raise OSError (natively: ENAMETOOLONG for an over-long component);
    resolve() is only called on existing paths and may raise OSError / RuntimeError (symlink loops)."""
    def new_path(ex, st, args, kwargs, node):
        a = args[0]
        if isinstance(a, VStr):
            return [(st, VExt("Path", P_OF(a.t)))]
        if isinstance(a, VExt) and a.sort == "Path":
            return [(st, a)]
        raise E.Unsupported(f"{ex.loc(node)} Path({a!r})")
    reg.ext_models["pathlib.Path"] = new_path
    reg.attr_models[("Path", "name")] = lambda ex, st, o: VStr(P_NAME(o.t))
    reg.attr_models[("Path", "suffix")] = lambda ex, st, o: VStr(P_SUFFIX(o.t))
    reg.attr_models[("Path", "parent")] = lambda ex, st, o: VExt("Path", P_PARENT(o.t))

    def m_exists(ex, st, o, args, kwargs, node):
        s2 = st.fork()
        ex.raise_in(s2, ex.mk_exc("OSError"))
        return [(st, VBool(P_EXISTS(o.t)))]

    def m_resolve(ex, st, o, args, kwargs, node):
        for cls in ("OSError", "RuntimeError"):
            ex.raise_in(st.fork(), ex.mk_exc(cls))
        return [(st, VExt("Path", P_RESOLVE(o.t)))]
    reg.method_models[("Path", "exists")] = m_exists
    reg.method_models[("Path", "resolve")] = m_resolve


def p_path():
    def mk(ex, st, name):
        return [(None, NONE), (None, VStr(z3.String(name))), (None, VExt("Path", z3.Const(name + "!path", PATH)))]
    return Maker(mk, desc="None | str | pathlib.Path")


def p_file_metadata():
    def mk(ex, st, name):
        out = []
        for fresh in (True, False):
            d = {f: (NONE if fresh else VStr(z3.String(f"{name}.{f}"))) for f in FILE_FIELDS + ("detected_encoding",)}
            ref = st.alloc(E.HeapObj("obj", d, "FileMetadataInterface", fresh=False), ex.refs)
            out.append((None, VRef(ref)))
        return out
    return Maker(mk, desc="FileMetadataInterface (fresh: all fields None | arbitrary previous values)")


def populate_contract():
    def path_term(c):
        a = c.args["path"]
        if isinstance(a, VStr):
            return P_OF(a.t)
        if isinstance(a, VExt):
            return a.t
        return None

    def fields(c, st=None):
        return (st or c.st).obj(c.args["self"].ref).data

    def e_none(c):
        if c.args["path"] is not NONE:
            return z3.BoolVal(True)
        d, d0 = fields(c), fields(c, c.entry)
        return z3.BoolVal(all(d[f] is d0[f] for f in d0) and d.keys() == d0.keys())

    def e_fresh_none(c):
        if c.args["path"] is not NONE:
            return z3.BoolVal(True)
        d0 = fields(c, c.entry)
        if not all(d0[f] is NONE for f in FILE_FIELDS):
            return z3.BoolVal(True)
        return z3.BoolVal(all(fields(c)[f] is NONE for f in FILE_FIELDS))

    def e_field(f, want):
        def g(c):
            pt = path_term(c)
            if pt is None:
                return z3.BoolVal(True)
            v = fields(c)[f]
            if not isinstance(v, VStr):
                c.note = f"{f} is {v!r}, not a str, after populate_from_path(<path>)"
                return z3.BoolVal(False) if v is NONE or isinstance(v, (VInt, VBool)) else UNRECOGNISED
            return want(v.t, pt)
        return g

    return FnContract(
        target=f"{DT}::FileMetadataInterface.populate_from_path",
        params=[("self", p_file_metadata()), ("path", p_path())],
        ensures=[("no-path-leaves-the-fields-untouched", e_none),
                 ("no-path-on-a-fresh-object-all-four-fields-None", e_fresh_none),
                 ("filename-is-the-last-path-component", e_field("filename", lambda v, p: v == P_NAME(p))),
                 ("file_extension-is-the-suffix", e_field("file_extension", lambda v, p: v == P_SUFFIX(p))),
                 ("file_path-is-the-path-or-its-resolved-form", e_field("file_path", lambda v, p: z3.Or(v == P_STR(p), v == P_STR(P_RESOLVE(p))))),
                 ("folder_path-is-the-parent-or-its-resolved-form",
                  e_field("folder_path", lambda v, p: z3.Or(v == P_STR(P_PARENT(p)), v == P_STR(P_RESOLVE(P_PARENT(p))))))],
        raises=[Raises("OSError", when=lambda c: z3.BoolVal(c.args["path"] is not NONE), label="file-system query failed"),
                Raises("RuntimeError", when=lambda c: z3.BoolVal(c.args["path"] is not NONE), label="symlink loop in resolve()")],
        modifies=("self",),
        note="path None => nothing is set (fresh object: all four None); else name / suffix / path / parent per the assumed pathlib contract",
    )


def file_metadata_defaults(repo, tier):
    """Ground obligation: the four path fields (and detected_encoding) of FileMetadataInterface default to None, so
    'no path given' is observable as 'all None' on every metadata object built by an extractor."""
    from pyvc.flow import ground_obligation
    mod = dt_module(repo)
    node = mod.classes.get("FileMetadataInterface")
    ok, why = False, "class missing"
    if node is not None:
        d = {b.target.id: b.value for b in node.body if isinstance(b, ast.AnnAssign) and isinstance(b.target, ast.Name)}
        def is_none_default(v):
            if isinstance(v, ast.Constant) and v.value is None:
                return True
            if isinstance(v, ast.Call) and ast.unparse(v.func).split(".")[-1] == "field":
                return any(k.arg == "default" and isinstance(k.value, ast.Constant) and k.value.value is None for k in v.keywords)
            return False
        bad = [f for f in FILE_FIELDS if not is_none_default(d.get(f))]
        ok, why = not bad, ("default not recognised as None: " + ",".join(bad)) if bad else "filename, file_extension, file_path, folder_path default to None"
    # an unrecognised way of declaring the default is decided natively (FileMetadataInterface() has all four fields None)
    return {"obligations": [ground_obligation("C04/data_types.py::FileMetadataInterface/module-invariant#path-fields-default-to-None", ok, why, DT,
                                              kind="module-invariant", backend="ground", definite=False)], "functions": []}


# ------------------------------------------------------ accessor totality --
STR_ACCESSORS = {"get_text", "get_content_type", "get_caption", "get_description", "get_full_text"}
ACCESSORS = {
    "UnitInterface": ("get_text", "get_images", "get_tables", "get_metadata"),
    "ImageInterface": ("get_content_type", "get_caption", "get_description", "get_metadata"),
    "TableInterface": ("get_table",),
    "ExtractionInterface": ("get_metadata",),
}


def is_str_value(c, v):
    return isinstance(v, VStr)


def accessor_contract(mod, cls, name, iface):
    fnode = mod.functions.get(f"{cls}.{name}")
    kw = []
    if fnode is not None:
        a = fnode.args
        names = [x.arg for x in a.args[1:]] + [x.arg for x in a.kwonlyargs]
        kw = [(n, p_bool()) for n in names]       # the only extra parameters of accessors are boolean switches

    def e_str(c):
        if isinstance(c.result, VStr):
            return z3.BoolVal(True)
        c.note = f"{name}() returns {c.result!r}, not a str, on a well-typed instance"
        if c.result is NONE or isinstance(c.result, (VInt, VBool, VReal, VRef, VSeq, VTuple)):
            return z3.BoolVal(False)        # a value of a definite non-str kind
        return UNRECOGNISED

    def e_number(c):
        """get_metadata().unit_number / image_number is the stored number (positivity: construction sites, part e)."""
        r = c.result
        if isinstance(r, VRef) and c.st.obj(r.ref).kind == "obj":
            return z3.BoolVal(True)
        if isinstance(r, VExt):
            return z3.BoolVal(True)
        c.note = f"{name}() returns {r!r}, not a metadata object"
        return z3.BoolVal(False) if r is NONE or isinstance(r, (VStr, VInt, VBool)) else UNRECOGNISED

    sch = E.class_schema(mod, cls) or {}
    nf = next((f for f in FLOW.NUMBER_FIELDS if f in sch), None)

    def e_image_number(c):
        """ImageMetadata.image_number is the stored image number (whose positivity is the constructor-site obligation)."""
        r = c.result
        if not (isinstance(r, VRef) and c.st.obj(r.ref).kind == "obj" and isinstance(c.st.obj(r.ref).data.get("image_number"), VInt)):
            c.note = "get_metadata() does not return an ImageMetadata with an int image_number: shape not recognised"
            return UNRECOGNISED
        return ops.int_term(c.st.obj(r.ref).data["image_number"]) == fld(cls, nf, I)(c.args["self"].t)

    ens = []
    if name in STR_ACCESSORS:
        ens.append(("returns-str", e_str))
    if name == "get_metadata":
        ens.append(("returns-a-metadata-object", e_number))
        if iface == "ImageInterface" and nf is not None:
            ens.append(("image_number-is-the-stored-number", e_image_number))
    return FnContract(
        target=f"{DT}::{cls}.{name}",
        params=[("self", p_ext(cls))] + kw,
        ensures=ens,
        raises=[],
        inline=True,          # callers (get_dim -> get_table, get_metadata -> get_content_type) run the real body
        note=f"{iface}.{name}() raises nothing on an instance whose fields hold values of their declared types (DT-TYPED)",
    )


def accessor_contracts(mod):
    out = []
    computed = set(record_table_classes(mod))
    for iface, names in ACCESSORS.items():
        for cls in classes_implementing(mod, iface):
            for name in names:
                if name == "get_table" and cls in computed:
                    out.append(record_table_contract(mod, cls))      # shape contract (includes totality), not inlined by callers
                    continue
                if f"{cls}.{name}" in mod.functions:
                    out.append(accessor_contract(mod, cls, name, iface))
    return out


# ------------------------------------------- iterate_images / iterate_tables --
ITERATORS = {"iterate_images": "ImageInterface", "iterate_tables": "TableInterface"}


def iterator_contract(mod, cls, name, iface):
    """Round 7 (before: only the BOUNDED small scope and the fixture sweep exercised these generators): on an instance whose
    fields hold values of their declared types the generator raises nothing, and every value it yields is an instance of a class
    implementing the interface the method promises (checked at each `yield` of the real body, for an arbitrary element of the
    symbolic-length lists the loops run over).  Loops mutate nothing, so their invariant is `True`."""
    impl = set(classes_implementing(mod, iface))
    fnode = mod.functions[f"{cls}.{name}"]
    nloops = sum(1 for n in ast.walk(fnode) if isinstance(n, (ast.For, ast.While)))

    def check(ex, st, v):
        k = None
        if isinstance(v, VExt):
            k = v.sort
        elif isinstance(v, VRef) and st.heap.get(v.ref) is not None and st.obj(v.ref).kind == "obj":
            k = st.obj(v.ref).cls
        if k is not None:
            if k in impl:
                return z3.BoolVal(True), ""
            if k in mod.classes:
                return z3.BoolVal(False), f"{name}() yields a {k}, which does not implement {iface}"
            return UNRECOGNISED, f"{name}() yields an object of unknown class {k}"
        if v is NONE or isinstance(v, (VStr, VInt, VBool, VReal, VSeq, VTuple)) or \
                (isinstance(v, VRef) and st.heap.get(v.ref) is not None and st.obj(v.ref).kind in ("list", "alist", "dict")):
            return z3.BoolVal(False), f"{name}() yields {v!r}, not an object implementing {iface}"
        return UNRECOGNISED, f"{name}() yields {v!r}: kind not recognised"

    c = FnContract(
        target=f"{DT}::{cls}.{name}",
        params=[("self", p_ext(cls))],
        ensures=[],
        raises=[],
        generator=True,
        total=True,
        loops={k: LoopSpec(inv=lambda lc: z3.BoolVal(True), label=f"loop{k}") for k in range(nloops)},
        note=f"{cls}.{name}() raises nothing on a well-typed instance and yields only {iface} objects",
    )
    c.plain_yield = True
    c.yield_check = check
    c.yield_label = f"every-yielded-value-implements-{iface}"
    return c


def iterator_contracts(mod):
    out = []
    for cls in classes_implementing(mod, "ExtractionInterface"):
        for name, iface in ITERATORS.items():
            if f"{cls}.{name}" in mod.functions:
                out.append(iterator_contract(mod, cls, name, iface))
    return out


MATCH_OF = {}        # id of a ReMatch term -> group table of its pattern


def install_re(reg, mod):
    """PY-RE: compiled patterns are abstract; match()/search() return None or a match object and never raise; group(k)
    of a match is a str, or None only for a group that is optional in the pattern text (contracts/c04_regex.py)."""
    from contracts import c04_regex as R
    for name in list(mod.assigns):
        pat = R.pattern_literal(mod, name)
        if pat is not None:
            reg.module_consts[(mod.rel, name)] = VExt("RePattern", z3.Const(f"re:{mod.rel.split('/')[-1]}:{name}", ext_sort("RePattern")))
            PATTERNS[f"re:{mod.rel.split('/')[-1]}:{name}"] = R.groups(pat)

    def m_match(ex, st, o, args, kwargs, node):
        m = VExt("ReMatch")
        MATCH_OF[m.t.get_id()] = PATTERNS.get(str(o.t))
        return [(st.fork(), NONE), (st, m)]

    def m_group(ex, st, o, args, kwargs, node):
        info = MATCH_OF.get(o.t.get_id())
        k = args[0].const() if args and isinstance(args[0], VInt) else None
        g = info.get(k) if info and k is not None else None
        v = VStr(z3.String(fresh_name("group")))
        if g is not None:
            E.STR_GROUP[v.t.get_id()] = g
        out = [(st, v)]
        if k != 0 and (g is None or not g["mandatory"]):
            out.insert(0, (st.fork(), NONE))
        return out
    reg.method_models[("RePattern", "match")] = m_match
    reg.method_models[("RePattern", "search")] = m_match
    reg.method_models[("ReMatch", "group")] = m_group


PATTERNS = {}


def length_helper_contracts(mod):
    """The module-level one-argument helpers that OpenDocumentImage.get_metadata calls (today: _odf_length_to_px) are put
    under the contract `total on every str / None, returns int or None` -- found by the call, not by name, and identified
    in obligation ids by their role, so renaming or splitting the helper keeps the obligations."""
    meth = mod.functions.get("OpenDocumentImage.get_metadata")
    if meth is None:
        return []
    names = []
    for n in sorted((x for x in ast.walk(meth) if isinstance(x, ast.Call) and isinstance(x.func, ast.Name)), key=lambda x: (x.lineno, x.col_offset)):
        fn = mod.functions.get(n.func.id)
        if fn is not None and n.func.id not in names and len(fn.args.args) == 1 and not fn.args.kwonlyargs and len(n.args) == 1:
            names.append(n.func.id)
    out = []
    for k, name in enumerate(names):
        def e_kind(c, name=name):
            if c.result is NONE or isinstance(c.result, VInt):
                return z3.BoolVal(True)
            c.note = f"{name} returns {c.result!r}, neither an int nor None"
            return z3.BoolVal(False) if isinstance(c.result, (VStr, VBool, VReal)) else UNRECOGNISED
        c = FnContract(
            target=f"{DT}::{name}",
            params=[(mod.functions[name].args.args[0].arg, p_opt(p_str()))],
            ensures=[("returns-int-or-None", e_kind)],
            raises=[],
            note="total on every str / None (called by OpenDocumentImage.get_metadata with the width / height texts of the document)",
        )
        c.oid_name = f"OpenDocumentImage.get_metadata.length-helper-{k}"
        c.call_outcomes = lambda ctx: [(z3.Bool(fresh_name("no_px")), NONE), (z3.BoolVal(True), VInt(z3.Int(fresh_name("px"))))]
        out.append(c)
    return out


def install_opaque():
    """Round 7: no opaque accessor is left.  XlsSheet.get_table() used to be an uninterpreted function of the instance here
    (assumed); it is now under the verified contract `record_table_contract`, whose postcondition is the call-site view."""
    IfaceExecutor.OPAQUE.pop(("XlsSheet", "get_table"), None)


def contracts(reg):
    E.install(reg)
    install_opaque()
    mod = dt_module()
    out = []
    for cls in classes_implementing(mod, "TableInterface"):
        out.append(table_contract(cls))
    for cls in classes_implementing(mod, "ImageInterface"):
        out.append(image_contract(mod, cls))
    install_pathlib(reg)
    out.append(populate_contract())
    out.extend(accessor_contracts(mod))
    out.extend(iterator_contracts(mod))
    install_re(reg, mod)
    out.extend(length_helper_contracts(mod))
    return out


def native_sweep(repo, tier):
    """BOUNDED validation (never counted as a proof): every fixture of the repository (with its path and with path None)
    is extracted under /venv/bin/python and every accessor of every result / unit / image / table is called and checked
    against the interface (replay/C04.py::check_result).  It validates the assumed models (DT-TYPED, pathlib, io.BytesIO,
    ImageMetadata mirror) on real objects; a failure is a violation with a replayable input."""
    import json
    import os
    import subprocess
    from pyvc.flow import ground_obligation
    root = os.path.dirname(os.path.dirname(os.path.abspath(__file__)))
    req = {"property": "C04", "obligation": "validation", "sweep": True, "fixtures_only": True}
    oid = "C04/package/assumed-model-validation#fixtures-honour-the-interface"
    try:
        p = subprocess.run(["/venv/bin/python", os.path.join(root, "replay", "run.py")], input=json.dumps(req), capture_output=True,
                           text=True, timeout=900, env=dict(os.environ, VERIF_REPO=repo))
        lines = [l for l in p.stdout.splitlines() if l.startswith("{")]
        res = json.loads(lines[-1]) if lines else {}
    except Exception as e:  # noqa
        res = {"note": str(e)}
    if "count" not in res:
        return {"obligations": [], "undecided": [{"obligation": oid, "why": "native sweep did not run: " + str(res.get("note", ""))[:200]}]}
    ff = res.get("failures", [])
    o = ground_obligation(oid, not ff, "; ".join(f"{x['file']}: {x['where']}: {x['detail']}" for x in ff[:4]) or f"{res.get('files')} fixtures x 2 path arguments: no interface failure",
                          "package", kind="assumption-validation", backend="native-replay(bounded: repository fixtures)")
    o["bounded"] = True
    o["bound"] = "all fixtures of the repository x {path, no path}, repeated extractions, documents without metadata parts, seven crafted metadata documents"
    return {"obligations": [o]}



def content_small_scope(repo, tier):
    """BOUNDED stand-in (DESIGN 2.8) for the accessors this pack does not put under a symbolic contract (iterate_units /
    get_full_text of the content classes; iterate_images / iterate_tables are under `iterator_contract` since round 7 and are
    merely exercised again here): every accessor is called natively on hand-built,
    well-typed content objects of a small scope (replay/C04.py::content_scope).  Never counted as proved."""
    import json
    import os
    import subprocess
    from pyvc.flow import ground_obligation
    root = os.path.dirname(os.path.dirname(os.path.abspath(__file__)))
    oid = "C04/data_types.py::content-objects/bounded#small-scope-accessor-totality"
    try:
        p = subprocess.run(["/venv/bin/python", os.path.join(root, "replay", "run.py")], input=json.dumps({"property": "C04", "obligation": oid, "content_scope": True}),
                           capture_output=True, text=True, timeout=900, env=dict(os.environ, VERIF_REPO=repo))
        lines = [l for l in p.stdout.splitlines() if l.startswith("{")]
        res = json.loads(lines[-1]) if lines else {}
    except Exception as e:  # noqa
        res = {"note": str(e)}
    if "reproduced" not in res or ("instances" not in res and not res.get("reproduced")):
        return {"obligations": [], "undecided": [{"obligation": oid, "why": "native small scope did not run: " + str(res.get("note", ""))[:200]}]}
    o = ground_obligation(oid, not res["reproduced"], res.get("observed") or res.get("note", ""), DT, kind="bounded", backend="native-replay(bounded small scope)")
    o["bounded"] = True
    o["bound"] = "all content classes with defaults; DocContent: texts of <= 3 lines over a 6-line grammar x 3 image lists x 2 table lists"
    o["vcs"] = res.get("instances") or res.get("instances_tried") or 1
    return {"obligations": [o]}


EXTRA = [content_small_scope, file_metadata_defaults, FLOW.image_constructor_sites, FLOW.field_store_sites, FLOW.chr_sites, FLOW.decode_sites, FLOW.literal_sites, FLOW.metadata_freshness_sites, FLOW.unit_number_sites, META.metadata_readers, native_sweep]
REPLAY_UNKNOWN = True     # obligations left `unknown` are searched natively (replay/C04.py); only a reproduced failing input is a violation
TRUSTED = [
    "strings returned by third-party parsers (xml.etree / defusedxml, openpyxl, pypdf, olefile, xlrd, charset_normalizer, html.parser, "
    "mail-parser) are well-formed Unicode; the stdlib `email` package can return surrogate-escaped headers for raw 8-bit header "
    "bytes -- OPEN assumption, not proved (natively probed: no leak on the crafted .eml)",
    "PY-STR-WF: concatenation, slicing, join, strip, replace, translate, re.sub with literal replacements, html.unescape and "
    "unicodedata.normalize never create a surrogate code point from well-formed operands",
    "CPython codecs: every decoder except unicode_escape / raw_unicode_escape / utf-7 (and the handlers surrogateescape / "
    "surrogatepass) yields only non-surrogate code points with errors in strict / replace / ignore",
    "PY-RE: group shapes (mandatory / width / digit class) derived from the pattern text with CPython's own regex parser (contracts/c04_regex.py)",
    "per-site obligations with back end `dataflow` / `z3` in c04_flow / c04_meta are decided on the AST: equal pure argument "
    "expressions of one call denote equal values; an unrecognised shape is UNDECIDED",
]
ASSUMED_MODELS = [
    "io.BytesIO(initial): fresh stream over `initial` (b'' for None / no argument) at position 0; seek(n) sets the position; content never "
    "changes (no accessor writes)",
    "pathlib: Path(x) total; name / suffix / parent / str() pure; exists() may raise OSError (natively: ENAMETOOLONG for a component "
    "longer than NAME_MAX -- populate_from_path then raises; it is not one of the accessors); resolve() may raise OSError / RuntimeError",
    "builtins float(str) raises only ValueError (never for a decimal numeral) and may return +inf; round()/int() of a float raise only "
    "OverflowError (inf) / ValueError (nan)",
    "IMD-MIRROR: the @dataclass constructor of ImageMetadata (a dict subclass with __setattr__ / __post_init__ mirroring the fields into "
    "the dict) is total and stores the given fields; TableDim(...) likewise",
    "dict values of well-typed fields: keys() / values() / items() / get() total",
]
ASSUMPTIONS = [
    "DT-TYPED: fields of the result dataclasses hold values of their declared types (lists finite); established for objects built by the "
    "extractors by the constructor-site obligations for payload / size / number, assumed for the remaining fields",
    "unit numbers >= 1: C03's obligations (unit numbering per format and construction sites); C04 adds the image numbers",
    "white space around OPF dc:* values and the HTML <title> is not significant (EPUB 3.3 5.5.3, HTML `document.title`): for these two "
    "readers `unchanged` means equal after strip(); OOXML / ODF properties must be exact copies; RTF \\info groups are compared at "
    "the level of which group feeds which field (the decoding of the group text is C02's)",
    "xlsx: openpyxl's DocumentProperties.title/creator/keywords/description are the texts of dc:title, dc:creator, cp:keywords, "
    "dc:description of docProps/core.xml (third-party contract; validated natively on a crafted workbook)",
    "a `sat` answer on a path that contains an over-approximation (EXC-ANY call, loop cut without invariant, float model) is not a "
    "counter-model: the obligation is UNDECIDED unless replay/C04.py reproduces a failing input natively",
    "FOLD-MAX: a loop whose one symbolic step is proved to be acc' = max(acc, g(i)) with g(i) >= the initial value computes "
    "max(g(0..n-1), default=initial) (induction on n; the step is checked by z3 on the real body, the induction is trusted)",
    "seq_max facts used in proofs: max over an empty sequence is the default, over one element that element",
    "PY-EXC / EXC-ANY, PY-STR, PY-INT",
]
BOUNDED = [
    "assumed-model-validation#fixtures-honour-the-interface: all supported fixtures of the repository, each with its path and with path "
    "None, every accessor of every result / unit / image / table (replay/C04.py::check_result), plus seven crafted documents with known "
    "properties -- validation of the assumed models on real objects, not a proof",
    "seq_max refuter: sequence lengths <= 3 (only used to turn a failed proof into a counter-model)",
]
NOT_CLAIMED = [
    "get_full_text() / iterate_units() totality and content: C03 (eleven unit-derived formats); doc / ppt / rtf / docx / odt / xls full text "
    "is only exercised by the native sweep",
    "to_json() / from_json(): C05",
    "results of archive members carry the member's `archive!/member` path (C10); the path clause is proved for populate_from_path itself",
    "that the payload IS the picture stored in the document (C14), that numbers run 1..n without gaps (C14 / F23)",
]


def known_findings(kf, violations, repo, tier):
    """Recorded genuine defects (known_findings.json): each witness is replayed natively; a finding that still fails prints
    KNOWN-FINDING and covers exactly its own obligation ids (those decode sites must additionally be replayed one by one:
    a site whose own crafted input no longer fails is not covered)."""
    import json
    import os
    import subprocess
    out = []
    vio = {v["id"]: v for v in violations}
    root = os.path.dirname(os.path.dirname(os.path.abspath(__file__)))

    def replay(req):
        try:
            p = subprocess.run(["/venv/bin/python", os.path.join(root, "replay", "run.py")], input=json.dumps(req), capture_output=True, text=True,
                               timeout=600, env=dict(os.environ, VERIF_REPO=repo))
            lines = [l for l in p.stdout.splitlines() if l.startswith("{")]
            return json.loads(lines[-1]) if lines else {"reproduced": False}
        except Exception as e:  # noqa
            return {"reproduced": False, "note": str(e)}
    for f in kf:
        res = replay({"property": "C04", "obligation": f["obligation"], "known_finding": f["id"], "repo": repo})
        still = bool(res.get("reproduced"))
        covers = []
        if still:
            import fnmatch
            for oid in vio:
                # the finding covers a decode site of its file only when that site's own replay fails by the recorded cause
                # (a document-declared charset); site ids are ordinals, so the match is by pattern, not by a fixed id
                if any(fnmatch.fnmatchcase(oid, pat) for pat in f.get("covers", [f["obligation"]])):
                    r = replay({"property": "C04", "obligation": oid, "repo": repo})
                    need = f.get("requires_input_key")
                    if r.get("reproduced") and (need is None or need in (r.get("inputs") or {})):
                        covers.append(oid)
        out.append({"finding": f["id"], "still_fails": still, "line": f"{f['id']}: {f['what']}", "covers": covers,
                    "exclusion": f.get("exclusion"), "witness_replay": res.get("observed", res.get("note", ""))})
    return out
