"""Pack-local executor and assumed library models for C16 (e-mail glue).

Built on contracts/c03_exec.py::UnitsExecutor (abstract dataclass instances, abstract growing
lists, comprehensions over symbolic sequences).  Added here, without touching the engine:

* `VOpt`   -- an Optional[str|bytes] value that does not fork: (is-None Bool, value).  `message.get(h)`,
  `part.get_payload(decode=True)`, `part.get_content_charset()`, dict `.get(k)` of a mailparser
  attachment return it; truthiness, `is None`, `==`, `x or <literal>` are defined on it.
* `VDyn`   -- a str-or-bytes value with a symbolic `isinstance(.., bytes)` (parts of
  `email.header.decode_header`, mailparser attachment payloads).
* bytes of symbolic length are modelled as z3 strings of code points < 256 (latin-1 isomorphism);
  `bytes.decode(cs, errors=..)`, `str.encode`, `bytes.rstrip(b"\\r\\n")`, `base64.b64decode` are
  uninterpreted functions with the exception behaviour documented by CPython (LookupError for an
  unknown codec, nothing else with errors="replace").
* abstract `email.message.Message`, mailparser `MailParser`, `re` pattern / match objects,
  `io.BytesIO` with content, `datetime`.
* comprehensions: elements that are dataclass instances become abstract instances given by a fresh
  function of the index; a filtered comprehension carries its (source length, keep(k), element(k))
  description in `VSeq.tag` so that contracts compare it with the specified filter-map pointwise.
* `@dataclass` construction runs the real `__post_init__`.
* ghost sequence of yielded results (`YC`): (length, source-message array, intact array).
* probing pass: the element kind of a list that a symbolic loop appends to is found by running the
  loop body once on a scratch state (no obligations are recorded by the probe).
"""
from __future__ import annotations

import ast
import codecs

import z3

from pyvc import loader, ops
from pyvc.ops import Unsupported
from pyvc.state import Frame, HeapObj
from pyvc.values import (NONE, V, VBool, VBytes, VDictC, VExc, VExt, VFunc, VInt, VNoneT, VRef, VSeq, VStr, VTuple, VType,
                         VUnk, ext_sort, fresh_name)

from contracts import c03_exec as X
from contracts.c03_exec import B, Conj, I, JOIN, K, S, STRIP, UnitsExecutor, fld, fun

MBOX = "sharepoint2text/parsing/extractors/mail/mbox_email_extractor.py"
EML = "sharepoint2text/parsing/extractors/mail/eml_email_extractor.py"
MSG = "sharepoint2text/parsing/extractors/mail/msg_email_extractor.py"
DT = X.DT
MIME = "sharepoint2text/parsing/mime_types.py"

MsgS = ext_sort("Message")
MailS = ext_sort("Mail")
BioS = ext_sort("BytesIO")
DtS = ext_sort("datetime")
EMPTY = z3.StringVal("")


# ------------------------------------------------------------------------------ values --
class VOpt(V):
    """Optional value without forking: `none` (Bool term) and `val` (VStr / VDyn, meaningful when not none)."""
    kind = "opt"
    __slots__ = ("none", "val")

    def __init__(self, none, val):
        self.none, self.val = none, val

    def __repr__(self):
        return "VOpt"


class VDyn(VStr):
    """str-or-bytes: `isb` (Bool term) tells whether the Python value is `bytes`."""
    __slots__ = ("isb",)

    def __init__(self, t, isb):
        super().__init__(t)
        self.isb = isb if not isinstance(isb, bool) else z3.BoolVal(isb)


class ShapeUnknown(Exception):
    """raised inside a contract clause when the value the (changed) code built has a shape the clause cannot read"""


class Unk:
    """A clause that cannot be stated because the pack does not recognise the shape of what the (changed) code built: neither
    proved nor refuted -- the obligation is `unknown` (UNKNOWN-SHAPE) and the native replayer decides.  Assumed as True."""

    def __init__(self, why):
        self.why = str(why)[:200]


class ConjA(Conj):
    """Labelled conjunction plus definitional instances that are only ever assumed (never proof goals)."""

    def __init__(self, items, defs=()):
        super().__init__(items)
        self.defs = list(defs)

    def term(self):
        return z3.And([t for _l, t in self if not isinstance(t, Unk)] + self.defs + [z3.BoolVal(True)])


def opt_parts(v):
    """(is-None Bool, string term) of None | str | bytes | VOpt."""
    if v is NONE or isinstance(v, VNoneT):
        return z3.BoolVal(True), EMPTY
    if isinstance(v, VOpt):
        return v.none, v.val.t
    if isinstance(v, VStr):
        return z3.BoolVal(False), v.t
    if isinstance(v, VBytes):
        return z3.BoolVal(False), bytes_term(v)
    raise Unsupported(f"optional text expected, got {v!r}")


def absent(v):
    """`not v` for an optional text."""
    n, t = opt_parts(v)
    return z3.Or(n, z3.Length(t) == 0)


def bytes_term(v):
    """z3 string term (latin-1 view) of a bytes-like value."""
    if isinstance(v, VStr):
        return v.t
    if isinstance(v, VOpt):
        return v.val.t
    if isinstance(v, VBytes):
        cs = [x.const() for x in v.items]
        if any(c is None for c in cs):
            raise Unsupported("symbolic bytes literal")
        return z3.StringVal(bytes(cs).decode("latin-1"))
    raise Unsupported(f"bytes expected, got {v!r}")


# --------------------------------------------------------------- uninterpreted library --
KNOWN_CS = fun("codec_known", S, B)                    # codecs.lookup(cs) succeeds
DEC = fun("bytes_decode_replace", S, S, S)             # b.decode(cs, errors="replace") for a known codec
DEC_STRICT_OK = fun("bytes_decode_strict_ok", S, S, B)
ENC_IGN = fun("str_encode_ignore", S, S, S)            # s.encode(cs, errors="ignore")
RSTRIP_EOL = fun("bytes_rstrip_crlf", S, S)            # b.rstrip(b"\r\n")
B64D = fun("base64_b64decode", S, S)
REPLACE_ALL = fun("str_replace_all", S, S, S, S)       # x.replace(old, new)
LOWER = z3.Function("str_lower", S, S)                 # same symbol as contracts/C07.py
LSTRIP = z3.Function("str_lstrip", S, S)               # str.lstrip() (uninterpreted)
# (round 7) re.split(pattern, s): ASSUMED total, at least one piece; the pieces are functions of (pattern, s)
RSPL_N = fun("re_split_n", S, S, I)
RSPL_AT = fun("re_split_at", S, S, I, S)
# (round 7) names for the result of the VERIFIED, deterministic msg._parse_single_recipient(raw) at call sites (conservative extension:
# the body is a function of `raw`); what they are is given by the ensures clauses of its contract, nothing else is assumed about them
PSR_NONE = fun("psr_is_none", S, B)
PSR_NAME = fun("psr_name", S, S)
PSR_ADDR = fun("psr_address", S, S)
CNT_PSR = fun("cnt_recipients", S, S, I, I)   # number of pieces of re.split(P, s)[:i] that give a recipient with a name or an address


# (round 7) the specified result of msg._parse_multi_recipients(s) for a str s, as an abstract sequence (call-site view of its verified
# contract: the recursive calls of the list form), and the prefix sums of the result lengths over the items of a list argument
PMR_N = fun("pmr_n", S, I)
PMR_AT = z3.Function("pmr_at", S, I, ext_sort("EmailAddress"))


OLE_STREAM = z3.Function("ole_stream", ext_sort("OleFile"), S, S, ext_sort("OleStream"))
OLE_DATA = z3.Function("ole_stream_bytes", ext_sort("OleStream"), S)
DEC_IGN = fun("bytes_decode_ignore", S, S, S)          # the symbol m_decode uses for errors="ignore"
RSTRIP_CHARS = fun("str_rstrip_chars", S, S, S)        # the symbol str.rstrip(<constant chars>) uses


def psr_keep(P, s, k):
    part = RSPL_AT(P, s, k)
    return z3.And(z3.Not(PSR_NONE(part)), z3.Or(z3.Length(PSR_NAME(part)) > 0, z3.Length(PSR_ADDR(part)) > 0))


def cnt_psr_def(P, s, j):
    return CNT_PSR(P, s, j) == z3.If(j <= 0, 0, CNT_PSR(P, s, j - 1) + z3.If(psr_keep(P, s, j - 1), 1, 0))

# re: match list of a compiled pattern over data
PatS = ext_sort("RePattern")
MatchS = ext_sort("Match")
M_N = fun("re_finditer_n", PatS, S, I)
M_START = fun("re_match_start", PatS, S, I, I)
M_END = fun("re_match_end", PatS, S, I, I)
M_AT = fun("re_match_at", PatS, S, I, MatchS)
MO_START = fun("Match.start", MatchS, I)
MO_END = fun("Match.end", MatchS, I)

# email.message.Message
HAS = fun("msg_has_header", MsgS, S, B)
HDR = fun("msg_header", MsgS, S, S)
IS_MP = fun("msg_is_multipart", MsgS, B)
W_N = fun("msg_walk_n", MsgS, I)
W_AT = fun("msg_walk_at", MsgS, I, MsgS)
CT = fun("msg_content_type", MsgS, S)
PAY_NONE = fun("msg_payload_none", MsgS, B)
PAY = fun("msg_payload_decoded", MsgS, S)
CS_NONE = fun("msg_charset_none", MsgS, B)
CS = fun("msg_charset", MsgS, S)
CD_NONE = fun("msg_content_disposition_none", MsgS, B)
CDISP = fun("msg_content_disposition", MsgS, S)        # get_content_disposition(): lower-cased disposition type
FN_NONE = fun("msg_filename_none", MsgS, B)
FNAME = fun("msg_filename", MsgS, S)
MFB = fun("message_from_bytes", S, MsgS)

# email.utils / email.header
GA_N = fun("getaddresses_n", S, I)
GA_NAME = fun("getaddresses_name", S, I, S)
GA_ADDR = fun("getaddresses_addr", S, I, S)
PA_NAME = fun("parseaddr_name", S, S)
PA_ADDR = fun("parseaddr_addr", S, S)
DH_N = fun("decode_header_n", S, I)
DH_PART = fun("decode_header_part", S, I, S)
DH_ISB = fun("decode_header_part_is_bytes", S, I, B)
DH_CS_NONE = fun("decode_header_charset_none", S, I, B)
DH_CS = fun("decode_header_charset", S, I, S)
DATE_OK = fun("parsedate_ok", S, B)
PDATE = fun("parsedate_to_datetime", S, DtS)
ISO = fun("datetime_isoformat", DtS, S)

# io.BytesIO
CONTENT = fun("BytesIO.content", BioS, S)

# what a yielded result was produced from
SrcS = ext_sort("ResultSource")
SRC_MSG = fun("source_message", MsgS, SrcS)
SRC_MAIL = fun("source_mail", MailS, SrcS)

# mailparser.MailParser (parse_from_bytes)
AttS = ext_sort("AttDict")
MAILOF = fun("mailparser_parse_from_bytes", S, MailS)
ML_N = fun("mail_addresses_n", MailS, S, I)            # mail.<to|cc|bcc|from_|reply_to>
ML_NAME = fun("mail_addresses_name", MailS, S, I, S)
ML_ADDR = fun("mail_addresses_addr", MailS, S, I, S)
MH_NONE = fun("mail_header_none", MailS, S, B)         # mail.<subject|message_id|in_reply_to>
MH = fun("mail_header", MailS, S, S)
MDATE_NONE = fun("mail_date_none", MailS, B)
MDATE = fun("mail_date", MailS, DtS)
MT_N = fun("mail_text_n", MailS, S, I)                 # mail.text_plain / mail.text_html
MT_AT = fun("mail_text_at", MailS, S, I, S)
MA_N = fun("mail_attachments_n", MailS, I)
MA_AT = fun("mail_attachments_at", MailS, I, AttS)
AD_NONE = fun("att_value_none", AttS, S, B)            # attachment.get(key) is None
AD_STR = fun("att_value", AttS, S, S)
AD_ISB = fun("att_payload_is_bytes", AttS, B)
AD_BIN = fun("att_binary", AttS, B)
ATT_BYTES = fun("att_exact_bytes", AttS, S)            # the attachment's decoded content (what the statement calls its exact bytes)


# re.search
RS_NONE = fun("re_search_none", S, S, B)
RS_START = fun("re_search_start", S, S, I)
RS_GROUP = fun("re_search_group", S, S, I, S)
SMatchS = ext_sort("SMatch")
RS_MATCH = fun("re_search_match", S, S, SMatchS)

# msg_parser.MsOxMessage
MsOxS = ext_sort("MsOx")
MsgPropS = ext_sort("MsgProp")
MSOX = fun("msg_parser_MsOxMessage", S, MsOxS)
MX_NONE = fun("msox_prop_none", MsOxS, S, B)
MX_STR = fun("msox_prop_str", MsOxS, S, S)
MX_PROP = fun("msox_prop", MsOxS, S, MsgPropS)
SRC_MSOX = fun("source_msox", MsOxS, SrcS)


def att_payload_truthy(a):
    p = z3.StringVal("payload")
    return z3.And(z3.Not(AD_NONE(a, p)), z3.Length(AD_STR(a, p)) > 0)


def att_bytes_contract(a):
    """ASSUMED contract of mailparser's attachment dict: how `payload`/`binary` represent the attachment's bytes.
    binary: payload is the base64 text of the bytes; otherwise payload is the text (str) whose UTF-8 encoding is the content,
    or the bytes themselves; no payload: empty content."""
    pay = AD_STR(a, z3.StringVal("payload"))
    t = att_payload_truthy(a)
    return z3.And(
        z3.Implies(z3.Not(t), z3.If(AD_BIN(a), ATT_BYTES(a) == B64D(EMPTY), ATT_BYTES(a) == EMPTY)),
        z3.Implies(z3.And(t, AD_BIN(a)), ATT_BYTES(a) == B64D(pay)),
        z3.Implies(z3.And(t, z3.Not(AD_BIN(a)), z3.Not(AD_ISB(a))), ATT_BYTES(a) == ENC_IGN(pay, z3.StringVal("utf-8"))),
        z3.Implies(z3.And(t, z3.Not(AD_BIN(a)), AD_ISB(a)), ATT_BYTES(a) == pay))


def codec_known_term(cs_term):
    """KNOWN_CS with constants decided by the real codec registry (external-function CEGAR on concrete arguments)."""
    if z3.is_string_value(cs_term):
        try:
            codecs.lookup(cs_term.as_string())
            return z3.BoolVal(True)
        except LookupError:
            return z3.BoolVal(False)
    return KNOWN_CS(cs_term)


def text_of(payload_t, cs_none, cs_t):
    """Spec: text of a body part: decoded with the declared charset (utf-8 when none is declared or the declared one
    is unknown), undecodable bytes replaced -- never an error."""
    cs = z3.If(z3.Or(cs_none, z3.Length(cs_t) == 0), z3.StringVal("utf-8"), cs_t)
    return z3.If(KNOWN_CS(cs), DEC(payload_t, cs), DEC(payload_t, z3.StringVal("utf-8")))


# ------------------------------------------------------------------------ spec: header --
def dh_piece(s, k):
    """Decoded text of the k-th chunk of email.header.decode_header(s)."""
    cs = z3.If(z3.Or(DH_CS_NONE(s, k), z3.Length(DH_CS(s, k)) == 0), z3.StringVal("utf-8"), DH_CS(s, k))
    dec = z3.If(KNOWN_CS(cs), DEC(DH_PART(s, k), cs), DEC(DH_PART(s, k), z3.StringVal("utf-8")))
    return z3.If(DH_ISB(s, k), dec, DH_PART(s, k))


DHVF = fun("decoded_header", S, S)    # the decoded text of a non-empty header value: ''.join(dh_piece(s, k) for k < DH_N(s));
                                      # that this is what decode_header_value returns is its verified postcondition


UNFOLD = fun("rfc5322_unfold", S, S)   # RFC 5322 2.2.3: every line break that is followed by a space or tab removed
RESUB = fun("re_sub", S, S, S, S)      # re.sub(pattern, repl, s) for any other pattern (PY-RE: total, uninterpreted)
UNFOLD_TABLE = ["", "a", "a b", "a\n b", "a\r\n\tb", "a\n b\n  c", "a\nb", "\n a", "a\n", "a \n", "a\r\n b\r\n", "x\r b", "a\n\n b", "a\r\n\r\n\tb", "\t\n "]


def ref_unfold(s_):
    out, i = [], 0
    while i < len(s_):
        if s_[i] == "\n" and i + 1 < len(s_) and s_[i + 1] in " \t":
            i += 1
            continue
        if s_[i] == "\r" and s_[i + 1:i + 2] == "\n" and i + 2 < len(s_) and s_[i + 2] in " \t":
            i += 2
            continue
        out.append(s_[i])
        i += 1
    return "".join(out)


_UNFOLD_PATS = {}


def is_unfold_pattern(pat, repl):
    """Bounded check (table UNFOLD_TABLE, real `re`): re.sub(pat, repl, s) unfolds s.  Listed in BOUNDED."""
    import re
    key = (pat, repl)
    if key not in _UNFOLD_PATS:
        try:
            rx = re.compile(pat)
            _UNFOLD_PATS[key] = all(rx.sub(repl, x) == ref_unfold(x) for x in UNFOLD_TABLE)
        except re.error:
            _UNFOLD_PATS[key] = False
    return _UNFOLD_PATS[key]


def dhv_term(none, s):
    """Spec of decode_header_value: '' for a missing/empty header, else the decoded text of the UNFOLDED value."""
    return z3.If(z3.Or(none, z3.Length(s) == 0), EMPTY, DHVF(UNFOLD(s)))


def dhv(v):
    n, t = opt_parts(v)
    return dhv_term(n, t)


# ------------------------------------------------------------------- spec: address list --
CNT_GA = fun("cnt_addresses", S, I, I)     # number of entries of getaddresses(s)[:i] that carry an address


def cnt_ga_def(s, j):
    return CNT_GA(s, j) == z3.If(j <= 0, 0, CNT_GA(s, j - 1) + z3.If(z3.Length(GA_ADDR(s, j - 1)) > 0, 1, 0))


# the specified address list of a header value (entries with an address, names decoded), as an abstract sequence;
# related to getaddresses by the verified contract of parse_email_addresses
AL_N = fun("address_list_n", S, I)
AL_NAME = fun("address_list_name", S, I, S)
AL_ADDR = fun("address_list_addr", S, I, S)


def al_facts(s):
    """What the verified contract of parse_email_addresses says about AL_*(s) (assumed at call sites)."""
    k = z3.Int("k!al")
    u = UNFOLD(s)            # the header value is unfolded before it is parsed into addresses
    n = GA_N(u)
    return z3.And(
        AL_N(s) == CNT_GA(u, n), AL_N(s) >= 0,
        z3.ForAll([k], z3.Implies(z3.And(k >= 0, k < n, z3.Length(GA_ADDR(u, k)) > 0),
                                  z3.And(AL_NAME(s, CNT_GA(u, k)) == dhv_term(z3.BoolVal(False), GA_NAME(u, k)),
                                         AL_ADDR(s, CNT_GA(u, k)) == GA_ADDR(u, k))), patterns=[GA_ADDR(u, k)]))


# ---------------------------------------------------------------------- spec: mbox split --
def piece(P, D, k):
    """Bytes between separator k and the next one (or the end of the data), end-of-line stripped."""
    end = z3.If(k + 1 < M_N(P, D), M_START(P, D, k + 1), z3.Length(D))
    return RSTRIP_EOL(z3.SubString(D, M_END(P, D, k), end - M_END(P, D, k)))


CNT_SP = fun("cnt_pieces", PatS, S, I, I)   # number of non-empty pieces among the first i (defined by cnt_sp_def)


def cnt_sp_def(P, D, j):
    """Instance at j of the definition of CNT_SP by primitive recursion (conservative: a definitional equation of a symbol
    that is constrained by nothing else).  Instances are supplied where an invariant is assumed (ConjA)."""
    return CNT_SP(P, D, j) == z3.If(j <= 0, 0, CNT_SP(P, D, j - 1) + z3.If(z3.Length(piece(P, D, j - 1)) > 0, 1, 0))



def match_axioms(P, D):
    """ASSUMED contract of re.finditer: matches are inside the data, non-empty (the pattern ends with a newline), ordered
    and non-overlapping."""
    k = z3.Int("k!ma")
    n = M_N(P, D)
    return z3.And(n >= 0, z3.ForAll([k], z3.Implies(z3.And(k >= 0, k < n), z3.And(
        M_START(P, D, k) >= 0, M_START(P, D, k) < M_END(P, D, k), M_END(P, D, k) <= z3.Length(D),
        z3.Implies(k + 1 < n, M_END(P, D, k) <= M_START(P, D, k + 1)))), patterns=[M_END(P, D, k)]))


# -------------------------------------------------------------- spec: bodies of a message --
def is_att(p):
    """A part is an attachment when its disposition type (RFC 2183, case-insensitive) is `attachment`."""
    return z3.And(z3.Not(CD_NONE(p)), CDISP(p) == z3.StringVal("attachment"))


def part_text(p):
    return text_of(PAY(p), CS_NONE(p), CS(p))


def has_payload(p):
    return z3.And(z3.Not(PAY_NONE(p)), z3.Length(PAY(p)) > 0)


def cand(m, k, ctype):
    """Text contributed by walk()[k] as the `ctype` body: the part's text when it is a non-attachment part of that
    content type with content, else ''."""
    p = W_AT(m, k)
    return z3.If(z3.And(z3.Not(is_att(p)), CT(p) == z3.StringVal(ctype), has_payload(p)), part_text(p), EMPTY)


FIRST_P = fun("first_plain", MsgS, I, S)    # text of the first text/plain body part with content among walk()[:i]
FIRST_H = fun("first_html", MsgS, I, S)


def first_def(m, j):
    """Instance at j of the definitions of FIRST_P / FIRST_H by primitive recursion over the walk() prefix."""
    return z3.And(
        FIRST_P(m, j) == z3.If(j <= 0, EMPTY, z3.If(z3.Length(FIRST_P(m, j - 1)) > 0, FIRST_P(m, j - 1), cand(m, j - 1, "text/plain"))),
        FIRST_H(m, j) == z3.If(j <= 0, EMPTY, z3.If(z3.Length(FIRST_H(m, j - 1)) > 0, FIRST_H(m, j - 1), cand(m, j - 1, "text/html"))))



def body_plain_spec(m):
    single = z3.If(z3.And(has_payload(m), CT(m) != z3.StringVal("text/html")), part_text(m), EMPTY)
    return z3.If(IS_MP(m), FIRST_P(m, W_N(m)), single)


def body_html_spec(m):
    single = z3.If(z3.And(has_payload(m), CT(m) == z3.StringVal("text/html")), part_text(m), EMPTY)
    return z3.If(IS_MP(m), FIRST_H(m, W_N(m)), single)


# number of attachment parts of a message (for "every attachment"): abstract, >= 0
ATT_N = fun("msg_attachment_count", MsgS, I)


def hdr_opt(m, name):
    return VOpt(z3.Not(HAS(m, z3.StringVal(name.lower()))), VStr(HDR(m, z3.StringVal(name.lower()))))


def date_spec(m):
    d = dhv(hdr_opt(m, "Date"))
    return z3.If(DATE_OK(d), ISO(PDATE(d)), EMPTY)


# --------------------------------------------------------------------------- the executor --
class MailExecutor(UnitsExecutor):
    SCHEMA_PATCH = {"EmailAttachment": {"data": ("obj", "BytesIO")}}

    def __init__(self, *a, **kw):
        super().__init__(*a, **kw)
        self._probing = 0
        self._probe_kinds = {}
        self._append_kinds = {}
        self._map_shapes = {}

    # ------------------------------------------------------------- plumbing --
    def add_vc(self, kind, label, pc, goal, note="", loc=""):
        if self._probing:
            return
        if isinstance(goal, Conj):
            for (sub, t) in goal:
                self.add_vc(kind, f"{label}.{sub}" if label else sub, pc, t, note, loc)
            return
        if isinstance(goal, Unk):
            note, goal = "UNKNOWN-SHAPE " + goal.why, z3.BoolVal(False)
        super().add_vc(kind, label, pc, goal, note, loc)

    def _b(self, x):
        if isinstance(x, Unk):
            return z3.BoolVal(True)
        return super()._b(x)

    def apply_contract(self, st, c, args, kwargs, node):
        # an Optional argument that the path condition shows to be present is handed over as the value itself
        args = [self.unwrap(st, a) for a in args]
        kwargs = {k: self.unwrap(st, v) for k, v in kwargs.items()}
        try:
            try:
                return super().apply_contract(st.fork() if any(isinstance(a, VOpt) for a in list(args) + list(kwargs.values())) else st, c, args, kwargs, node)
            except (AttributeError, TypeError, KeyError, IndexError, z3.Z3Exception):
                # an Optional value (present or not, undecided on this path) handed to a contract written over None | value:
                # the two cases are taken separately
                k = next((i for i, a in enumerate(args) if isinstance(a, VOpt)), None)
                kw = next((n_ for n_, a in kwargs.items() if isinstance(a, VOpt)), None) if k is None else None
                if k is None and kw is None:
                    raise
                a = args[k] if k is not None else kwargs[kw]
                out = []
                for cond, val in ((a.none, NONE), (z3.Not(a.none), a.val)):
                    s2 = st.fork().assume(cond)
                    args2 = [val if i == k else x for i, x in enumerate(args)]
                    kwargs2 = {n_: (val if n_ == kw else x) for n_, x in kwargs.items()}
                    out.extend(self.apply_contract(s2, c, args2, kwargs2, node))
                return out
        except (AttributeError, TypeError, KeyError, IndexError, z3.Z3Exception) as e:
            # a clause of the callee's contract is not applicable to the values the (changed) code passes: unrecognised shape
            raise Unsupported(f"{self.loc(node)} contract of {c.target.split('::')[-1]} not applicable here: {type(e).__name__}: {e}"[:300])

    def _listlike(self, st, v):
        """(length, elem, kind) of a list value that takes part in a symbolic concatenation, or None"""
        if isinstance(v, VRef) and st.obj(v.ref).kind == "alist":
            d = st.obj(v.ref).data
            return d.length, d.elem, d.ekind
        if isinstance(v, VSeq):
            return v.length, v.elem, v.ekind
        items = self.concrete_items(st, v) if isinstance(v, (VRef, VTuple)) else None
        if items is not None and (not isinstance(v, VRef) or st.obj(v.ref).kind == "list"):
            kinds = {repr(X.ekind_of_value(x)) for x in items}
            kind = X.ekind_of_value(items[0]) if len(kinds) == 1 else "unk"
            return z3.IntVal(len(items)), (lambda k, items=items: X._sel(items, k)), kind
        return None

    def e_List(self, n, st):
        """(round 6) a list display with `*xs` of a symbolic sequence: the concatenation of its segments"""
        if not any(isinstance(e, ast.Starred) for e in n.elts):
            return super().e_List(n, st)
        try:
            return super().e_List(n, st)
        except Unsupported as e:
            if "starred of symbolic iterable" not in str(e):
                raise
        segs, cur = [], []
        for e in n.elts:
            if isinstance(e, ast.Starred):
                if cur:
                    segs.append(ast.List(elts=cur, ctx=ast.Load()))
                    cur = []
                segs.append(e.value)
            else:
                cur.append(e)
        if cur:
            segs.append(ast.List(elts=cur, ctx=ast.Load()))
        acc = [(st, None)]
        for seg in segs:
            nxt = []
            for (s, a) in acc:
                for (s2, v) in self.ev(ast.copy_location(seg, n) if not hasattr(seg, "lineno") else seg, s):
                    if self._listlike(s2, v) is None:
                        raise Unsupported(f"{self.loc(n)} starred of something that is not a list")
                    if a is None:
                        n1, e1, k1 = self._listlike(s2, v)
                        nxt.append((s2, self.new_alist(s2, VSeq(n1, e1, k1))))
                    else:
                        nxt.extend(self.binop(s2, "Add", a, v, n))
            acc = nxt
        return acc

    def b_zip(self, st, args, kwargs, node):
        args = [st.obj(a.ref).data if isinstance(a, VRef) and st.obj(a.ref).kind == "alist" else a for a in args]
        return super().b_zip(st, args, kwargs, node)

    def binop(self, st, op, a, b, node, inplace=False):
        if op == "Add" and not inplace and (isinstance(a, VSeq) or isinstance(b, VSeq) or any(
                isinstance(x, VRef) and st.obj(x.ref).kind == "alist" for x in (a, b))):
            la, lb = self._listlike(st, a), self._listlike(st, b)
            if la is not None and lb is not None:
                (n1, e1, k1), (n2, e2, k2) = la, lb
                kind = k1 if k1 == k2 or z3.is_int_value(z3.simplify(n2)) and z3.simplify(n2).as_long() == 0 else (k2 if z3.is_int_value(z3.simplify(n1)) and z3.simplify(n1).as_long() == 0 else None)
                if kind is None or kind == "unk":
                    raise Unsupported(f"{self.loc(node)} concatenation of lists of different element kinds")
                sq = VSeq(z3.simplify(n1 + n2), lambda k: X._ite_val(k < n1, e1(k), e2(k - n1)), kind)
                return [(st, self.new_alist(st, sq))]
        if isinstance(a, VOpt) or isinstance(b, VOpt):
            for x in (a, b):
                if isinstance(x, VOpt):
                    st = self.fork_raise(st, x.none, "TypeError")
                    if st is None:
                        return []
            a = a.val if isinstance(a, VOpt) else a
            b = b.val if isinstance(b, VOpt) else b
        return super().binop(st, op, a, b, node, inplace)

    def sub_executor(self, module):
        sub = super().sub_executor(module)
        sub._probing, sub._probe_kinds, sub._append_kinds = self._probing, self._probe_kinds, self._append_kinds
        sub._map_shapes = self._map_shapes
        return sub

    def schema(self, cls):
        sch = super().schema(cls)
        if sch is not None and cls in self.SCHEMA_PATCH:
            sch = dict(sch, **self.SCHEMA_PATCH[cls])
        return sch

    # ------------------------------------------------------------- optionals --
    def truth(self, st, v):
        if isinstance(v, VOpt):
            if not isinstance(v.val, VStr):
                return VBool(z3.Not(v.none))
            return VBool(z3.And(z3.Not(v.none), z3.Length(v.val.t) > 0))
        if isinstance(v, VRef) and st.obj(v.ref).kind == "alist":
            return VBool(st.obj(v.ref).data.length > 0)
        return super().truth(st, v)

    def compare(self, st, op, a, b, node):
        if isinstance(a, VOpt) or isinstance(b, VOpt):
            o, other = (a, b) if isinstance(a, VOpt) else (b, a)
            t = None
            if isinstance(other, VNoneT):
                if op in ("Is", "Eq"):
                    t = o.none
                elif op in ("IsNot", "NotEq"):
                    t = z3.Not(o.none)
            elif isinstance(other, VStr) and op in ("Eq", "NotEq"):
                e = z3.And(z3.Not(o.none), o.val.t == other.t)
                t = e if op == "Eq" else z3.Not(e)
            elif isinstance(other, VOpt) and op in ("Eq", "NotEq"):
                e = z3.Or(z3.And(o.none, other.none), z3.And(z3.Not(o.none), z3.Not(other.none), o.val.t == other.val.t))
                t = e if op == "Eq" else z3.Not(e)
            if t is None:
                raise Unsupported(f"{self.loc(node)} comparison {op} on an optional value")
            return [(st, VBool(t))]
        return super().compare(st, op, a, b, node)

    def contains(self, st, container, item, node):
        if isinstance(container, VRef) and st.obj(container.ref).kind == "amap" and isinstance(item, VStr):
            return [(st, VBool(self._smap_has(st.obj(container.ref), item)))]
        if isinstance(container, VOpt):
            st2 = self.fork_raise(st, container.none, "TypeError")
            if st2 is None:
                return []
            return super().contains(st2, container.val, item, node)
        return super().contains(st, container, item, node)

    def e_BoolOp(self, n, st):
        """`opt or <text>`: If(truthy(opt), opt, text) without forking when <text> is an effect-free str/bytes expression (a literal,
        a module constant, ...); otherwise the generic evaluation, with Optional results unwrapped where the path shows them present."""
        if isinstance(n.op, ast.Or) and len(n.values) == 2:
            firsts = self.ev(n.values[0], st.fork())
            if len(firsts) == 1 and isinstance(firsts[0][1], (VOpt, VStr)) and not (isinstance(firsts[0][1], VOpt) and not isinstance(firsts[0][1].val, VStr)):
                (s, v) = self.ev(n.values[0], st)[0]
                mark = len(self.sinks[-1])
                s_rest = s.fork()
                rest = self.ev(n.values[1], s_rest)
                if len(rest) == 1 and len(self.sinks[-1]) == mark and self._same_effects(rest[0][0], s_rest, s) and isinstance(rest[0][1], (VStr, VBytes)):
                    o = rest[0][1]
                    t = self.truth(s, v).t
                    vt = v.val.t if isinstance(v, VOpt) else v.t
                    inner = v.val if isinstance(v, VOpt) else v
                    term = z3.If(t, vt, bytes_term(o))
                    if isinstance(inner, VDyn) or isinstance(o, (VBytes, VDyn)):
                        isb_v = inner.isb if isinstance(inner, VDyn) else z3.BoolVal(False)
                        isb_o = o.isb if isinstance(o, VDyn) else z3.BoolVal(isinstance(o, VBytes))
                        return [(s, VDyn(term, z3.If(t, isb_v, isb_o)))]
                    return [(s, VStr(term))]
                del self.sinks[-1][mark:]
                return [(s2, self.unwrap(s2, r)) for (s2, r) in self._boolop_from(n, s, v)]
        return [(s2, self.unwrap(s2, r)) for (s2, r) in super().e_BoolOp(n, st)]

    def _boolop_from(self, n, s, v):
        """generic `v or <second>` once the first operand has been evaluated to v in state s"""
        t = self.truth(s, v)
        c = t.const()
        if c is True:
            return [(s, v)]
        if c is False:
            return self.ev(n.values[1], s)
        out = []
        s_rest = s.fork().assume(z3.Not(t.t))
        if self.feasible(s_rest.pc):
            out.extend(self.ev(n.values[1], s_rest))
        stay = s.assume(t.t)
        if self.feasible(stay.pc):
            out.append((stay, v))
        return out

    def to_str(self, st, v, formatted=False):
        if isinstance(v, VOpt):
            if not isinstance(v.val, VStr):
                if not self.abstract:
                    st.assume(z3.Bool(f"__havoc__@str() of an optional {type(v.val).__name__}"))
                return VStr(z3.String(fresh_name("str")))
            return VStr(z3.If(v.none, z3.StringVal("None"), v.val.t))
        return super().to_str(st, v, formatted)

    def format_template(self, st, template, args, kwargs):
        """str.format / %-formatting with an Optional text argument: rendered like an f-string renders it ('None' or the text)"""
        conv = lambda v: self.to_str(st, v) if isinstance(v, VOpt) and isinstance(v.val, VStr) else v
        return super().format_template(st, template, [conv(a) for a in args], {k: conv(v) for k, v in (kwargs or {}).items()})

    def percent_template(self, st, template, arg):
        conv = lambda v: self.to_str(st, v) if isinstance(v, VOpt) and isinstance(v.val, VStr) else v
        arg = VTuple([conv(x) for x in arg.items]) if isinstance(arg, VTuple) else conv(arg)
        return super().percent_template(st, template, arg)

    def b_isinstance(self, st, args, kwargs, node):
        v, t = args
        types = [x.name for x in (t.items if isinstance(t, VTuple) else [t]) if isinstance(x, VType)]
        if isinstance(v, VOpt):
            inner = v.val
            if isinstance(inner, VDyn):
                r = z3.Or(([inner.isb] if "bytes" in types else []) + ([z3.Not(inner.isb)] if "str" in types else []) + [z3.BoolVal(False)])
            else:
                r = z3.BoolVal("str" in types)
            return [(st, VBool(z3.And(z3.Not(v.none), r)))]
        if isinstance(v, VDyn):
            return [(st, VBool(z3.Or(([v.isb] if "bytes" in types else []) + ([z3.Not(v.isb)] if "str" in types else []) + [z3.BoolVal(False)])))]
        if isinstance(v, VSeq) or (isinstance(v, VRef) and st.obj(v.ref).kind == "alist"):
            return [(st, VBool("list" in types))]
        return super().b_isinstance(st, args, kwargs, node)

    def construct(self, st, t, args, kwargs, node):
        if t.name == "bool" and args and isinstance(args[0], VOpt) and isinstance(args[0].val, VBool):
            return [(st, VBool(z3.And(z3.Not(args[0].none), args[0].val.t)))]
        return super().construct(st, t, args, kwargs, node)

    # --------------------------------------------------------- str / bytes methods --
    def call_method(self, st, obj, name, args, kwargs, node):
        if isinstance(obj, VExt) and self.schema(obj.sort) is not None:
            mod = self.class_module(obj.sort)
            fn = self.find_method(mod, obj.sort, name) if mod is not None else None
            if fn is not None and any(ast.unparse(d) in ("staticmethod", "classmethod") for d in fn.decorator_list) \
                    and self.reg.get(f"{mod.rel}::{obj.sort}.{name}") is None and (obj.sort, name) not in self.OPAQUE:
                is_cls = any(ast.unparse(d) == "classmethod" for d in fn.decorator_list)
                env = self.bind_params(fn, args, kwargs, node, self_val=VType(obj.sort) if is_cls else None)
                return self.run_in(mod, st, fn, env)
        if isinstance(obj, VOpt):
            st2 = self.fork_raise(st, obj.none, "AttributeError")
            if st2 is None:
                return []
            return self.call_method(st2, obj.val, name, args, kwargs, node)
        if isinstance(obj, VBytes) and name in ("decode", "rstrip"):
            obj = VStr(bytes_term(obj))
        if isinstance(obj, (VStr, VDyn)) and name == "replace" and len(args) == 2 and not kwargs \
                and all(isinstance(a, (VStr, VBytes)) for a in args):
            # (round 6) x.replace(old, new) of a symbolic str / bytes: ASSUMED (CPython) -- total; the result is x itself iff old
            # does not occur in x or old == new.  What it is otherwise stays uninterpreted (a function of the three arguments).
            try:
                t, old, new = bytes_term(obj) if not isinstance(obj, VDyn) else obj.t, bytes_term(args[0]), bytes_term(args[1])
            except Unsupported:
                t = None
            if t is not None:
                r = REPLACE_ALL(t, old, new)
                st.assume(z3.And(z3.Implies(z3.Or(z3.Not(z3.Contains(t, old)), old == new), r == t),
                                 z3.Implies(z3.And(z3.Contains(t, old), old != new), r != t)))
                return [(st, VDyn(r, obj.isb) if isinstance(obj, VDyn) else VStr(r))]
        if type(obj) is VStr and name == "split" and not args and not kwargs and obj.const() is None:
            # (round 6) s.split() of a symbolic str: ASSUMED total; the list of white-space separated words, a function of s
            n = fun("str_wssplit_n", S, I)(obj.t)
            at = fun("str_wssplit_at", S, I, S)
            st.assume(n >= 0)
            return [(st, VSeq(n, lambda k, t=obj.t: VStr(at(t, k)), "str"))]
        if isinstance(obj, VStr):
            if name == "decode":
                return self.m_decode(st, obj, args, kwargs, node)
            if name == "encode":
                return self.m_encode(st, obj, args, kwargs, node)
            if name in ("strip", "lstrip", "rstrip") and len(args) == 1 and isinstance(args[0], VStr) and args[0].const() is not None:
                return [(st, VStr(fun(f"str_{name}_chars", S, S, S)(obj.t, args[0].t)))]
            if name in ("strip", "lstrip", "rstrip") and len(args) == 1 and isinstance(args[0], VBytes) and all(x.const() is not None for x in args[0].items):
                chars = bytes(x.const() for x in args[0].items)
                if name == "rstrip" and chars == b"\r\n":
                    return [(st, VStr(RSTRIP_EOL(obj.t)))]
                return [(st, VStr(fun(f"bytes_{name}_{chars.hex()}", S, S)(obj.t)))]
        return super().call_method(st, obj, name, args, kwargs, node)

    def str_slice(self, st, base, sl, node):
        """x[lo:hi] with bounds that the path condition places inside the string: plain SubString, no clamps."""
        if sl.step is None and sl.lower is not None and sl.upper is not None:
            mark = len(self.sinks[-1])
            rl, ru = self.ev(sl.lower, st.fork()), self.ev(sl.upper, st.fork())
            if len(rl) == 1 and len(ru) == 1 and isinstance(rl[0][1], VInt) and isinstance(ru[0][1], VInt) and len(self.sinks[-1]) == mark:
                lo, hi = ops.int_term(rl[0][1]), ops.int_term(ru[0][1])
                inside = z3.And(lo >= 0, lo <= hi, hi <= z3.Length(base.t))
                if not self.feasible(st.pc, z3.Not(inside)):
                    return [(st, VStr(z3.SubString(base.t, lo, hi - lo)))]
            del self.sinks[-1][mark:]
        return super().str_slice(st, base, sl, node)

    def m_decode(self, st, obj, args, kwargs, node):
        """bytes.decode(cs, errors=e): ASSUMED (CPython): LookupError iff the codec is unknown; with errors in
        {replace, ignore} nothing else is raised; strict decoding may also raise UnicodeDecodeError."""
        cs = args[0] if args else kwargs.get("encoding", VStr("utf-8"))
        errors = args[1] if len(args) > 1 else kwargs.get("errors")
        n, cst = opt_parts(cs)
        st = self.fork_raise(st, n, "TypeError")
        if st is None:
            return []
        st = self.fork_raise(st, z3.Not(codec_known_term(cst)), "LookupError")
        if st is None:
            return []
        mode = errors.const() if isinstance(errors, VStr) else None
        if mode in ("replace", "ignore"):
            f = DEC if mode == "replace" else fun("bytes_decode_ignore", S, S, S)
            return [(st, VStr(f(obj.t, cst)))]
        st = self.fork_raise(st, z3.Not(DEC_STRICT_OK(obj.t, cst)), "UnicodeDecodeError")
        if st is None:
            return []
        return [(st, VStr(fun("bytes_decode_strict", S, S, S)(obj.t, cst)))]

    def m_encode(self, st, obj, args, kwargs, node):
        cs = args[0] if args else kwargs.get("encoding", VStr("utf-8"))
        errors = args[1] if len(args) > 1 else kwargs.get("errors")
        n, cst = opt_parts(cs)
        st = self.fork_raise(st, z3.Not(codec_known_term(cst)), "LookupError")
        if st is None:
            return []
        mode = errors.const() if isinstance(errors, VStr) else None
        if mode in ("ignore", "replace"):
            f = ENC_IGN if mode == "ignore" else fun("str_encode_replace", S, S, S)
            return [(st, VDyn(f(obj.t, cst), True))]
        st = self.fork_raise(st, z3.Not(fun("str_encode_strict_ok", S, S, B)(obj.t, cst)), "UnicodeEncodeError")
        if st is None:
            return []
        return [(st, VDyn(fun("str_encode_strict", S, S, S)(obj.t, cst), True))]

    # ------------------------------------------------------------- dataclasses --
    def construct_dataclass(self, st, name, fields, args, kwargs, node):
        res = super().construct_dataclass(st, name, fields, args, kwargs, node)
        mod = self.class_module(name)
        fn = self.find_method(mod, name, "__post_init__") if mod is not None else None
        if fn is None:
            return res
        out = []
        for (s, obj) in res:
            for (s2, _v) in self.run_in(mod, s, fn, {"self": obj}):
                out.append((s2, obj))
        return out

    def freeze(self, st, v):
        e = super().freeze(st, v)
        if e is not v and isinstance(v, VRef) and isinstance(e, VExt):
            o = st.obj(v.ref)
            for f, kind in (self.schema(o.cls) or {}).items():
                cur = o.data.get(f)
                if isinstance(cur, VOpt):
                    cur = self.unwrap(st, cur)
                    if isinstance(cur, VStr) and kind == "str":
                        st.assume(fld(o.cls, f, S)(e.t) == cur.t)
                if isinstance(kind, tuple) and kind[0] == "obj" and isinstance(cur, VExt) and cur.sort == kind[1]:
                    st.assume(fld(o.cls, f, ext_sort(kind[1]))(e.t) == cur.t)
        return e

    def unwrap(self, st, v):
        if isinstance(v, VOpt) and not self.feasible(st.pc, v.none):
            return v.val
        return v

    # ---------------------------------------------------------- probing of appends --
    def alist_method(self, st, obj, name, args, kwargs, node):
        if name == "append" and self._probing:
            vk = X.ekind_of_value(self.freeze(st.fork(), args[0]) if isinstance(args[0], VRef) else args[0])
            old = self._probe_kinds.get(obj.ref)
            self._probe_kinds[obj.ref] = vk if old in (None, vk) else "unk"
        if name == "extend" and self._probing and args:
            # (round 7) `xs.extend(<symbolic sequence>)`: the element kind of the sequence is the kind of what the loop adds
            src = args[0]
            if isinstance(src, VRef) and st.obj(src.ref).kind == "alist":
                src = st.obj(src.ref).data
            if isinstance(src, VSeq):
                vk = src.ekind
                old = self._probe_kinds.get(obj.ref)
                self._probe_kinds[obj.ref] = vk if old in (None, vk) else "unk"
        return super().alist_method(st, obj, name, args, kwargs, node)

    def probe_kinds(self, s, st, it):
        """Run the loop body once on a scratch state to learn the element kinds of the lists it appends to."""
        view = self.seq_view(st, it)
        if view is None:
            return {}
        n, elem = view
        self._probing += 1
        saved_paths, saved_sites = self.paths, len(self.exc_any_sites)
        self._probe_kinds = {}
        self.sinks.append([])
        try:
            body_st = st.fork()
            super().havoc_loop_state(body_st, s.body, None)
            i = z3.Int(fresh_name("i!probe"))
            body_st.assume(z3.And(i >= 0, i < n))
            for s3 in self.assign(s.target, elem(i), body_st):
                self.exec_block(s.body, s3)
        except Unsupported:
            pass
        finally:
            self.sinks.pop()
            self._probing -= 1
            self.paths = saved_paths
            del self.exc_any_sites[saved_sites:]
        kinds, self._probe_kinds = self._probe_kinds, {}
        return kinds

    def loop_spec(self, node):
        """A contract may give ONE invariant for whatever loops the body has (`loops={"*": LoopSpec(inv=..)}`): the invariant
        decides from the sequence the loop walks what it has to say, so adding, removing or reordering loops re-verifies.  The
        label (part of the obligation ids) is the last name of the iterated expression (`for a in mail.attachments` -> attachments)."""
        spec = super().loop_spec(node)
        # (round 6) the wildcard invariant is content-based (it reads the walked sequence, not the function's locals), so it also
        # applies to loops of private helpers of the same module that are executed in place (`extract method` of a stage)
        inlined_local = self.inline_depth > 0 and self.cur_fn_stack and not isinstance(self.cur_fn_stack[-1], ast.Lambda) \
            and any(self.cur_fn_stack[-1] is f for f in self.module.functions.values())
        if spec is None and self.contract is not None and (self.inline_depth == 0 or inlined_local) and "*" in self.contract.loops:
            from pyvc.contracts import LoopSpec
            e = node.iter if isinstance(node, ast.For) else None
            while isinstance(e, ast.Call) and e.args:
                e = e.args[0]
            label = e.attr if isinstance(e, ast.Attribute) else (e.id if isinstance(e, ast.Name) else "loop")
            wild = self.contract.loops["*"]
            spec = LoopSpec(inv=wild.inv, label=label)
        if spec is not None and spec.inv is not None and not getattr(spec.inv, "_records_checked", False):
            import dataclasses
            inner = spec.inv

            def inv(lc, inner=inner):
                self.check_records(lc)
                return inner(lc)
            inv._records_checked = True
            spec = dataclasses.replace(spec, inv=inv)
        return spec

    def symbolic_for(self, s, st, it):
        self._loop_nodes = getattr(self, "_loop_nodes", []) + [s]
        try:
            return self._symbolic_for(s, st, it)
        finally:
            self._loop_nodes = self._loop_nodes[:-1]

    def _symbolic_for(self, s, st, it):
        if not self._probing:
            builds = any((isinstance(n, ast.Call) and isinstance(n.func, ast.Attribute) and n.func.attr in ("append", "extend"))
                         or (isinstance(n, ast.Subscript) and isinstance(n.ctx, ast.Store))
                         for b in s.body for n in ast.walk(b))
            self._map_shapes = {}
            self._append_kinds = self.probe_kinds(s, st, it) if builds else {}
            spec = self.loop_spec(s)
            if (spec is None or (spec.inv is None and spec.inv_point is None)) and self.seq_view(st, it) is not None \
                    and (builds or self.assigned_names(s.body)):
                # (round 6) a symbolic loop cut with invariant `True`: whatever the loop assigns / builds is arbitrary afterwards.
                # That is an over-approximation, not a fact about the code -- a VC refuted on this path is `unknown` (the native
                # replayer decides), like after an unmodelled call.
                self.tag_havoc(st, "loop cut without invariant", s)
        return super().symbolic_for(s, st, it)

    # --------------------------------------------------- maps with symbolic STRING keys --
    # (e.g. a per-call cache `d[attachment.mime_type] = extractor`).  Kept as an `amap` heap object with two more entries:
    # `present_s` : Array(String, Bool) and `comps`: one Array(String, String) per component of the stored values when every
    # store puts a tuple of n strings (an extractor (module, function)), else None (values unknown).  A symbolic loop havocs
    # the map to arbitrary content: nothing is known about what an earlier iteration stored unless an invariant says so.
    def _smap_fresh(self, shape):
        d = {"present_s": z3.Const(fresh_name("smap.has"), z3.ArraySort(S, B)), "shape": shape, "comps": None}
        if shape:
            d["comps"] = [z3.Const(fresh_name(f"smap.v{i}"), z3.ArraySort(S, S)) for i in range(shape)]
        return d

    @staticmethod
    def _shape_of(v):
        if isinstance(v, VTuple) and v.items and all(isinstance(x, VStr) for x in v.items):
            return len(v.items)
        return None

    def _smap_obj(self, st, base):
        """the amap data of `base` when it is (or can become) a map with string keys, else None"""
        if not isinstance(base, VRef):
            return None
        o = st.obj(base.ref)
        if o.kind == "amap":
            return o
        if o.kind == "dict" and o.data is not None and not o.data:
            return o
        return None

    def amap_havoc(self, st, ref, stored=None):
        old = st.heap[ref]
        had = old.data.get("shape") if old.kind == "amap" and isinstance(old.data, dict) else None
        super().amap_havoc(st, ref, stored)
        shape = self._map_shapes.get(ref, had)
        o = st.heap[ref]
        d = dict(o.data)
        d.update(self._smap_fresh(shape))
        st.heap[ref] = HeapObj("amap", d, None, o.fresh)

    # ------------------------------------------ dicts used as RECORDS (round 6) --
    # A dict with constant str keys and str values (`bodies = {"text/plain": "", "text/html": ""}`) that a loop updates through a
    # symbolic key which the path condition places among the keys (`if key not in d: continue`): the store updates every entry
    # by `If(key == k, v, old)`.  Across a symbolic loop WITH an invariant such a dict keeps its keys and gets arbitrary str
    # values; "the key set is unchanged" is then part of the invariant (checked in front of the pack's own invariant at every
    # preserve point: a body that adds / removes a key or stores something else leaves the verified subset).
    @staticmethod
    def _is_record(o):
        return o is not None and o.kind == "dict" and isinstance(o.data, dict) and o.data and \
            all(isinstance(k, str) for k in o.data) and all(type(x) is VStr for x in o.data.values())

    def _records_before_havoc(self, st, body, spec):
        records = {}
        if spec is not None and spec.inv is not None and not self._probing:
            for ref in self.mutated_refs(body, st):
                o = st.heap.get(ref)
                if self._is_record(o):
                    records[ref] = (o, list(o.data))
        return records

    def _records_after_havoc(self, st, records):
        for ref, (o, keys) in records.items():
            st.heap[ref] = HeapObj("dict", {k: VStr(z3.String(fresh_name(f"rec{ref}.{k}"))) for k in keys}, o.cls, False)
            st.ghost[("record", ref)] = tuple(keys)

    def check_records(self, lc):
        for key, keys in list(lc.st.ghost.items()):
            if isinstance(key, tuple) and len(key) == 2 and key[0] == "record":
                o = lc.st.heap.get(key[1])
                if not self._is_record(o) or tuple(o.data) != tuple(keys):
                    raise Unsupported("a dict kept as a record across the loop does not keep its keys / str values")
                if lc.extra.get("phase") == "exit":
                    del lc.st.ghost[key]

    def store_index(self, st, base, idx, v, node):
        if isinstance(base, VRef) and type(idx) is VStr and idx.const() is None and type(v) is VStr and self._is_record(st.obj(base.ref)):
            keys = list(st.obj(base.ref).data)
            if not self.feasible(st.pc, z3.And([idx.t != z3.StringVal(k) for k in keys])):
                w = st.wobj(base.ref)
                w.data = {k: VStr(z3.If(idx.t == z3.StringVal(k), v.t, old.t)) for k, old in w.data.items()}
                self.note_store(st, base.ref, node)
                return [st]
        o = self._smap_obj(st, base)
        if o is not None and isinstance(idx, (VStr, VOpt)) and not (isinstance(idx, VStr) and idx.const() is not None and o.kind == "dict"):
            key = self.unwrap(st, idx)
            if not isinstance(key, VStr):
                raise Unsupported(f"{self.loc(node)} map key may be None")
            shape = self._shape_of(v)
            if self._probing:
                old = self._map_shapes.get(base.ref, shape)
                self._map_shapes[base.ref] = shape if old == shape else None
            if o.kind == "dict":
                d = {"present": z3.K(I, z3.BoolVal(False)), "vkind": None, "present_s": z3.K(S, z3.BoolVal(False)), "shape": shape, "comps": None}
                if shape:
                    d["comps"] = [z3.K(S, EMPTY) for _ in range(shape)]
            else:
                d = dict(o.data)
                if "present_s" not in d:
                    d.update(self._smap_fresh(shape))
            d["present_s"] = z3.Store(d["present_s"], key.t, z3.BoolVal(True))
            if d.get("comps") is not None and shape == d.get("shape"):
                d["comps"] = [z3.Store(a, key.t, x.t) for a, x in zip(d["comps"], v.items)]
            else:
                d["comps"], d["shape"] = None, None
            self.note_store(st, base.ref, node)
            st.heap[base.ref] = HeapObj("amap", d, None, o.fresh)
            return [st]
        return super().store_index(st, base, idx, v, node)

    def _smap_read(self, st, o, key):
        d = o.data
        if d.get("comps") is not None:
            return VTuple([VStr(z3.Select(a, key.t)) for a in d["comps"]])
        return VUnk("map-value")

    def _smap_has(self, o, key):
        if o.kind == "dict" or "present_s" not in o.data:
            return z3.BoolVal(False)
        return z3.Select(o.data["present_s"], key.t)

    def amap_method(self, st, obj, name, args, kwargs, node):
        o = st.obj(obj.ref)
        if name == "get" and args and isinstance(args[0], (VStr, VOpt)):
            key = self.unwrap(st, args[0])
            if not isinstance(key, VStr):
                raise Unsupported(f"{self.loc(node)} map key may be None")
            default = args[1] if len(args) > 1 else NONE
            has = self._smap_has(o, key)
            out = []
            if self.feasible(st.pc, has):
                s2 = st.fork().assume(has)
                out.append((s2, self._smap_read(s2, o, key)))
            if self.feasible(st.pc, z3.Not(has)):
                out.append((st.assume(z3.Not(has)), default))
            return out
        return super().amap_method(st, obj, name, args, kwargs, node)

    def amap_lookup(self, st, base, idx, node):
        if isinstance(idx, VStr):
            o = st.obj(base.ref)
            st = self.fork_raise(st, z3.Not(self._smap_has(o, idx)), "KeyError")
            if st is None:
                return []
            return [(st, self._smap_read(st, o, idx))]
        return super().amap_lookup(st, base, idx, node)

    def dict_method(self, st, obj, mapping, name, args, kwargs, node, const):
        # TABLE.get(symbolic key) over a constant str->str table: Optional value without forking
        if const and name == "get" and len(args) == 1 and isinstance(args[0], VStr) and args[0].const() is None \
                and mapping and all(isinstance(k, str) and isinstance(v, VStr) and v.const() is not None for k, v in mapping.items()):
            key = args[0].t
            hit = z3.Or([key == z3.StringVal(k) for k in mapping])
            acc = EMPTY
            for k, v in reversed(list(mapping.items())):
                acc = z3.If(key == z3.StringVal(k), v.t, acc)
            return [(st, VOpt(z3.Not(hit), VStr(acc)))]
        return super().dict_method(st, obj, mapping, name, args, kwargs, node, const)

    def havoc_loop_state(self, st, body, spec, extra_names=()):
        if not self._probing:
            for ref, kind in self._append_kinds.items():
                o = st.heap.get(ref)
                if o is not None and o.kind == "list" and o.data == [] and kind != "unk":
                    st.heap[ref] = HeapObj("alist", _empty_seq(kind), None, o.fresh)
            if "dispatch" in st.ghost:
                st.ghost["dispatch"] = ()
        records = self._records_before_havoc(st, body, spec)
        super().havoc_loop_state(st, body, spec, extra_names)
        self._records_after_havoc(st, records)

    def y_havoc(self, st):
        super().y_havoc(st)
        n = z3.Int(fresh_name("YC.len"))
        st.assume(n >= 0)
        st.ghost["YC"] = (n, z3.Const(fresh_name("YC.src"), z3.ArraySort(I, SrcS)), z3.Const(fresh_name("YC.ok"), z3.ArraySort(I, B)))

    # ---------------------------------------------------------------- yields --
    def yc_get(self, st):
        y = st.ghost.get("YC")
        if y is None:
            y = (z3.IntVal(0), z3.Const(fresh_name("YC.src"), z3.ArraySort(I, SrcS)), z3.Const(fresh_name("YC.ok"), z3.ArraySort(I, B)))
            st.ghost["YC"] = y
        return y

    def e_Yield(self, n, st):
        if n.value is None:
            raise Unsupported(f"{self.loc(n)} bare yield")
        out = []
        for (s, v) in self.ev(n.value, st):
            s.yielded = s.yielded + [v]
            ln, src, ok = self.yc_get(s)
            m, intact = self.result_source(s, v)
            s.ghost["YC"] = (z3.simplify(ln + 1), z3.Store(src, ln, m), z3.Store(ok, ln, intact))
            out.append((s, NONE))
        return out

    def result_source(self, st, v):
        """(message term, Bool: the C16 fields of the object are still those the contract of its producer set)."""
        if isinstance(v, VRef):
            rec = st.ghost.get(("result_of", v.ref))
            if rec is not None:
                m, snap = rec
                same = all(_same_v(st, _path_get(st, v, path), x) for path, x in snap)
                return m, z3.BoolVal(bool(same))
        return z3.Const(fresh_name("unknown_src"), SrcS), z3.BoolVal(False)

    def e_YieldFrom(self, n, st):
        out = []
        for (s, v) in self.ev(n.value, st):
            items = self.concrete_items(s, v)
            if items is not None:
                s.yielded = s.yielded + items
            else:
                s.ghost["yield_count_unknown"] = True
            out.append((s, NONE))
        return out

    # ------------------------------------------------------------ dispatch (router) --
    def _map_as_genexp(self, n, st):
        """list(map(f, xs)) / tuple(map(f, xs)) with the builtins: the consumer exhausts the map object, so the call is the
        comprehension `list(f(x) for x in xs)` (same evaluation order, same exceptions).  Only this exact shape (one
        iterable, no keywords, `list` / `tuple` / `map` not rebound); a bare map object that escapes is NOT a list and stays
        unmodelled."""
        try:
            if not (isinstance(n.func, ast.Name) and n.func.id in ("list", "tuple") and len(n.args) == 1 and not n.keywords):
                return None
            m = n.args[0]
            if not (isinstance(m, ast.Call) and isinstance(m.func, ast.Name) and m.func.id == "map" and len(m.args) == 2 and not m.keywords
                    and not any(isinstance(a, ast.Starred) for a in m.args)):
                return None
            mod = self.module
            for name in (n.func.id, "map"):
                if st.lookup(name) is not None or name in mod.functions or name in mod.classes or name in mod.assigns or name in mod.imports:
                    return None
            var = "__map_item__"
            gen = ast.GeneratorExp(elt=ast.Call(func=m.args[0], args=[ast.Name(id=var, ctx=ast.Load())], keywords=[]),
                                   generators=[ast.comprehension(target=ast.Name(id=var, ctx=ast.Store()), iter=m.args[1], ifs=[], is_async=0)])
            new = ast.Call(func=n.func, args=[gen], keywords=[])
            for x in ast.walk(new):
                if not hasattr(x, "lineno"):
                    ast.copy_location(x, m)
            ast.copy_location(new, n)
            return new
        except Exception:  # noqa  (not this shape)
            return None

    def e_Call(self, n, st):
        """f(..., **d) with d a dict of concrete string keys: the entries are passed as keyword arguments"""
        g = self._map_as_genexp(n, st)
        if g is not None:
            return self.ev(g, st)
        if not any(k.arg is None for k in n.keywords) or self.is_logger_call(n):
            return super().e_Call(n, st)
        out = []
        for (s, f) in self.ev(n.func, st):
            for (s2, args) in self.ev_list(n.args, s):
                for (s3, kwvals) in self.ev_list([k.value for k in n.keywords], s2):
                    kwargs = {}
                    for k, v in zip(n.keywords, kwvals):
                        if k.arg is not None:
                            kwargs[k.arg] = v
                            continue
                        d = s3.obj(v.ref).data if isinstance(v, VRef) and s3.obj(v.ref).kind == "dict" else (v.items if isinstance(v, VDictC) else None)
                        if d is None or not all(isinstance(key, str) for key in d):
                            raise Unsupported(f"{self.loc(n)} ** of something that is not a dict with constant str keys")
                        kwargs.update(d)
                    out.extend(self.call(s3, f, args, kwargs, n))
        return out

    # modules whose private helpers without a contract are SUMMARISED (not executed): a deterministic function of the arguments,
    # result kind from the return annotation; which helper it is does not matter to the clauses that read the result (they look
    # at the arguments and at "same helper for every field"), so renaming / re-implementing a helper re-verifies
    SUMMARISE = (MSG,)

    def summarise_call(self, st, f, args, kwargs, node):
        from pyvc import loader as _l
        reg_c = self.reg.get(f"{f.a}::{f.b}")
        # (round 7) a contract may be verified under a precondition its call sites do not establish (`_parse_multi_recipients` is
        # verified for a str, the message properties may be lists): such a contract sets `summary_at_call_sites` and its callers keep
        # the summarised view -- a deterministic function of the arguments, which any contract of a deterministic body implies
        if reg_c is not None and not getattr(reg_c, "summary_at_call_sites", False):
            return None
        if reg_c is not None and self.contract is reg_c:
            return None                 # the function's own recursive calls are not summarised
        if f.a not in self.SUMMARISE or "." in f.b or not f.b.startswith("_") or kwargs:
            return None
        fnode = _l.module(f.a, self.module.repo).functions.get(f.b)
        if fnode is None or fnode.returns is None:
            return None
        terms, sorts = [], []
        for a in args:
            if isinstance(a, VOpt) and isinstance(a.val, VStr):
                terms += [a.none, a.val.t]
                sorts += [B, S]
            elif isinstance(a, (VStr, VExt)):
                terms.append(a.t)
                sorts.append(a.t.sort())
            else:
                return None
        ann = ast.unparse(fnode.returns)
        name = f"helper:{f.b}"
        self.exc_any(st.fork(), f"{self.loc(node)} helper {f.b}")
        if ann == "str":
            return [(st, VStr(z3.Function(name, *sorts, S)(*terms)))]
        if ann == "bool":
            return [(st, VBool(z3.Function(name, *sorts, B)(*terms)))]
        m = __import__("re").fullmatch(r"(?:list|List)\[(\w+)\]", ann)
        if m and self.schema(m.group(1)) is not None:
            cls = m.group(1)
            n = z3.Function(name + ".len", *sorts, I)(*terms)
            at = z3.Function(name + ".at", *sorts, I, ext_sort(cls))
            st.assume(n >= 0)
            return [(st, VSeq(n, lambda k: VExt(cls, at(*terms, k)), ("obj", cls), tag=("helper", f.b, tuple(terms), tuple(sorts))))]
        return None

    def call(self, st, f, args, kwargs, node):
        if isinstance(f, VFunc) and f.how == "repo":
            r = self.summarise_call(st, f, args, kwargs, node)
            if r is not None:
                return r
        if isinstance(f, VUnk) and any(isinstance(a, VExt) and a.sort == "BytesIO" for a in args):
            # an unknown callable is handed an attachment stream: recorded as a dispatch to an unknown extractor
            f = VTuple([VStr(z3.String(fresh_name("unknown_module"))), VStr(z3.String(fresh_name("unknown_function")))])
        if isinstance(f, VTuple) and len(f.items) == 2 and all(isinstance(x, VStr) for x in f.items):
            pos = tuple((a, st.ghost.get(("pos", a.t.get_id()))) for a in args if isinstance(a, VExt) and a.sort == "BytesIO")
            st.ghost["dispatch"] = st.ghost.get("dispatch", ()) + ((f, tuple(args), pos),)
            for a in args:      # the extractor reads the stream: position unknown afterwards, on every outcome
                if isinstance(a, VExt) and a.sort == "BytesIO":
                    t = z3.Int(fresh_name("pos"))
                    st.assume(t >= 0)
                    st.ghost[("pos", a.t.get_id())] = t
            self.exc_any(st.fork(), f"{self.loc(node)} extractor call")
            return [(st, VUnk("results"))]
        return super().call(st, f, args, kwargs, node)

    def b_reversed(self, st, args, kwargs, node):
        v = args[0]
        if isinstance(v, VRef) and st.obj(v.ref).kind == "alist":
            v = st.obj(v.ref).data
        if isinstance(v, VSeq):
            n, el = v.length, v.elem
            return [(st, VSeq(n, lambda k: el(n - 1 - k), v.ekind))]
        return super().b_reversed(st, args, kwargs, node)

    def b_getattr(self, st, args, kwargs, node):
        a0 = args[0]
        if isinstance(a0, VTuple) and len(a0.items) == 2 and isinstance(a0.items[0], VStr) and a0.items[0].const() == "<module>":
            return [(st, VTuple([a0.items[1], args[1]]))]
        return super().b_getattr(st, args, kwargs, node)

    # -------------------------------------------------------------- comprehensions --
    def _sym_comp(self, n, st, elt_nodes):
        """Comprehension / generator expression over a symbolic sequence -> VSeq (None: not symbolic, generic code applies).
        The target / filter / element are evaluated at a symbolic index J on a scratch copy of the state.  The element may fork
        (conditional expressions, helpers with try/except): the outcomes are merged into one If-value.  Path conditions that a
        single-outcome evaluation adds (facts assumed by library models / callee contracts about index J) are kept as facts
        quantified over the index range."""
        view = self._probe_iter(n, st)
        if view is None:
            return None
        if len(elt_nodes) != 1:
            raise Unsupported(f"{self.loc(n)} multi-valued comprehension over a symbolic sequence")
        g = n.generators[0]
        (st, _it) = self.ev(g.iter, st)[0]
        length, elem = view
        snap = st.fork()

        def is_tag(t):
            return z3.is_const(t) and t.decl().kind() == z3.Z3_OP_UNINTERPRETED and str(t).startswith("__havoc__@")

        def outcomes(k, raising=False):
            """-> (keep Bool term, [facts of the filter], [(conditions, value, state)])"""
            s = snap.fork()
            if raising:
                s.assume(z3.And(k >= 0, k < length))
            s.frames.append(Frame({}, len(s.frames) - 1, s.frame.fnode))
            npc = len(s.pc)
            self.sinks.append([])
            try:
                cur = self.assign(g.target, elem(k), s)
                if len(cur) != 1:
                    raise Unsupported(f"{self.loc(n)} forking comprehension target")
                s1 = cur[0]
                keep = []
                for cond in g.ifs:
                    r = self.ev(cond, s1)
                    if len(r) != 1:
                        raise Unsupported(f"{self.loc(n)} forking comprehension condition")
                    s1, cv = r[0]
                    keep.append(self.truth(s1, cv).t)
                pre = list(s1.pc[npc:])
                keep_t = z3.And(keep + [z3.BoolVal(True)])
                if keep:
                    s1.assume(keep_t)          # the element is evaluated only for kept items
                npc2 = len(s1.pc)
                res = [(list(s3.pc[npc2:]), v, s3) for (s3, v) in self.ev(elt_nodes[0], s1)]
            finally:
                sink = self.sinks.pop()
            if raising:
                for (es, exc) in sink:       # an element that raises for some index in range is an exceptional path of the comprehension
                    es.frames.pop()
                    self.raise_in(es, exc)
            if not res:
                raise Unsupported(f"{self.loc(n)} comprehension element has no normal outcome")
            return keep_t, pre, res

        def scalar(v, s3):
            return isinstance(v, (VStr, VInt, VBool, VExt)) and not isinstance(v, VDyn) or isinstance(v, VDyn)

        def merge(res, pick):
            """If-chain over the outcomes' conditions of pick(value, state) (a V of mergeable kind)"""
            acc = pick(res[-1][1], res[-1][2])
            for conds, v, s3 in reversed(res[:-1]):
                c = z3.And([c_ for c_ in conds if not is_tag(c_)] + [z3.BoolVal(True)])
                m = ops.same_shape_ite(c, pick(v, s3), acc)
                if m is None:
                    raise Unsupported(f"{self.loc(n)} comprehension element outcomes of different kinds")
                acc = m
            return acc

        J = z3.Int(fresh_name("j!comp"))
        in_range = z3.And(J >= 0, J < length)
        from pyvc import values as _values
        first_fresh = next(_values._fresh)
        keepJ, preJ, resJ = outcomes(J, raising=True)
        sk_cache = {}

        def skolem(t):
            """constants created while evaluating at index J (fresh strings, library objects) become functions of the index, so
            that what is learnt about them can be stated for every index"""
            if isinstance(t, bool):
                return t
            subs = []
            seen, stack = set(), [t]
            while stack:
                x = stack.pop()
                if x.get_id() in seen:
                    continue
                seen.add(x.get_id())
                if z3.is_quantifier(x):
                    stack.append(x.body())
                    continue
                if z3.is_app(x):
                    if x.num_args() == 0 and x.decl().kind() == z3.Z3_OP_UNINTERPRETED and not x.eq(J):
                        nm = x.decl().name()
                        tail = nm.rsplit("!", 1)[-1]
                        if "!" in nm and tail.isdigit() and int(tail) > first_fresh and x.sort() != z3.BoolSort():
                            if nm not in sk_cache:
                                sk_cache[nm] = z3.Function(nm + "@j", I, x.sort())
                            subs.append((x, sk_cache[nm](J)))
                    stack.extend(x.children())
            return z3.substitute(t, *subs) if subs else t
        rng = z3.And(J >= 0, J < length)
        preJ = [c for c in preJ if not c.eq(rng)]
        # tags of over-approximated (unmodelled) steps taken while evaluating the element mark the whole path
        tags = [c for (conds, _v, _s) in resJ for c in conds if is_tag(c)] + [c for c in preJ if is_tag(c)]
        for t in dict((str(t), t) for t in tags).values():
            st.assume(t)
        pre_facts = [skolem(c) for c in preJ if not is_tag(c)]
        if pre_facts:
            st.assume(z3.ForAll([J], z3.Implies(in_range, z3.And(pre_facts))))
        # The element at index J is given by Skolem function(s) of J; what is known: for every index in range that is kept,
        # ONE of the evaluation's outcomes was taken -- its path conditions / assumed facts hold and the element is its value.
        sample, s_sample = resJ[0][1], resJ[0][2]

        def scalar_eq(fn_term, v):
            if isinstance(v, VOpt):
                raise Unsupported(f"{self.loc(n)} optional comprehension element")
            return ops.eq_term(X._val(X.ekind_of_value(v), fn_term), v) if not isinstance(v, VExt) else fn_term == v.t

        if isinstance(sample, VRef):
            o = s_sample.obj(sample.ref)
            sch = self.schema(o.cls) if o.kind == "obj" and o.cls else None
            if sch is None or any(not (isinstance(v, VRef) and s3.obj(v.ref).kind == "obj" and s3.obj(v.ref).cls == o.cls) for (_c, v, s3) in resJ):
                raise Unsupported(f"{self.loc(n)} comprehension element is a heap object without schema")
            cls = o.cls
            ef = z3.Function(fresh_name(f"comp_{cls}"), I, ext_sort(cls))
            pat = ef(J)
            disj = []
            for (conds, v, s3) in resJ:
                eqs = []
                for f, kind in sch.items():
                    cur = self.unwrap(s3, s3.obj(v.ref).data.get(f))
                    if kind in ("str", "int", "bool") and isinstance(cur, (VStr, VInt, VBool)):
                        eqs.append(ops.eq_term(X._val(kind, fld(cls, f, X._sort_of_kind(kind))(ef(J))), cur))
                    elif isinstance(kind, tuple) and kind[0] == "obj" and isinstance(cur, VExt) and cur.sort == kind[1]:
                        eqs.append(fld(cls, f, ext_sort(kind[1]))(ef(J)) == cur.t)
                disj.append(skolem(z3.And([c for c in conds if not is_tag(c)] + eqs + [z3.BoolVal(True)])))
            ekind = ("obj", cls)

            def el(k, ef=ef, cls=cls):
                return VExt(cls, ef(k))
        elif isinstance(sample, (VStr, VInt, VBool, VExt)) and all(type(v) is type(sample) or (isinstance(v, VStr) and isinstance(sample, VStr)) for (_c, v, _s) in resJ):
            ekind = X.ekind_of_value(sample)
            es_ = X._sort_of_kind(ekind)
            if es_ is None:
                raise Unsupported(f"{self.loc(n)} comprehension element of unsupported kind")
            ef = z3.Function(fresh_name("comp_elem"), I, es_)
            pat = ef(J)
            disj = [skolem(z3.And([c for c in conds if not is_tag(c)] + [scalar_eq(ef(J), v)])) for (conds, v, _s3) in resJ]

            def el(k, ef=ef, ekind=ekind):
                return X._val(ekind, ef(k))
        elif isinstance(sample, VTuple) and all(isinstance(v, VTuple) and len(v.items) == len(sample.items) for (_c, v, _s) in resJ) \
                and all(isinstance(x, (VStr, VInt, VBool, VExt)) for x in sample.items):
            kinds = [X.ekind_of_value(x) for x in sample.items]
            efs = [z3.Function(fresh_name(f"comp_elem{i}"), I, X._sort_of_kind(kd)) for i, kd in enumerate(kinds)]
            pat = efs[0](J)
            disj = [skolem(z3.And([c for c in conds if not is_tag(c)] + [scalar_eq(e_(J), x) for e_, x in zip(efs, v.items)])) for (conds, v, _s3) in resJ]
            ekind = "tuple"

            def el(k, efs=efs, kinds=kinds):
                return VTuple([X._val(kd, e_(k)) for e_, kd in zip(efs, kinds)])
        else:
            raise Unsupported(f"{self.loc(n)} comprehension element {sample!r}")
        st.assume(z3.ForAll([J], z3.Implies(z3.And(in_range, skolem(keepJ)), z3.Or(disj)), patterns=[pat]))
        if not g.ifs:
            return st, VSeq(length, el, ekind, tag=("map", length, el))
        # filtered: an order-preserving sub-sequence, described by (source length, keep, element); its own length / elements are
        # fresh (only bounded): clauses must read it through the tag (seq_of refuses)
        ln = z3.Int(fresh_name("filter.len"))
        st.assume(z3.And(ln >= 0, ln <= length))
        es = X._sort_of_kind(ekind)
        keep_fn = lambda k: outcomes(k)[0]
        if es is None:
            return st, VSeq(ln, lambda k: VUnk("filtered-elem"), ekind, tag=("filtermap", length, keep_fn, el))
        arr = z3.Const(fresh_name("filter.at"), z3.ArraySort(I, es))
        return st, VSeq(ln, lambda k: X._val(ekind, z3.Select(arr, k)), ekind, tag=("filtermap", length, keep_fn, el))


SPLITTER = "_split_mbox_messages"


def splitter_name(repo=None):
    """(round 8) Qualname of the mailbox splitter in the real source.  The contract is about a ROLE -- the module-level function
    that runs `finditer` of a module-level compiled pattern over its argument -- not about a name: a private helper may be renamed.
    The written name when it exists (or when the role is not filled by exactly one function: the contract's target is then missing
    and the obligations end undecided, as before)."""
    try:
        m = loader.module(MBOX, repo)
        if SPLITTER in m.functions:
            return SPLITTER
        cands = []
        for qn, fn in m.functions.items():
            if "." in qn or not isinstance(fn, ast.FunctionDef) or len(fn.args.posonlyargs + fn.args.args) != 1:
                continue
            if any(isinstance(n, ast.Call) and isinstance(n.func, ast.Attribute) and n.func.attr == "finditer"
                   and isinstance(n.func.value, ast.Name) and n.func.value.id in m.assigns for n in ast.walk(fn)):
                cands.append(qn)
        if len(cands) == 1:
            return cands[0]
    except Exception:  # noqa
        pass
    return SPLITTER


def separator_pattern_name(repo=None):
    """Name of the module-level compiled pattern the mailbox splitter runs `finditer` on -- read from the real source (whatever
    the constant is called); 'MBOX_FROM_PATTERN' when the shape is not recognised (the obligations then end `unknown`)."""
    try:
        m = loader.module(MBOX, repo)
        fn = m.functions.get(splitter_name(repo))
        names = [n.func.value.id for n in ast.walk(fn) if isinstance(n, ast.Call) and isinstance(n.func, ast.Attribute)
                 and n.func.attr == "finditer" and isinstance(n.func.value, ast.Name) and n.func.value.id in m.assigns]
        if len(set(names)) == 1:
            return names[0]
    except Exception:  # noqa
        pass
    return "MBOX_FROM_PATTERN"


def _empty_seq(kind):
    es = X._sort_of_kind(kind)
    if es is None:
        return VSeq(z3.IntVal(0), lambda k: VUnk("elem"), kind)
    arr = z3.Const(fresh_name("empty.at"), z3.ArraySort(I, es))
    return VSeq(z3.IntVal(0), lambda k: X._val(kind, z3.Select(arr, k)), kind)


def _path_get(st, v, path):
    for f in path:
        if not isinstance(v, VRef):
            return None
        o = st.obj(v.ref)
        if o.kind != "obj" or o.data is None or f not in o.data:
            return None
        v = o.data[f]
    return v


def snapshot(st, v, paths):
    return [(p, _path_get(st, v, p)) for p in paths]


def _same_v(st, a, b):
    if a is b:
        return True
    if isinstance(a, VRef) and isinstance(b, VRef):
        return a.ref == b.ref
    return False


def _dummy(kind):
    es = X._sort_of_kind(kind)
    if es is None:
        return lambda k: VUnk("elem")
    arr = z3.Const(fresh_name("nil.at"), z3.ArraySort(I, es))
    return lambda k: X._val(kind, z3.Select(arr, k))


def comp_tag(st, v):
    """("map"|"filtermap", source length, keep(k), element(k)) when the list was built by a comprehension over a symbolic
    sequence (possibly wrapped by list()), else None"""
    tag = seq_tag(st, v)
    if isinstance(tag, tuple) and tag and tag[0] == "map":
        return ("map", tag[1], (lambda k: z3.BoolVal(True)), tag[2])
    if isinstance(tag, tuple) and tag and tag[0] == "filtermap":
        return tag
    return None


def seq_of(st, v, kind="str"):
    """(length term, elem fn) of a list value: concrete list, abstract list or symbolic sequence (`kind`: element kind
    used for the elements of an empty concrete list).  The result of a FILTERED comprehension has no usable length / element
    terms of its own (they are fresh): it must be read through comp_tag -- refusing here keeps a clause from "refuting" on an
    over-approximation."""
    tag = seq_tag(st, v)
    if isinstance(tag, tuple) and tag and tag[0] == "filtermap":
        raise ShapeUnknown("result of a filtered comprehension read positionally")
    if isinstance(v, VRef):
        o = st.obj(v.ref)
        if o.kind == "alist":
            return o.data.length, o.data.elem
        if o.kind == "list" and o.data is not None:
            items = [st.obj(x.ref).data if False else x for x in o.data]
            if not items:
                return z3.IntVal(0), _dummy(kind)
            return z3.IntVal(len(items)), (lambda k, items=items: X._sel(items, k))
        return None
    if isinstance(v, VSeq):
        return v.length, v.elem
    if isinstance(v, VTuple):
        items = list(v.items)
        return z3.IntVal(len(items)), (lambda k, items=items: X._sel(items, k))
    return None


def seq_tag(st, v):
    if isinstance(v, VRef) and st.obj(v.ref).kind == "alist":
        return st.obj(v.ref).data.tag
    if isinstance(v, VSeq):
        return v.tag
    return None


def appended_names(fnode, ordinal):
    """Names of the list variables the ordinal-th loop of the real function appends to (read from the source)."""
    loops = [n for n in ast.walk(fnode) if isinstance(n, (ast.For, ast.While))]
    loops.sort(key=lambda n: (n.lineno, n.col_offset))
    if ordinal >= len(loops):
        return []
    out = []
    for sub in ast.walk(loops[ordinal]):
        if isinstance(sub, ast.Call) and isinstance(sub.func, ast.Attribute) and sub.func.attr == "append" and isinstance(sub.func.value, ast.Name):
            if sub.func.value.id not in out:
                out.append(sub.func.value.id)
    return out


def _appended_in(node):
    out = []
    for sub in ast.walk(node):
        if isinstance(sub, ast.Call) and isinstance(sub.func, ast.Attribute) and sub.func.attr == "append" and isinstance(sub.func.value, ast.Name):
            if sub.func.value.id not in out:
                out.append(sub.func.value.id)
    return out


def built_list(lc, ordinal=0, kind="str"):
    """The list the loop builds: the unique variable the loop body appends to (ordinal None: the loop being executed)."""
    fnode = lc.st.frame.fnode
    if ordinal is None:
        nodes = getattr(lc.ex, "_loop_nodes", [])
        if not nodes:
            raise Unsupported("no loop is being executed")
        names = _appended_in(nodes[-1])
    else:
        names = appended_names(fnode, ordinal)
    if len(names) != 1:
        raise Unsupported(f"loop {ordinal} appends to {names}: expected exactly one list")
    v = lc.st.lookup(names[0])
    r = seq_of(lc.st, v, kind)
    if r is None:
        raise Unsupported("built list is not a list")
    return r


# ------------------------------------------- bounded refuter: joins of DIFFERENT lengths --
def multi_join_refuter(pc, goal, timeout_ms=None):
    """(round 6) DESIGN 2.5.3a for VCs with several `sep.join(seq)` whose lengths are different terms (e.g. the joined plain parts
    and `[body, *other_parts]`): the uninterpreted length atoms get every combination of values 0..2, each join whose length is
    then a number is written out (nested joins innermost-last, three rounds).  `sat` is a counter-model in which join is the
    real join; other spec functions stay uninterpreted, the native replayer confirms."""
    import itertools
    fs = [f for f in list(pc) + [z3.Not(goal)]]
    joins = X._collect_joins(fs)
    if not joins:
        return None
    atoms = {}

    def collect_atoms(t):
        if z3.is_int_value(t):
            return
        if z3.is_app(t) and t.decl().kind() in (z3.Z3_OP_ADD, z3.Z3_OP_SUB, z3.Z3_OP_ITE, z3.Z3_OP_LT, z3.Z3_OP_LE, z3.Z3_OP_GT, z3.Z3_OP_GE):
            for ch in t.children():
                collect_atoms(ch)
        elif t.sort() == I:
            atoms[t.get_id()] = t
    for j in joins:
        collect_atoms(j.arg(2))
    atoms = list(atoms.values())
    if not atoms or len(atoms) > 3:
        return None
    for combo in itertools.product(range(3), repeat=len(atoms)):
        cur = [z3.substitute(f, *[(a, z3.IntVal(v)) for a, v in zip(atoms, combo)]) for f in fs]
        ok = True
        for _round in range(3):
            js = X._collect_joins(cur)
            if not js:
                break
            subs = []
            for j in js:
                L = z3.simplify(j.arg(2))
                if not z3.is_int_value(L) or L.as_long() > 4:
                    continue
                n, sep, arr = L.as_long(), j.arg(0), j.arg(1)
                e = z3.StringVal("") if n <= 0 else z3.Select(arr, z3.IntVal(0))
                for i in range(1, n):
                    e = z3.Concat(e, sep, z3.Select(arr, z3.IntVal(i)))
                subs.append((j, e))
            if not subs:
                ok = False
                break
            cur = [z3.simplify(z3.substitute(f, *subs)) for f in cur]
        if not ok or X._collect_joins(cur):
            continue
        sv = z3.Solver()
        sv.set("timeout", min(timeout_ms or 3000, 3000))
        sv.add(*cur)
        for a, v in zip(atoms, combo):
            sv.add(a == v)
        if sv.check() == z3.sat:
            return "falsified by bounded instantiation: sequence lengths " + ", ".join(f"{a} = {v}" for a, v in zip(atoms, combo)) + ", joins written out"
    return None


def register_refuter():
    from pyvc import solve
    if multi_join_refuter not in solve.EXTRA_REFUTERS:
        solve.EXTRA_REFUTERS.append(multi_join_refuter)


# ============================================================ assumed library models ==
def install(reg):
    X.install(reg)
    register_refuter()
    from contracts import common
    common.install_bytesio(reg)

    # ---- re ----------------------------------------------------------------
    pat = VExt("RePattern", z3.Const("re:MBOX_FROM_PATTERN", PatS))
    reg.module_consts[(MBOX, separator_pattern_name())] = pat

    def m_finditer(ex, st, obj, args, kwargs, node):
        """pattern.finditer(data): ASSUMED -- total; the matches are ordered, non-overlapping, non-empty, inside data."""
        D = bytes_term(args[0])
        P = obj.t
        st.assume(match_axioms(P, D))
        return [(st, VSeq(M_N(P, D), lambda k: VExt("Match", M_AT(P, D, k)), ("obj", "Match")))]

    def match_pos(which):
        def m(ex, st, o, a, k, n):
            t = o.t
            if z3.is_app(t) and t.decl().name() == "re_match_at":
                P, D, idx = t.arg(0), t.arg(1), t.arg(2)
                idx = z3.simplify(idx)
                # the instance of the assumed finditer contract for this match (and its successor)
                st.assume(z3.Implies(z3.And(idx >= 0, idx < M_N(P, D)), z3.And(
                    M_START(P, D, idx) >= 0, M_START(P, D, idx) < M_END(P, D, idx), M_END(P, D, idx) <= z3.Length(D),
                    z3.Implies(idx + 1 < M_N(P, D), M_END(P, D, idx) <= M_START(P, D, idx + 1)),
                    z3.Implies(idx >= 1, M_END(P, D, idx - 1) <= M_START(P, D, idx)))))
                return [(st, VInt((M_START if which == "start" else M_END)(P, D, idx)))]
            return [(st, VInt((MO_START if which == "start" else MO_END)(t)))]
        return m

    reg.method_models[("RePattern", "finditer")] = m_finditer
    reg.method_models[("Match", "start")] = match_pos("start")
    reg.method_models[("Match", "end")] = match_pos("end")

    # ---- email.header / email.utils ---------------------------------------------
    def m_decode_header(ex, st, args, kwargs, node):
        """email.header.decode_header(s): ASSUMED total on str; a list of (chunk, charset) with chunk bytes (charset str or
        None) or str."""
        n, s = opt_parts(args[0])
        st = ex.fork_raise(st, n, "TypeError")
        if st is None:
            return []
        st.assume(DH_N(s) >= 0)
        return [(st, VSeq(DH_N(s), lambda k: VTuple([VDyn(DH_PART(s, k), DH_ISB(s, k)), VOpt(DH_CS_NONE(s, k), VStr(DH_CS(s, k)))]), "tuple"))]

    def m_getaddresses(ex, st, args, kwargs, node):
        """email.utils.getaddresses([s]): ASSUMED total; a list of (realname, address) pairs of str."""
        items = ex.concrete_items(st, args[0])
        if items is None or len(items) != 1:
            raise Unsupported(f"{ex.loc(node)} getaddresses of other than a one-element list")
        n, s = opt_parts(items[0])
        st.assume(GA_N(s) >= 0)
        st.ghost["addr_parse_arg"] = s          # what the code hands to the address parser (read by the contract clauses)
        return [(st, VSeq(GA_N(s), lambda k: VTuple([VStr(GA_NAME(s, k)), VStr(GA_ADDR(s, k))]), "tuple"))]

    def m_parseaddr(ex, st, args, kwargs, node):
        """email.utils.parseaddr(s): ASSUMED total; (realname, address), ('', '') when unparsable."""
        n, s = opt_parts(args[0])
        st.ghost["addr_parse_arg"] = s
        return [(st, VTuple([VStr(PA_NAME(s)), VStr(PA_ADDR(s))]))]

    def m_parsedate(ex, st, args, kwargs, node):
        """email.utils.parsedate_to_datetime(s): ASSUMED -- raises ValueError (3.10+) / TypeError (older) when s is not a
        date, else returns a datetime."""
        n, s = opt_parts(args[0])
        bad = z3.Or(n, z3.Not(DATE_OK(s)))
        for cls in ("ValueError", "TypeError"):
            if ex.feasible(st.pc, bad):
                s2 = st.fork().assume(bad)
                ex.raise_in(s2, VExc(z3.IntVal(ex.uni.index[cls]), {"site": "parsedate_to_datetime"}))
        if not ex.feasible(st.pc, z3.Not(bad)):
            return []
        st.assume(z3.Not(bad))
        return [(st, VExt("datetime", PDATE(s)))]

    reg.ext_models["email.header.decode_header"] = m_decode_header
    reg.ext_models["email.utils.getaddresses"] = m_getaddresses
    reg.ext_models["email.utils.parseaddr"] = m_parseaddr
    reg.ext_models["email.utils.parsedate_to_datetime"] = m_parsedate
    reg.method_models[("datetime", "isoformat")] = lambda ex, st, o, a, k, n: [(st, VStr(ISO(o.t)))]

    def m_message_from_bytes(ex, st, args, kwargs, node):
        """email.message_from_bytes(b): ASSUMED total (the parser records defects instead of raising)."""
        return [(st, VExt("Message", MFB(bytes_term(args[0]))))]

    reg.ext_models["email.message_from_bytes"] = m_message_from_bytes

    # ---- email.message.Message -----------------------------------------------------
    def m_get(ex, st, obj, args, kwargs, node):
        """Message.get(name[, default]): ASSUMED total, case-insensitive header lookup returning str (compat32 policy,
        headers without raw 8-bit bytes) or the default."""
        name = args[0].const() if isinstance(args[0], VStr) else None
        if name is None:
            raise Unsupported(f"{ex.loc(node)} header lookup by a non-constant name")
        o = hdr_opt(obj.t, name)
        if len(args) > 1:
            d = args[1]
            if isinstance(d, VStr):
                return [(st, VStr(z3.If(o.none, d.t, o.val.t)))]
            if d is not NONE:
                raise Unsupported(f"{ex.loc(node)} header default {d!r}")
        return [(st, o)]

    def m_walk(ex, st, obj, args, kwargs, node):
        """Message.walk(): ASSUMED -- the finite depth-first sequence of the message and its sub-parts."""
        st.assume(W_N(obj.t) >= 0)
        return [(st, VSeq(W_N(obj.t), lambda k: VExt("Message", W_AT(obj.t, k)), ("obj", "Message")))]

    def m_get_payload(ex, st, obj, args, kwargs, node):
        d = kwargs.get("decode", args[1] if len(args) > 1 else None)
        if not (isinstance(d, VBool) and d.const() is True):
            raise Unsupported(f"{ex.loc(node)} get_payload without decode=True")
        return [(st, VOpt(PAY_NONE(obj.t), VDyn(PAY(obj.t), True)))]

    reg.method_models[("Message", "get")] = m_get
    reg.method_models[("Message", "walk")] = m_walk
    reg.method_models[("Message", "is_multipart")] = lambda ex, st, o, a, k, n: [(st, VBool(IS_MP(o.t)))]
    reg.method_models[("Message", "get_content_type")] = lambda ex, st, o, a, k, n: [(st, VStr(CT(o.t)))]
    reg.method_models[("Message", "get_payload")] = m_get_payload
    reg.method_models[("Message", "get_content_charset")] = lambda ex, st, o, a, k, n: [(st, VOpt(CS_NONE(o.t), VStr(CS(o.t))))]
    reg.method_models[("Message", "get_content_disposition")] = lambda ex, st, o, a, k, n: [(st, VOpt(CD_NONE(o.t), VStr(CDISP(o.t))))]
    reg.method_models[("Message", "get_filename")] = lambda ex, st, o, a, k, n: [(st, VOpt(FN_NONE(o.t), VStr(FNAME(o.t))))]

    # ---- io.BytesIO with content -----------------------------------------------------
    def new_bytesio(ex, st, args, kwargs, node):
        b = VExt("BytesIO")
        if args:
            st.assume(CONTENT(b.t) == bytes_term(args[0]))
        st.ghost[common.pos_key(b)] = z3.IntVal(0)
        return [(st, b)]

    def m_read(ex, st, obj, args, kwargs, node):
        """BytesIO.read(): the content from the current position to the end; position moves to the end."""
        if args:
            raise Unsupported(f"{ex.loc(node)} BytesIO.read(n)")
        pos = common.bytesio_pos(st, obj)
        c = CONTENT(obj.t)
        st.ghost[common.pos_key(obj)] = z3.Length(c)
        p0 = z3.simplify(pos)
        if z3.is_int_value(p0) and p0.as_long() == 0:
            return [(st, VDyn(c, True))]
        return [(st, VDyn(z3.SubString(c, pos, z3.Length(c) - pos), True))]

    # ---- (round 7) olefile: a stream of an open OLE file --------------------------------------
    # ASSUMED: ole.openstream([storage, name]) may raise anything (missing stream, broken sector chain), else it gives a stream object
    # that is a function of (file, storage, name); stream.read() may raise, else it gives the stream's bytes (a function of the stream)
    def m_ole_openstream(ex, st, obj, args, kwargs, node):
        items = ex.concrete_items(st, args[0]) if len(args) == 1 and not kwargs else None
        if items is None or len(items) != 2 or not all(isinstance(x, VStr) for x in items):
            raise Unsupported(f"{ex.loc(node)} openstream of other than [storage, stream name]")
        ex.exc_any(st.fork(), f"{ex.loc(node)} olefile openstream")
        return [(st, VExt("OleStream", OLE_STREAM(obj.t, items[0].t, items[1].t)))]

    def m_olestream_read(ex, st, obj, args, kwargs, node):
        if args or kwargs:
            raise Unsupported(f"{ex.loc(node)} OleStream.read(n)")
        ex.exc_any(st.fork(), f"{ex.loc(node)} olefile stream read")
        return [(st, VDyn(OLE_DATA(obj.t), True))]

    reg.method_models[("OleFile", "openstream")] = m_ole_openstream
    reg.method_models[("OleStream", "read")] = m_olestream_read

    reg.ext_models["io.BytesIO"] = new_bytesio
    reg.ext_models[("new", "io.BytesIO")] = new_bytesio
    reg.ext_models[("new", "BytesIO")] = new_bytesio
    reg.method_models[("BytesIO", "read")] = m_read
    reg.method_models[("BytesIO", "getvalue")] = lambda ex, st, o, a, k, n: [(st, VDyn(CONTENT(o.t), True))]

    def m_b64decode(ex, st, args, kwargs, node):
        """base64.b64decode(x): ASSUMED -- may raise (binascii.Error) on malformed input, else the decoded bytes."""
        ex.exc_any(st.fork(), "base64.b64decode")
        return [(st, VDyn(B64D(bytes_term(args[0])), True))]

    reg.ext_models["base64.b64decode"] = m_b64decode

    # ---- mailparser ------------------------------------------------------------------
    def m_parse_from_bytes(ex, st, args, kwargs, node):
        """mailparser.parse_from_bytes(b): ASSUMED -- may raise anything (EXC-ANY), else a MailParser view of the message."""
        ex.exc_any(st.fork(), "mailparser.parse_from_bytes")
        return [(st, VExt("Mail", MAILOF(bytes_term(args[0]))))]

    reg.ext_models["mailparser.parse_from_bytes"] = m_parse_from_bytes

    def addr_attr(field):
        def a(ex, st, obj):
            """mail.<field>: ASSUMED -- a list of (display name, address) pairs of str, decoded, every entry carrying an address
            (mailparser skips entries without one)."""
            f = z3.StringVal(field)
            m = obj.t
            k = z3.Int("k!ml")
            st.assume(z3.And(ML_N(m, f) >= 0, z3.ForAll([k], z3.Implies(z3.And(k >= 0, k < ML_N(m, f)), z3.Length(ML_ADDR(m, f, k)) > 0),
                                                      patterns=[ML_ADDR(m, f, k)])))
            return VSeq(ML_N(m, f), lambda k: VTuple([VStr(ML_NAME(m, f, k)), VStr(ML_ADDR(m, f, k))]), "tuple")
        return a

    for field in ("from_", "to", "cc", "bcc", "reply_to"):
        reg.attr_models[("Mail", field)] = addr_attr(field)

    def hdr_attr(field):
        return lambda ex, st, obj: VOpt(MH_NONE(obj.t, z3.StringVal(field)), VStr(MH(obj.t, z3.StringVal(field))))

    for field in ("subject", "message_id", "in_reply_to"):
        reg.attr_models[("Mail", field)] = hdr_attr(field)
    reg.attr_models[("Mail", "date")] = lambda ex, st, obj: VOpt(MDATE_NONE(obj.t), VExt("datetime", MDATE(obj.t)))

    def text_attr(field):
        def a(ex, st, obj):
            """mail.text_plain / text_html: ASSUMED -- a list of str (one per non-attachment part of that subtype)."""
            f = z3.StringVal(field)
            st.assume(MT_N(obj.t, f) >= 0)
            return VSeq(MT_N(obj.t, f), lambda k: VStr(MT_AT(obj.t, f, k)), "str")
        return a

    reg.attr_models[("Mail", "text_plain")] = text_attr("text_plain")
    reg.attr_models[("Mail", "text_html")] = text_attr("text_html")
    # (round 6) mailparser's third bucket: inline parts without a file name that are neither text/plain nor text/html (ASSUMED: a
    # list of str like the other two; nothing relates it to them)
    reg.attr_models[("Mail", "text_not_managed")] = text_attr("text_not_managed")

    def a_attachments(ex, st, obj):
        st.assume(MA_N(obj.t) >= 0)
        return VSeq(MA_N(obj.t), lambda k: VExt("AttDict", MA_AT(obj.t, k)), ("obj", "AttDict"))

    reg.attr_models[("Mail", "attachments")] = a_attachments

    def m_att_get(ex, st, obj, args, kwargs, node):
        """attachment.get(key) of a mailparser attachment dict: filename / mail_content_type: str or None; payload: str or
        bytes or None; binary: bool."""
        key = args[0].const() if isinstance(args[0], VStr) else None
        if key is None or len(args) != 1:
            raise Unsupported(f"{ex.loc(node)} attachment.get with a non-constant key or a default")
        a = obj.t
        if key == "binary":
            return [(st, VBool(AD_BIN(a)))]
        if key == "payload":
            st.assume(att_bytes_contract(a))
            return [(st, VOpt(AD_NONE(a, z3.StringVal(key)), VDyn(AD_STR(a, z3.StringVal(key)), AD_ISB(a))))]
        return [(st, VOpt(AD_NONE(a, z3.StringVal(key)), VStr(AD_STR(a, z3.StringVal(key)))))]

    reg.method_models[("AttDict", "get")] = m_att_get

    # ---- re.compile / sub ------------------------------------------------------------------
    RePat = fun("re_compiled", S, PatS)

    def m_re_compile(ex, st, args, kwargs, node):
        pat = args[0].const() if args and isinstance(args[0], VStr) else None
        if pat is not None and len(args) == 2 and not kwargs and isinstance(node, ast.Call) and len(node.args) == 2 \
                and ast.unparse(node.args[1]) in ("re.IGNORECASE", "re.I"):
            # (round 7) re.compile(p, re.IGNORECASE) IS re.compile("(?i)" + p): the flag is written into the pattern constant
            return [(st, VExt("RePattern", RePat(z3.StringVal("(?i)" + pat))))]
        if pat is None or len(args) > 1:
            raise Unsupported(f"{ex.loc(node)} re.compile of a non-constant str pattern / with flags")
        return [(st, VExt("RePattern", RePat(z3.StringVal(pat))))]

    def sub_term(pat, repl, s_):
        rc = repl.const() if isinstance(repl, VStr) else None
        if pat is not None and rc is not None and is_unfold_pattern(pat, rc):
            return UNFOLD(s_)
        return RESUB(z3.StringVal(pat if pat is not None else "?"), repl.t, s_)

    def m_pat_sub(ex, st, o, a, k, n):
        t = o.t
        pat = t.arg(0).as_string() if z3.is_app(t) and t.decl().name() == "re_compiled" and z3.is_string_value(t.arg(0)) else None
        if pat is None or len(a) != 2 or not isinstance(a[1], VStr):
            raise Unsupported(f"{ex.loc(n)} pattern.sub on an unknown pattern")
        return [(st, VStr(sub_term(pat, a[0], a[1].t)))]

    def m_re_sub(ex, st, args, kwargs, node):
        pat = args[0].const() if args and isinstance(args[0], VStr) else None
        if pat is None or len(args) != 3 or not isinstance(args[2], VStr):
            raise Unsupported(f"{ex.loc(node)} re.sub with a non-constant pattern")
        return [(st, VStr(sub_term(pat, args[1], args[2].t)))]

    reg.ext_models["re.compile"] = m_re_compile

    # (round 7) str.lower() / str.lstrip() of a symbolic str: uninterpreted FUNCTIONS of the string (the engine's default is a fresh
    # unconstrained string per call, which is the same over-approximation without determinism): ASSUMED total
    def m_lower(ex, st, args, kwargs, node):
        if len(args) != 1 or kwargs or not isinstance(args[0], VStr):
            raise Unsupported(f"{ex.loc(node)} str.lower with arguments")
        return [(st, VStr(LOWER(args[0].t)))]

    def m_lstrip(ex, st, args, kwargs, node):
        if len(args) != 1 or kwargs or not isinstance(args[0], VStr):
            raise Unsupported(f"{ex.loc(node)} str.lstrip with arguments")
        return [(st, VStr(LSTRIP(args[0].t)))]

    reg.ext_models.setdefault("str.lower", m_lower)
    reg.ext_models.setdefault("str.lstrip", m_lstrip)
    reg.ext_models["re.sub"] = m_re_sub
    reg.method_models[("RePattern", "sub")] = m_pat_sub

    # ---- re.search on a constant pattern ------------------------------------------------
    def m_re_search(ex, st, args, kwargs, node):
        """re.search(pattern, s): ASSUMED total; None or a match object whose start()/group(1) are functions of (pattern, s)."""
        pat = args[0].const() if isinstance(args[0], VStr) else None
        if pat is None or not isinstance(args[1], VStr):
            raise Unsupported(f"{ex.loc(node)} re.search with a non-constant pattern")
        P, s_ = z3.StringVal(pat), args[1].t
        out = []
        if ex.feasible(st.pc, RS_NONE(P, s_)):
            out.append((st.fork().assume(RS_NONE(P, s_)), NONE))
        if ex.feasible(st.pc, z3.Not(RS_NONE(P, s_))):
            s2 = st.assume(z3.Not(RS_NONE(P, s_)))
            s2.assume(z3.And(RS_START(P, s_) >= 0, RS_START(P, s_) <= z3.Length(s_)))
            out.append((s2, VExt("SMatch", RS_MATCH(P, s_))))
        return out

    def m_sm_group(ex, st, o, a, k, n):
        t = o.t
        g = a[0].const() if a and isinstance(a[0], VInt) else 0
        if z3.is_app(t) and t.decl().name() == "re_search_match":
            return [(st, VStr(RS_GROUP(t.arg(0), t.arg(1), z3.IntVal(g))))]
        raise Unsupported("group of an unknown match")

    def m_sm_start(ex, st, o, a, k, n):
        t = o.t
        if z3.is_app(t) and t.decl().name() == "re_search_match":
            return [(st, VInt(RS_START(t.arg(0), t.arg(1))))]
        raise Unsupported("start of an unknown match")

    def m_pat_search(ex, st, o, a, k, n):
        """(round 6) compiled_pattern.search(s) == re.search(pattern, s) for a pattern compiled from a constant without flags"""
        t = o.t
        pat = t.arg(0).as_string() if z3.is_app(t) and t.decl().name() == "re_compiled" and z3.is_string_value(t.arg(0)) else None
        if pat is None or len(a) != 1 or k:
            raise Unsupported(f"{ex.loc(n)} pattern.search on an unknown pattern / with a position")
        return m_re_search(ex, st, [VStr(pat), a[0]], {}, n)

    reg.ext_models["re.search"] = m_re_search

    def m_re_split(ex, st, args, kwargs, node):
        """(round 7) re.split(pattern, s) for a constant pattern: ASSUMED total; a list of RSPL_N >= 1 pieces, functions of (pattern, s).
        The last split is recorded in the ghost `re_split_arg` (clauses say WHAT was split by WHICH pattern)."""
        pat = args[0].const() if args and isinstance(args[0], VStr) else None
        if pat is None or len(args) != 2 or kwargs or not isinstance(args[1], VStr):
            raise Unsupported(f"{ex.loc(node)} re.split with a non-constant pattern / maxsplit / flags")
        P, s_ = z3.StringVal(pat), args[1].t
        st.assume(RSPL_N(P, s_) >= 1)
        st.ghost["re_split_arg"] = (P, s_)
        return [(st, VSeq(RSPL_N(P, s_), lambda k: VStr(RSPL_AT(P, s_, k)), "str"))]

    def m_pat_split(ex, st, o, a, k, n):
        t = o.t
        pat = t.arg(0).as_string() if z3.is_app(t) and t.decl().name() == "re_compiled" and z3.is_string_value(t.arg(0)) else None
        if pat is None or len(a) != 1 or k:
            raise Unsupported(f"{ex.loc(n)} pattern.split on an unknown pattern / with maxsplit")
        return m_re_split(ex, st, [VStr(pat), a[0]], {}, n)

    reg.ext_models["re.split"] = m_re_split
    reg.method_models[("RePattern", "split")] = m_pat_split
    reg.method_models[("RePattern", "search")] = m_pat_search
    reg.method_models[("SMatch", "group")] = m_sm_group
    reg.method_models[("SMatch", "start")] = m_sm_start

    # ---- msg_parser.MsOxMessage ------------------------------------------------------
    def new_msox(ex, st, args, kwargs, node):
        """MsOxMessage(stream): ASSUMED -- may raise anything, else an object whose properties are functions of the bytes."""
        ex.exc_any(st.fork(), "msg_parser.MsOxMessage")
        src = args[0]
        content = CONTENT(src.t) if isinstance(src, VExt) and src.sort == "BytesIO" else z3.String(fresh_name("msg_bytes"))
        return [(st, VExt("MsOx", MSOX(content)))]

    reg.ext_models[("new", "msg_parser.MsOxMessage")] = new_msox
    reg.ext_models[("new", "MsOxMessage")] = new_msox
    for prop in ("subject", "message_id", "sent_date", "body"):
        reg.attr_models[("MsOx", prop)] = (lambda prop: lambda ex, st, obj: VOpt(MX_NONE(obj.t, z3.StringVal(prop)), VStr(MX_STR(obj.t, z3.StringVal(prop)))))(prop)
    for prop in ("sender", "to", "cc", "bcc", "reply_to"):
        reg.attr_models[("MsOx", prop)] = (lambda prop: lambda ex, st, obj: VExt("MsgProp", MX_PROP(obj.t, z3.StringVal(prop))))(prop)
