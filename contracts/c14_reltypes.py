"""Relationship types a source part of an OOXML package may carry (ECMA-376 Part 1, annex on relationship types, + the Microsoft
extension types Office writes).  No z3 import: the native replayer uses the same tables to write packages whose relationship parts
list relationships of EVERY kind around the picture relationships.

A relationship of kind K has the type  <namespace>/K ; Transitional packages use the schemas.openxmlformats.org namespace, Strict
packages the purl.oclc.org one.  Picking relationships "by kind" therefore means: by the last segment of the type URI.
"""
TRANSITIONAL = "http://schemas.openxmlformats.org/officeDocument/2006/relationships/"
STRICT = "http://purl.oclc.org/ooxml/officeDocument/relationships/"

# kind names (last URI segment) per source part
ECMA = {
    "worksheet": ("drawing", "vmlDrawing", "comments", "hyperlink", "printerSettings", "table", "pivotTable", "oleObject", "control", "ctrlProp",
                  "image", "customProperty", "queryTable", "tableSingleCells", "package"),
    "drawing": ("image", "chart", "hyperlink", "diagramData", "diagramLayout", "diagramQuickStyle", "diagramColors", "oleObject", "video", "audio"),
    "document": ("image", "hyperlink", "header", "footer", "styles", "settings", "webSettings", "fontTable", "theme", "numbering", "footnotes",
                 "endnotes", "comments", "customXml", "glossaryDocument", "chart", "diagramData", "oleObject", "package", "aFChunk",
                 "attachedTemplate", "video", "audio", "subDocument", "frame"),
    "presentation": ("slide", "slideMaster", "notesMaster", "handoutMaster", "presProps", "viewProps", "theme", "tableStyles", "commentAuthors",
                     "customXml", "font", "tags"),
}
# extension types (one namespace each)
MS = {
    "worksheet": ("http://schemas.microsoft.com/office/2007/relationships/slicer", "http://schemas.microsoft.com/office/2017/10/relationships/threadedComment",
                  "http://schemas.microsoft.com/office/2011/relationships/timeline"),
    "drawing": ("http://schemas.microsoft.com/office/2007/relationships/hdphoto", "http://schemas.microsoft.com/office/2014/relationships/chartEx",
                "http://schemas.microsoft.com/office/2007/relationships/diagramDrawing"),
    "document": ("http://schemas.microsoft.com/office/2011/relationships/commentsExtended", "http://schemas.microsoft.com/office/2011/relationships/people",
                 "http://schemas.microsoft.com/office/2007/relationships/stylesWithEffects", "http://schemas.microsoft.com/office/2006/relationships/keyMapCustomizations"),
    "presentation": ("http://schemas.microsoft.com/office/2015/10/relationships/revisionInfo", "http://schemas.microsoft.com/office/2018/10/relationships/authors"),
}


def kind_of(type_uri: str) -> str:
    return type_uri.rstrip("/").rsplit("/", 1)[-1]


def types_of(part: str):
    """every standard relationship type of the part, both namespaces"""
    out = []
    for k in ECMA[part]:
        out.append(TRANSITIONAL + k)
        out.append(STRICT + k)
    out.extend(MS.get(part, ()))
    return out


def others(part: str, kind: str, strict=False):
    """the types of the part that are NOT of the given kind (one namespace), in table order"""
    ns = STRICT if strict else TRANSITIONAL
    return [ns + k for k in ECMA[part] if k != kind] + list(MS.get(part, ()))
