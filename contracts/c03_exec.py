"""Pack-local executor for C03 (units mirror pages/slides/sheets/chapters).

Adds to the generic engine, without touching it:

* **abstract dataclass instances** -- an instance of a repo dataclass whose
  content is arbitrary is a `VExt(<class name>)`; reading field `f` gives the
  uninterpreted function `<class>.f(instance)` (kind taken from the field's
  annotation in the *real* class body: str/int/bool, list[...] -> symbolic
  sequence `VSeq`, `X | None` -> fork).  Methods and properties of such an
  instance run the real code with `self` bound to the abstract instance,
  unless listed in `OPAQUE` (then: an uninterpreted function of the instance).
  Assumption DT-TYPED: fields hold values of their declared types.
* **symbolic yielded sequence** -- a generator is a procedure appending the
  *observation* `(u.get_metadata().unit_number, u.get_text())` of every yielded
  unit (obtained by running the real accessor methods of the unit class) to
  the ghost sequence `Y = (len, nums[], texts[])`; loops over symbolic
  sequences havoc `Y` and are cut by an invariant over the yielded prefix.
* **abstract lists** (`alist`): a mutable heap cell holding an immutable
  `VSeq`; `append` is a functional update, loops havoc it to a fresh sequence.
* comprehensions / `str.join` / `str.strip` over symbolic sequences.
"""
from __future__ import annotations

import ast

import z3

from pyvc import loader, ops
from pyvc.ops import Unsupported
from pyvc.state import Frame, HeapObj
from pyvc.symex import Executor
from pyvc.values import (NONE, V, VBool, VExt, VFunc, VInt, VNoneT, VRef, VSeq, VStr, VTuple, VUnk,
                         ext_sort, fresh_name)

DT = "sharepoint2text/parsing/extractors/data_types.py"
I, S, B = z3.IntSort(), z3.StringSort(), z3.BoolSort()

STRIP = z3.Function("str_strip", S, S)                          # str.strip() (uninterpreted)
JOIN = z3.Function("str_join", S, z3.ArraySort(I, S), I, S)     # sep.join(seq) for a sequence (element function, length)
K = z3.Int("k!seq")                                             # the one bound variable used for element lambdas


# COUNT_TRUE(keep, k) = number of j < k with keep(j).  The keep predicate is a z3 Lambda over the bound variable K; terms mention it
# only through a small integer key (hash-consed AST identity), because a lambda with If/And inside cannot occur in a pattern.
_COUNT = z3.Function("count_true", I, I, I)
_KEEP_KEYS: dict = {}


def _keep_key(keep):
    i = keep.get_id()
    if i not in _KEEP_KEYS:
        _KEEP_KEYS[i] = (len(_KEEP_KEYS), keep)      # the lambda is kept alive, so its AST id is not reused
    return z3.IntVal(_KEEP_KEYS[i][0])


def COUNT_TRUE(keep, k):
    return _COUNT(_keep_key(keep), k)


def count_true_def(keep, j):
    """instance at j of the definition of COUNT_TRUE by primitive recursion (supplied as ground instances where needed)"""
    return COUNT_TRUE(keep, j) == z3.If(j <= 0, 0, COUNT_TRUE(keep, j - 1) + z3.If(z3.simplify(z3.Select(keep, j - 1)), 1, 0))


class AUnit(V):
    """Observation of a unit: (unit number term, text term)."""
    kind = "unit"
    __slots__ = ("num", "text")

    def __init__(self, num, text):
        self.num, self.text = num, text

    def __repr__(self):
        return "AUnit"


class Conj(list):
    """Labelled conjunction [(label, Bool)]: assumed as a whole, proved conjunct by conjunct."""

    def term(self):
        return z3.And([t for _l, t in self] + [z3.BoolVal(True)])


# ----------------------------------------------------------- class schemas --
_FUN: dict = {}


def fun(name, *sorts):
    key = (name,) + tuple(str(s) for s in sorts)
    if key not in _FUN:
        _FUN[key] = z3.Function(name, *sorts)
    return _FUN[key]


def fld(cls, f, sort):
    """Uninterpreted field function  <cls>.<f> : cls -> sort."""
    return fun(f"{cls}.{f}", ext_sort(cls), sort)


def fld_len(cls, f):
    return fun(f"{cls}.{f}.len", ext_sort(cls), I)


def fld_at(cls, f, sort):
    return fun(f"{cls}.{f}.at", ext_sort(cls), I, sort)


def _kind_of(ann, classes):
    """Field kind from a type annotation (sort hint + DT-TYPED assumption)."""
    if ann is None:
        return "unk"
    if isinstance(ann, ast.Constant) and isinstance(ann.value, str):
        try:
            return _kind_of(ast.parse(ann.value, mode="eval").body, classes)
        except SyntaxError:
            return "unk"
    if isinstance(ann, ast.Name):
        if ann.id in ("str", "int", "bool"):
            return ann.id
        if ann.id in classes:
            return ("obj", ann.id)
        return "unk"
    if isinstance(ann, ast.Attribute):
        return "unk"
    if isinstance(ann, ast.Subscript):
        head = ast.unparse(ann.value).split(".")[-1]
        if head in ("List", "list"):
            return ("list", _kind_of(ann.slice, classes))
        if head == "Optional":
            return ("opt", _kind_of(ann.slice, classes))
        return "unk"
    if isinstance(ann, ast.BinOp) and isinstance(ann.op, ast.BitOr):
        l, r = ann.left, ann.right
        if isinstance(r, ast.Constant) and r.value is None:
            return ("opt", _kind_of(l, classes))
        if isinstance(l, ast.Constant) and l.value is None:
            return ("opt", _kind_of(r, classes))
        return "unk"
    return "unk"


def class_schema(mod, cls):
    """{field: kind} of a @dataclass of `mod` (own fields and those of dataclass bases in the module)."""
    cache = getattr(mod, "_c03_schema", None)
    if cache is None:
        cache = mod._c03_schema = {}
    if cls in cache:
        return cache[cls]
    node = mod.classes.get(cls)
    if node is None or not any("dataclass" in ast.unparse(d) for d in node.decorator_list):
        cache[cls] = None
        return None
    out = {}
    for b in node.bases:
        bn = ast.unparse(b).split(".")[-1]
        if bn in mod.classes and bn != cls:
            out.update(class_schema(mod, bn) or {})
    for b in node.body:
        if isinstance(b, ast.AnnAssign) and isinstance(b.target, ast.Name):
            out[b.target.id] = _kind_of(b.annotation, mod.classes)
    cache[cls] = out
    return out


def _sort_of_kind(kind):
    if kind == "str":
        return S
    if kind == "int":
        return I
    if kind == "bool":
        return B
    if isinstance(kind, tuple) and kind[0] == "obj":
        return ext_sort(kind[1])
    return None


def _val(kind, t):
    if kind == "str":
        return VStr(t)
    if kind == "int":
        return VInt(t)
    if kind == "bool":
        return VBool(t)
    return VExt(kind[1], t)


def seq_field(cls, f, ekind, e):
    """Symbolic sequence for list field f of abstract instance e (term)."""
    n = fld_len(cls, f)(e)
    es = _sort_of_kind(ekind)
    if es is None:
        return VSeq(n, lambda k: VUnk(f"{cls}.{f}[]"), "unk", tag=("field", cls, f))
    at = fld_at(cls, f, es)
    return VSeq(n, lambda k, at=at, e=e, ekind=ekind: _val(ekind, at(e, k)), ekind, tag=("field", cls, f))


def elem_lambda(seq: VSeq):
    """Array(Int,String) term  k |-> seq[k]  for a sequence of strings."""
    v = seq.elem(K)
    if not isinstance(v, VStr):
        raise Unsupported("join over a symbolic sequence of non-strings")
    return z3.Lambda([K], v.t)


def fresh_seq_like(ekind, name="h"):
    """Fresh (havocked) sequence of the given element kind, length >= 0 (caller assumes)."""
    n = z3.Int(fresh_name(f"{name}.len"))
    es = _sort_of_kind(ekind)
    if es is None:
        if ekind == "unit":
            nums = z3.Const(fresh_name(f"{name}.num"), z3.ArraySort(I, I))
            txts = z3.Const(fresh_name(f"{name}.txt"), z3.ArraySort(I, S))
            return VSeq(n, lambda k: AUnit(z3.Select(nums, k), z3.Select(txts, k)), "unit")
        return VSeq(n, lambda k: VUnk("elem"), "unk")
    arr = z3.Const(fresh_name(f"{name}.at"), z3.ArraySort(I, es))
    return VSeq(n, lambda k: _val(ekind, z3.Select(arr, k)), ekind)


def ekind_of_value(v):
    if isinstance(v, VStr):
        return "str"
    if isinstance(v, VInt):
        return "int"
    if isinstance(v, VBool):
        return "bool"
    if isinstance(v, VExt):
        return ("obj", v.sort)
    if isinstance(v, AUnit):
        return "unit"
    return "unk"


MUTATORS = {"append", "extend", "insert", "pop", "clear", "remove", "sort", "reverse"}


class UnitsExecutor(Executor):
    # (class, attribute) -> fn(ex, st, obj, args, kwargs) -> V : opaque pure functions of the instance
    OPAQUE: dict = {}
    # class -> {"num": field}: how objects appended to abstract lists are frozen
    def __init__(self, *a, **kw):
        super().__init__(*a, **kw)
        self.dt = loader.module(DT, self.module.repo)

    # ------------------------------------------------------------ plumbing --
    def sub_executor(self, module):
        sub = type(self)(module, self.reg, self.uni)
        sub.refs = self.refs
        return sub

    def _b(self, x):
        if isinstance(x, Conj):
            return x.term()
        return super()._b(x)

    def add_vc(self, kind, label, pc, goal, note="", loc=""):
        if isinstance(goal, Conj):
            for (sub, t) in goal:
                super().add_vc(kind, f"{label}.{sub}" if label else sub, pc, t, note, loc)
            return
        super().add_vc(kind, label, pc, goal, note, loc)

    def class_module(self, cls):
        if cls in self.module.classes:
            return self.module
        if cls in self.dt.classes:
            return self.dt
        return None

    def run_in(self, mod, st, fnode, env):
        """Run a function of `mod` (possibly another module than the one under verification)."""
        if mod is self.module:
            return self.run_body(st, fnode, env, None)
        sub = self.sub_executor(mod)
        sub.sinks, sub.obls, sub.oid_prefix = self.sinks, self.obls, self.oid_prefix
        sub.inline_depth, sub.contract, sub.feas = self.inline_depth, None, self.feas
        sub.exc_any_sites, sub.assumed_used = self.exc_any_sites, self.assumed_used
        st.frames.append(Frame({}, None, None))
        res = sub.run_body(st, fnode, env, None)
        for (s, _v) in res:
            s.frames.pop()
        return res

    def apply_contract(self, st, c, args, kwargs, node):
        res = super().apply_contract(st, c, args, kwargs, node)
        if not res:
            # a callee contract whose normal post-state is infeasible would make everything after the call vacuous
            raise Unsupported(f"{self.loc(node)} call of {c.target}: normal post-state infeasible (vacuity guard)")
        return res

    # ------------------------------------------------- abstract instances --
    def schema(self, cls):
        m = self.class_module(cls)
        return class_schema(m, cls) if m is not None else None

    def dataclass_fields(self, name):
        r = super().dataclass_fields(name)
        if r is not None or name in self.module.classes:
            return r
        cls = self.dt.classes.get(name)
        if cls is None or not any("dataclass" in ast.unparse(d) for d in cls.decorator_list):
            return None
        return [(b.target.id, b.value) for b in cls.body if isinstance(b, ast.AnnAssign) and isinstance(b.target, ast.Name)]

    def field_values(self, st, obj: VExt, f, kind):
        cls, e = obj.sort, obj.t
        if kind in ("str", "int", "bool") or (isinstance(kind, tuple) and kind[0] == "obj"):
            return [(st, _val(kind, fld(cls, f, _sort_of_kind(kind))(e)))]
        if isinstance(kind, tuple) and kind[0] == "list":
            sq = seq_field(cls, f, kind[1], e)
            st.assume(sq.length >= 0)
            return [(st, sq)]
        if isinstance(kind, tuple) and kind[0] == "opt":
            isnone = fld(cls, f + ".is_none", B)(e)
            out = []
            if self.feasible(st.pc, isnone):
                out.append((st.fork().assume(isnone), NONE))
            if self.feasible(st.pc, z3.Not(isnone)):
                s2 = st.assume(z3.Not(isnone))
                out.extend(self.field_values(s2, obj, f, kind[1]))
            return out
        return [(st, VUnk(f"{cls}.{f}"))]

    def get_attr(self, st, base, attr, node):
        if isinstance(base, VExt):
            sch = self.schema(base.sort)
            if sch is not None:
                if attr in sch:
                    return self.field_values(st, base, attr, sch[attr])
                op = self.OPAQUE.get((base.sort, attr))
                mod = self.class_module(base.sort)
                fn = self.find_method(mod, base.sort, attr)
                if fn is not None:
                    if any(ast.unparse(d) == "property" for d in fn.decorator_list):
                        if op is not None:
                            return [(st, op(self, st, base, [], {}))]
                        return self.run_in(mod, st, fn, {"self": base})
                    return [(st, VFunc("bound", base, attr))]
                raise Unsupported(f"{self.loc(node)} attribute {attr} of abstract {base.sort}")
        if isinstance(base, AUnit):
            return [(st, VFunc("bound", base, attr))]
        return super().get_attr(st, base, attr, node)

    def find_method(self, mod, cls, name):
        seen = set()
        while cls and cls not in seen and mod is not None:
            seen.add(cls)
            fn = mod.functions.get(f"{cls}.{name}")
            if fn is not None:
                return fn
            node = mod.classes.get(cls)
            nxt = None
            if node is not None:
                for b in node.bases:
                    bn = ast.unparse(b).split(".")[-1]
                    if bn in mod.classes:
                        nxt = bn
                        break
            cls = nxt
        return None

    def store_attr(self, st, base, attr, v, node):
        if isinstance(base, VExt) and self.schema(base.sort) is not None:
            raise Unsupported(f"{self.loc(node)} store to field {attr} of abstract (read-only) {base.sort}")
        if isinstance(base, VRef) and base.ref in st.ghost.get("frozen", frozenset()):
            raise Unsupported(f"{self.loc(node)} store to an object after it was appended to an abstract list")
        return super().store_attr(st, base, attr, v, node)

    def construct(self, st, t, args, kwargs, node):
        if t.name == "str" and len(args) == 1 and isinstance(args[0], VExt):
            # str() of a well-typed cell value is total (assumption DT-TYPED)
            return [(st, VStr(fun(f"str_of.{args[0].sort}", ext_sort(args[0].sort), S)(args[0].t)))]
        return super().construct(st, t, args, kwargs, node)

    # ------------------------------------------------------------- methods --
    def call_method(self, st, obj, name, args, kwargs, node):
        if isinstance(obj, AUnit):
            if name == "get_text" and not args:
                return [(st, VStr(obj.text))]
            if name == "get_metadata" and not args:
                return [(st, self.new_obj(st, "UnitMetadataInterface", {"unit_number": VInt(obj.num)}))]
            raise Unsupported(f"{self.loc(node)} {name} on an observed unit")
        if isinstance(obj, VExt) and self.schema(obj.sort) is not None:
            mod = self.class_module(obj.sort)
            c = self.reg.get(f"{mod.rel}::{obj.sort}.{name}")
            if c is not None and not c.inline and c is not self.contract:
                return self.apply_contract(st, c, [obj] + list(args), kwargs, node)
            op = self.OPAQUE.get((obj.sort, name))
            if op is not None:
                fn = self.find_method(mod, obj.sort, name)
                env = self.bind_params(fn, args, kwargs, node, self_val=obj) if fn is not None else {}
                return [(st, op(self, st, obj, args, env))]
            fn = self.find_method(mod, obj.sort, name)
            if fn is None:
                raise Unsupported(f"{self.loc(node)} method {name} of abstract {obj.sort}")
            env = self.bind_params(fn, args, kwargs, node, self_val=obj)
            return self.run_in(mod, st, fn, env)
        if isinstance(obj, VRef):
            o = st.obj(obj.ref)
            if o.kind == "alist":
                return self.alist_method(st, obj, name, args, kwargs, node)
            if o.kind == "amap":
                return self.amap_method(st, obj, name, args, kwargs, node)
        if isinstance(obj, VSeq) and name in ("copy",):
            return [(st, obj)]
        return super().call_method(st, obj, name, args, kwargs, node)

    def obj_method(self, st, obj, name, args, kwargs, node):
        o = st.obj(obj.ref)
        mod = self.class_module(o.cls) if o.cls else None
        if mod is None or mod is self.module:
            if mod is not None:
                fn = self.find_method(mod, o.cls, name)
                q = f"{o.cls}.{name}"
                if fn is not None and q not in mod.functions:     # inherited
                    env = self.bind_params(fn, args, kwargs, node, self_val=obj)
                    return self.run_body(st, fn, env, None)
            return super().obj_method(st, obj, name, args, kwargs, node)
        c = self.reg.get(f"{mod.rel}::{o.cls}.{name}")
        if c is not None and not c.inline:
            return self.apply_contract(st, c, [obj] + list(args), kwargs, node)
        fn = self.find_method(mod, o.cls, name)
        if fn is None:
            return self.havoc_call(st, f"{o.cls}.{name}", [obj] + list(args), node)
        env = self.bind_params(fn, args, kwargs, node, self_val=obj)
        return self.run_in(mod, st, fn, env)

    # ------------------------------------------------------- yielded ghost --
    def y_get(self, st):
        y = st.ghost.get("Y")
        if y is None:
            y = (z3.IntVal(0), z3.Const(fresh_name("Y.num"), z3.ArraySort(I, I)),
                 z3.Const(fresh_name("Y.txt"), z3.ArraySort(I, S)))
            st.ghost["Y"] = y
        return y

    def y_append(self, st, num, text):
        n, nums, txts = self.y_get(st)
        st.ghost["Y"] = (z3.simplify(n + 1), z3.Store(nums, n, num), z3.Store(txts, n, text))

    def y_havoc(self, st):
        n = z3.Int(fresh_name("Y.len"))
        st.assume(n >= 0)
        st.ghost["Y"] = (n, z3.Const(fresh_name("Y.num"), z3.ArraySort(I, I)),
                         z3.Const(fresh_name("Y.txt"), z3.ArraySort(I, S)))

    def project_unit(self, st, v, node):
        """Observation of a yielded unit through the real accessor methods."""
        if isinstance(v, AUnit):
            return [(st, v.num, v.text)]
        if not isinstance(v, (VRef, VExt)):
            raise Unsupported(f"{self.loc(node)} yield of a non-unit value {v!r}")
        res = []
        for (s1, md) in self.call_method(st, v, "get_metadata", [], {}, node):
            for (s2, num) in self.get_attr(s1, md, "unit_number", node):
                for (s3, txt) in self.call_method(s2, v, "get_text", [], {}, node):
                    if not isinstance(num, (VInt, VBool)) or not isinstance(txt, VStr):
                        raise Unsupported(f"{self.loc(node)} unit observation is not (int, str): {num!r}, {txt!r}")
                    res.append((s3, ops.int_term(num), txt.t))
        return res

    def e_Yield(self, n, st):
        if n.value is None:
            raise Unsupported(f"{self.loc(n)} bare yield")
        out = []
        for (s, v) in self.ev(n.value, st):
            s.yielded = s.yielded + [v]
            for (s2, num, text) in self.project_unit(s, v, n):
                self.y_append(s2, num, text)
                out.append((s2, NONE))
        return out

    def e_YieldFrom(self, n, st):
        out = []
        for (s, v) in self.ev(n.value, st):
            items = self.concrete_items(s, v)
            if items is None:
                view = self.seq_view(s, v)
                if view is not None and isinstance(view[1](K), AUnit):
                    self.y_extend(s, view[0], view[1])
                    out.append((s, NONE))
                    continue
                raise Unsupported(f"{self.loc(n)} yield from a symbolic iterable")
            states = [s]
            for it in items:
                nxt = []
                for cur in states:
                    for (s2, num, text) in self.project_unit(cur, it, n):
                        self.y_append(s2, num, text)
                        nxt.append(s2)
                states = nxt
            out.extend((x, NONE) for x in states)
        return out

    # --------------------------------------------------------------- loops --
    def seq_view(self, st, it):
        if isinstance(it, VRef) and st.obj(it.ref).kind == "alist":
            sq = st.obj(it.ref).data
            return sq.length, sq.elem
        return super().seq_view(st, it)

    def _resolve(self, st, e):
        """Value of a side-effect-free name / attribute chain in `st`, or None."""
        if isinstance(e, ast.Name):
            return st.lookup(e.id)
        if isinstance(e, ast.Attribute):
            b = self._resolve(st, e.value)
            if isinstance(b, VRef):
                o = st.obj(b.ref)
                if o.kind == "obj" and e.attr in o.data:
                    return o.data[e.attr]
            return None
        return None

    def havoc_loop_state(self, st, body, spec, extra_names=()):
        names = self.assigned_names(body) | set(extra_names)
        for name in sorted(names):
            cur = st.lookup(name)
            if cur is not None:
                st.bind(name, self.havoc_like(st, cur, name))
        if self._has_yield(body):
            self.y_havoc(st)
        fallback = set()
        done = set()

        def havoc_list(ref):
            if ref in done:
                return
            done.add(ref)
            o = st.heap.get(ref)
            if o is None:
                return
            if o.kind == "alist":
                sq = fresh_seq_like(o.data.ekind)
            elif o.kind in ("list",) and o.data is not None:
                kinds = {repr(ekind_of_value(x)) for x in o.data}
                ek = ekind_of_value(o.data[0]) if len(kinds) == 1 else "unk"
                sq = fresh_seq_like(ek)
            else:
                fallback.add(ref)
                return
            st.assume(sq.length >= 0)
            st.heap[ref] = HeapObj("alist", sq, None, o.fresh)

        work = [(n, 0) for n in body]
        expanded = set()
        while work:
            n, depth = work.pop()
            for sub in ast.walk(n):
                if isinstance(sub, ast.Call) and depth < 3 and id(sub) not in expanded:
                    # a helper of the same module / a nested function: its effect on the caller's objects is the effect of its
                    # body with the parameters replaced by the argument expressions (followed in place, not guessed)
                    inl = self._callee_body_for(st, sub)
                    if inl is not None:
                        expanded.add(id(sub))
                        work.extend((x, depth + 1) for x in inl)
                if isinstance(sub, ast.Attribute) and isinstance(sub.ctx, ast.Store):
                    b = self._resolve(st, sub.value)
                    if isinstance(b, VRef) and st.obj(b.ref).kind == "obj":
                        w = st.wobj(b.ref)
                        old = w.data.get(sub.attr)
                        w.data[sub.attr] = self.havoc_like(st, old, sub.attr) if old is not None else VUnk(sub.attr)
                    elif isinstance(b, VRef):
                        fallback.add(b.ref)
                    elif b is not None and not isinstance(b, VRef):
                        pass
                    else:
                        self._fallback_refs(st, sub.value, fallback)
                elif isinstance(sub, ast.Subscript) and isinstance(sub.ctx, ast.Store):
                    b = self._resolve(st, sub.value)
                    if isinstance(b, VRef):
                        o = st.obj(b.ref)
                        if o.kind in ("dict", "amap"):
                            self.amap_havoc(st, b.ref, self._stored_vkind(st, body, b.ref))
                        else:
                            fallback.add(b.ref)
                    else:
                        self._fallback_refs(st, sub.value, fallback)
                elif isinstance(sub, ast.Call):
                    if isinstance(sub.func, ast.Attribute):
                        b = self._resolve(st, sub.func.value)
                        if isinstance(b, VRef):
                            o = st.obj(b.ref)
                            if o.kind in ("list", "alist") and sub.func.attr in MUTATORS:
                                havoc_list(b.ref)
                            elif o.kind in ("dict", "amap") and sub.func.attr in ("setdefault", "update", "pop", "clear", "popitem"):
                                dflt = sub.args[1] if sub.func.attr == "setdefault" and len(sub.args) == 2 else None
                                self.amap_havoc(st, b.ref, "list" if isinstance(dflt, (ast.List, ast.ListComp)) else "other")
                            elif o.kind in ("list", "alist", "dict", "amap"):
                                pass          # non-mutating method of a container
                            elif o.kind == "obj":
                                pass          # method of a dataclass instance: inlined real code; stores seen syntactically only in this body
                            else:
                                fallback.add(b.ref)
                        elif b is None and isinstance(sub.func.value, ast.Subscript) and self._is_map(st, sub.func.value.value):
                            pass              # method of a value stored in a map: map values are not tracked (unknown lists)
                        elif b is None and not self._is_pure_receiver(st, sub.func.value):
                            self._fallback_refs(st, sub.func.value, fallback)
                    for a in list(sub.args) + [k.value for k in sub.keywords]:
                        if isinstance(a, (ast.Name, ast.Attribute)):
                            b = self._resolve(st, a)
                            if isinstance(b, VRef) and id(sub) not in expanded and self._call_may_mutate(st, sub):
                                fallback.add(b.ref)
                elif isinstance(sub, ast.AugAssign) and isinstance(sub.target, ast.Name):
                    b = st.lookup(sub.target.id)
                    if isinstance(b, VRef):
                        havoc_list(b.ref)
        for ref in sorted(fallback):
            o = st.heap.get(ref)
            if o is not None:
                st.heap[ref] = HeapObj("unk", None, o.cls, False)

    def _callee_node(self, st, call):
        f = call.func
        if isinstance(f, ast.Name):
            v = st.lookup(f.id)
            if isinstance(v, VFunc) and v.how == "closure" and isinstance(v.a, ast.FunctionDef):
                return v.a, False
            if v is None and f.id in self.module.functions and self.reg.get(f"{self.module.rel}::{f.id}") is None:
                return self.module.functions[f.id], False
        return None, False

    def _callee_body_for(self, st, call):
        """Body of a same-module helper / nested function called with plain arguments, with its parameters replaced by the
        argument expressions (copies); None when the call is not of that kind."""
        import copy
        fn, _m = self._callee_node(st, call)
        if fn is None or call.keywords and any(k.arg is None for k in call.keywords):
            return None
        params = [a.arg for a in fn.args.posonlyargs + fn.args.args]
        if len(call.args) > len(params) or any(isinstance(a, ast.Starred) for a in call.args):
            return None
        amap = dict(zip(params, call.args))
        for k in call.keywords:
            amap[k.arg] = k.value
        if not all(isinstance(a, (ast.Name, ast.Attribute, ast.Constant)) for a in amap.values()):
            return None

        class Sub(ast.NodeTransformer):
            def visit_Name(self, node):
                if node.id in amap and isinstance(node.ctx, ast.Load):
                    return copy.deepcopy(amap[node.id])
                return node

            def visit_Attribute(self, node):
                node = self.generic_visit(node)
                return node

        body = [Sub().visit(copy.deepcopy(x)) for x in fn.body]
        for b in body:
            ast.fix_missing_locations(b)
        return body

    def _fallback_refs(self, st, e, acc):
        while isinstance(e, (ast.Subscript, ast.Attribute)):
            e = e.value
        if isinstance(e, ast.Name):
            v = st.lookup(e.id)
            if isinstance(v, VRef):
                acc.add(v.ref)

    def _is_map(self, st, e):
        v = self._resolve(st, e) if isinstance(e, (ast.Name, ast.Attribute)) else None
        return isinstance(v, VRef) and st.obj(v.ref).kind in ("dict", "amap")

    def _is_pure_receiver(self, st, e):
        v = self._resolve(st, e) if isinstance(e, (ast.Name, ast.Attribute)) else None
        return v is not None and not isinstance(v, VRef)

    def _call_may_mutate(self, st, call):
        """Arguments handed to constructors of dataclasses / builtin conversions are not mutated."""
        f = call.func
        name = f.id if isinstance(f, ast.Name) else (f.attr if isinstance(f, ast.Attribute) else "")
        if name in ("list", "tuple", "set", "len", "str", "bool", "enumerate", "zip", "reversed", "sorted", "any", "all", "iter",
                    "isinstance", "append", "extend", "get", "join", "startswith"):
            return False
        if self.dataclass_fields(name) is not None:
            return False
        return True

    # ------------------------------------------------------- abstract lists --
    def new_alist(self, st, seq: VSeq, fresh=True) -> VRef:
        return VRef(st.alloc(HeapObj("alist", seq, None, fresh), self.refs))

    def truth(self, st, v):
        if isinstance(v, VRef) and st.obj(v.ref).kind == "alist":
            return VBool(st.obj(v.ref).data.length > 0)
        if isinstance(v, AUnit):
            return VBool(True)
        return super().truth(st, v)

    def b_len(self, st, args, kwargs, node):
        v = args[0]
        if isinstance(v, VRef) and st.obj(v.ref).kind == "alist":
            return [(st, VInt(st.obj(v.ref).data.length))]
        return super().b_len(st, args, kwargs, node)

    def b_collection(self, st, name, args, node):
        if args and isinstance(args[0], VRef) and st.obj(args[0].ref).kind == "alist" and name in ("list", "tuple"):
            sq = st.obj(args[0].ref).data
            return [(st, self.new_alist(st, sq) if name == "list" else sq)]
        return super().b_collection(st, name, args, node)

    def b_zip(self, st, args, kwargs, node):
        args = [st.obj(a.ref).data if isinstance(a, VRef) and st.obj(a.ref).kind == "alist" else a for a in args]
        return super().b_zip(st, args, kwargs, node)

    def b_enumerate(self, st, args, kwargs, node):
        if args and isinstance(args[0], VRef) and st.obj(args[0].ref).kind == "alist":
            args = [st.obj(args[0].ref).data] + list(args[1:])
        return super().b_enumerate(st, args, kwargs, node)

    def get_index(self, st, base, idx, node):
        if isinstance(base, VRef) and st.obj(base.ref).kind == "alist":
            return super().get_index(st, st.obj(base.ref).data, idx, node)
        if isinstance(base, VRef) and st.obj(base.ref).kind == "amap":
            return self.amap_lookup(st, base, idx, node)
        return super().get_index(st, base, idx, node)

    def freeze(self, st, v):
        """Element value stored in an abstract list: heap dataclass instances become abstract
        instances whose scalar fields equal the current field values."""
        if isinstance(v, VRef) and st.obj(v.ref).kind == "obj" and st.obj(v.ref).cls:
            o = st.obj(v.ref)
            sch = self.schema(o.cls) or {}
            e = VExt(o.cls)
            for f, kind in sch.items():
                cur = o.data.get(f)
                if kind in ("str", "int", "bool") and isinstance(cur, (VStr, VInt, VBool)):
                    st.assume(ops.eq_term(_val(kind, fld(o.cls, f, _sort_of_kind(kind))(e.t)), cur))
            st.ghost["frozen"] = st.ghost.get("frozen", frozenset()) | {v.ref}
            return e
        return v

    def alist_method(self, st, obj, name, args, kwargs, node):
        o = st.obj(obj.ref)
        sq: VSeq = o.data
        if name == "append" and sq.ekind == "unit" and isinstance(args[0], VRef) and st.obj(args[0].ref).kind == "obj":
            # a list of units: the appended unit object is stored as its observation (number, text), obtained by
            # running the real accessor methods of the unit class
            out = []
            for (s2, num, text) in self.project_unit(st, args[0], node):
                o2 = s2.obj(obj.ref)
                sq2 = o2.data
                n0, old = sq2.length, sq2.elem
                v = AUnit(num, text)
                new = VSeq(z3.simplify(n0 + 1), lambda k, n0=n0, old=old, v=v: _ite_val(k == n0, v, old(k)), "unit")
                self.note_store(s2, obj.ref, node)
                s2.heap[obj.ref] = HeapObj("alist", new, None, o2.fresh)
                out.append((s2, NONE))
            return out
        if name == "pop" and not args:
            n0 = sq.length
            st = self.fork_raise(st, n0 <= 0, "IndexError")
            if st is None:
                return []
            self.note_store(st, obj.ref, node)
            st.heap[obj.ref] = HeapObj("alist", VSeq(z3.simplify(n0 - 1), sq.elem, sq.ekind), None, o.fresh)
            return [(st, sq.elem(z3.simplify(n0 - 1)))]
        if name == "append":
            v = self.freeze(st, args[0])
            ek = sq.ekind
            vk = ekind_of_value(v)
            n0, old = sq.length, sq.elem
            if ek != "unk" and vk == ek:
                new = VSeq(z3.simplify(n0 + 1), lambda k, n0=n0, old=old, v=v: _ite_val(k == n0, v, old(k)), ek)
            else:
                new = VSeq(z3.simplify(n0 + 1), lambda k: VUnk("elem"), "unk")
            self.note_store(st, obj.ref, node)
            st.heap[obj.ref] = HeapObj("alist", new, None, o.fresh)
            return [(st, NONE)]
        if name == "extend":
            other = args[0]
            items = self.concrete_items(st, other)
            if items is not None:
                cur = st
                for it in items:
                    self.alist_method(cur, obj, "append", [it], {}, node)
                return [(cur, NONE)]
            view = self.seq_view(st, other)
            if view is None:
                raise Unsupported(f"{self.loc(node)} extend of an abstract list by {other!r}")
            m, oe = view
            n0, old = sq.length, sq.elem
            if isinstance(other, VRef) and st.obj(other.ref).kind == "alist":
                other = st.obj(other.ref).data
            same = isinstance(other, VSeq) and other.ekind == sq.ekind and sq.ekind != "unk"
            if z3.is_int_value(z3.simplify(n0)) and z3.simplify(n0).as_long() == 0 and isinstance(other, VSeq) and (same or sq.ekind == "unk"):
                new = VSeq(m, oe, other.ekind, tag=other.tag)            # extending an empty list: the result IS the other sequence
            elif same:
                new = VSeq(n0 + m, lambda k, n0=n0, old=old, oe=oe: _ite_val(k < n0, old(k), oe(k - n0)), sq.ekind)
            else:
                new = VSeq(n0 + m, lambda k: VUnk("elem"), "unk")
            self.note_store(st, obj.ref, node)
            st.heap[obj.ref] = HeapObj("alist", new, None, o.fresh)
            return [(st, NONE)]
        if name == "copy":
            return [(st, self.new_alist(st, sq))]
        if name == "clear":
            self.note_store(st, obj.ref, node)
            st.heap[obj.ref] = HeapObj("alist", VSeq(z3.IntVal(0), sq.elem, sq.ekind), None, o.fresh)
            return [(st, NONE)]
        raise Unsupported(f"{self.loc(node)} {name} on an abstract list")

    def list_method(self, st, obj, name, args, kwargs, node):
        o = st.obj(obj.ref)
        if name == "extend" and args and self.concrete_items(st, args[0]) is None and self.seq_view(st, args[0]) is not None \
                and o.kind == "list":
            # concrete list extended by a symbolic sequence: becomes an abstract list
            kinds = {repr(ekind_of_value(x)) for x in o.data}
            src = st.obj(args[0].ref).data if isinstance(args[0], VRef) and st.obj(args[0].ref).kind == "alist" else args[0]
            ek = ekind_of_value(o.data[0]) if len(kinds) == 1 else ("unk" if o.data else getattr(src, "ekind", "unk"))
            items = list(o.data)
            base = VSeq(z3.IntVal(len(items)), lambda k, items=items: _sel(items, k), ek if items else ek)
            st.heap[obj.ref] = HeapObj("alist", base, None, o.fresh)
            return self.alist_method(st, obj, "extend", args, kwargs, node)
        return super().list_method(st, obj, name, args, kwargs, node)

    # ------------------------------------------------ maps with symbolic keys --
    def _stored_vkind(self, st, body, ref):
        """Kind of the values the loop body stores into map `ref` ('list' when every store is a list display)."""
        ks = set()
        for n in body:
            for sub in ast.walk(n):
                if isinstance(sub, ast.Assign):
                    for t in sub.targets:
                        if isinstance(t, ast.Subscript):
                            b = self._resolve(st, t.value)
                            if isinstance(b, VRef) and b.ref == ref:
                                ks.add("list" if isinstance(sub.value, (ast.List, ast.ListComp)) else "other")
                elif isinstance(sub, (ast.AugAssign, ast.AnnAssign)) and isinstance(sub.target, ast.Subscript):
                    b = self._resolve(st, sub.target.value)
                    if isinstance(b, VRef) and b.ref == ref:
                        ks.add("other")
        if not ks:
            return None
        return "list" if ks == {"list"} else "other"

    def amap_havoc(self, st, ref, stored=None):
        o = st.heap[ref]
        vk = o.data.get("vkind") if o.kind == "amap" else _dict_vkind(st, o)
        if stored is not None:
            vk = stored if vk in (None, stored) else "other"
        st.heap[ref] = HeapObj("amap", {"present": z3.Const(fresh_name("map.has"), z3.ArraySort(I, B)), "vkind": vk}, None, o.fresh)

    def store_index(self, st, base, idx, v, node):
        if isinstance(base, VRef) and isinstance(idx, VInt) and (st.obj(base.ref).kind == "amap" or
                                                               (st.obj(base.ref).kind == "dict" and idx.const() is None)):
            o = st.obj(base.ref)
            if o.kind == "dict":
                if o.data:
                    return super().store_index(st, base, idx, v, node)
                st.heap[base.ref] = HeapObj("amap", {"present": z3.K(I, z3.BoolVal(False)), "vkind": None}, None, o.fresh)
                o = st.obj(base.ref)
            vk = "list" if isinstance(v, VRef) and st.obj(v.ref).kind in ("list", "alist") else "other"
            d = dict(o.data)
            d["vkind"] = vk if d["vkind"] in (None, vk) else "other"
            d["present"] = z3.Store(d["present"], ops.int_term(idx), z3.BoolVal(True))
            self.note_store(st, base.ref, node)
            st.heap[base.ref] = HeapObj("amap", d, None, o.fresh)
            return [st]
        return super().store_index(st, base, idx, v, node)

    def contains(self, st, container, item, node):
        if isinstance(container, VRef):
            o = st.obj(container.ref)
            if o.kind == "amap" and isinstance(item, VInt):
                return [(st, VBool(z3.Select(o.data["present"], ops.int_term(item))))]
            if o.kind == "dict" and not o.data and isinstance(item, VInt):
                return [(st, VBool(False))]
            if o.kind == "alist":
                return super().contains(st, o.data, item, node)
        return super().contains(st, container, item, node)

    def _amap_value(self, st, o):
        if o.data.get("vkind") == "list":
            sq = fresh_seq_like("unk")
            st.assume(sq.length >= 0)
            return self.new_alist(st, sq)
        return VUnk("map-value")

    def amap_lookup(self, st, base, idx, node):
        o = st.obj(base.ref)
        if not isinstance(idx, VInt):
            raise Unsupported(f"{self.loc(node)} map lookup by {idx!r}")
        has = z3.Select(o.data["present"], ops.int_term(idx))
        st = self.fork_raise(st, z3.Not(has), "KeyError")
        if st is None:
            return []
        return [(st, self._amap_value(st, o))]

    def amap_method(self, st, obj, name, args, kwargs, node):
        o = st.obj(obj.ref)
        if name == "get" and args and isinstance(args[0], VInt):
            # value stored under the key, or the default: an unknown list when every stored value is a list
            default = args[1] if len(args) > 1 else NONE
            if o.data.get("vkind") == "list" and isinstance(default, VRef) and st.obj(default.ref).kind in ("list", "alist"):
                return [(st, self._amap_value(st, o))]
            return [(st, VUnk("map.get"))]
        if name == "setdefault" and len(args) == 2 and isinstance(args[0], VInt):
            # m.setdefault(k, d): afterwards k is present; the value is the stored one or d -- an unknown list when all values are lists
            d = args[1]
            is_list = isinstance(d, VRef) and st.obj(d.ref).kind in ("list", "alist")
            data = dict(o.data)
            data["vkind"] = ("list" if is_list else "other") if data.get("vkind") in (None, "list" if is_list else "other") else "other"
            data["present"] = z3.Store(data["present"], ops.int_term(args[0]), z3.BoolVal(True))
            self.note_store(st, obj.ref, node)
            st.heap[obj.ref] = HeapObj("amap", data, None, o.fresh)
            return [(st, self._amap_value(st, st.obj(obj.ref)))]
        raise Unsupported(f"{self.loc(node)} {name} on a map with symbolic keys")

    def dict_method(self, st, obj, mapping, name, args, kwargs, node, const):
        if not const and name == "setdefault" and len(args) == 2 and isinstance(args[0], VInt) and args[0].const() is None and not mapping:
            o = st.obj(obj.ref)
            st.heap[obj.ref] = HeapObj("amap", {"present": z3.K(I, z3.BoolVal(False)), "vkind": None}, None, o.fresh)
            return self.amap_method(st, obj, name, args, kwargs, node)
        if not const and name == "get" and args and isinstance(args[0], VInt) and args[0].const() is None and not mapping:
            return [(st, args[1] if len(args) > 1 else NONE)]
        return super().dict_method(st, obj, mapping, name, args, kwargs, node, const)

    # ------------------------------------------------------ comprehensions --
    def _probe_iter(self, n, st):
        if len(n.generators) != 1:
            return None
        g = n.generators[0]
        mark = len(self.sinks[-1])
        res = self.ev(g.iter, st.fork())
        del self.sinks[-1][mark:]
        if len(res) != 1:
            return None
        s2, it = res[0]
        if self.concrete_items(s2, it) is not None:
            return None
        view = self.seq_view(s2, it)
        if view is None:
            return None
        return view

    def _sym_comp(self, n, st, elt_nodes):
        """Comprehension over a symbolic sequence -> VSeq (or None: not symbolic)."""
        view = self._probe_iter(n, st)
        if view is None:
            return None
        g = n.generators[0]
        res = self.ev(g.iter, st)
        (st, _it) = res[0]
        length, elem = view
        snap = st.fork()

        def at(k, want_conds=False):
            s = snap.fork()
            s.frames.append(Frame({}, len(s.frames) - 1, s.frame.fnode))
            self.sinks.append([])
            try:
                outs = []
                for s3 in self.assign(g.target, elem(k), s):
                    conds = []
                    cur = [s3]
                    for cond in g.ifs:
                        nxt = []
                        for s4 in cur:
                            for (s5, cv) in self.ev(cond, s4):
                                conds.append(self.truth(s5, cv).t)
                                nxt.append(s5)
                        cur = nxt
                    for s4 in cur:
                        vals = [s4]
                        acc = [[]]
                        for en in elt_nodes:
                            nv, na = [], []
                            for s5, a in zip(vals, acc):
                                for (s6, v) in self.ev(en, s5):
                                    nv.append(s6)
                                    na.append(a + [self.comp_value(s6, v, n)])
                            vals, acc = nv, na
                        outs.extend(acc)
            finally:
                sink = self.sinks.pop()
            return outs, sink, conds

        j = z3.Int(fresh_name("j"))
        snap.assume(z3.And(j >= 0, j < length))
        outs, sink, conds = at(j)
        for (es, exc) in sink:          # exceptions of the element expression are real exceptional paths
            es.frames.pop()
            self.raise_in(es, exc)
        if not outs:
            raise Unsupported(f"{self.loc(n)} comprehension element has no normal outcome")
        if len(outs) != 1:
            # the element expression forks (e.g. `a if c else None`): elements of unknown kind
            if g.ifs:
                sq = fresh_seq_like("unk", "filter")
                st.assume(z3.And(sq.length >= 0, sq.length <= length))
                return st, sq
            return st, VSeq(length, lambda k: VUnk("comp-elem"), "unk")
        sample = outs[0]

        def pure_val(v):
            return v if not isinstance(v, VRef) else VUnk("comp-elem")

        if not g.ifs:
            def el(k):
                o, _s, _c = at(k)
                vs = [pure_val(x) for x in o[0]]
                return vs[0] if len(vs) == 1 else VTuple(vs)
            ek = ekind_of_value(pure_val(sample[0])) if len(sample) == 1 else "unk"
            return st, VSeq(length, el, ek)
        # filtered: an order-preserving sub-sequence (length between 0 and n), elements of the sampled kind
        ek = ekind_of_value(pure_val(sample[0])) if len(sample) == 1 else "unk"
        sq = fresh_seq_like(ek, "filter")
        st.assume(z3.And(sq.length >= 0, sq.length <= length))
        if getattr(self, "filter_facts", False) and _sort_of_kind(ek) is not None and conds and not sink:
            # PY-COMP: [el(x) for x in xs if keep(x)] keeps exactly the elements with keep, in order.  Stated with the generic
            # counting function COUNT_TRUE(keep, k) = |{j < k : keep[j]}| over the keep predicate as a lambda array:
            #   len == COUNT_TRUE(keep, n);  keep[k] => 0 <= COUNT_TRUE(keep, k) < len and result[COUNT_TRUE(keep, k)] == el(k)
            o_k, s_k, c_k = at(K)
            if len(o_k) == 1 and len(o_k[0]) == 1 and not s_k and hasattr(pure_val(o_k[0][0]), "t"):
                keep_body = c_k[0] if len(c_k) == 1 else z3.And(c_k)
                keep = z3.Lambda([K], keep_body)
                el_k = pure_val(o_k[0][0]).t
                kk = z3.Int("k!flt")
                cnt = COUNT_TRUE(keep, kk)
                st.assume(sq.length == COUNT_TRUE(keep, length))
                st.assume(count_true_def(keep, z3.IntVal(0)))
                st.assume(z3.ForAll([kk], z3.Implies(
                    z3.And(kk >= 0, kk < length, z3.substitute(keep_body, (K, kk))),
                    z3.And(cnt >= 0, cnt < sq.length, sq.elem(cnt).t == z3.substitute(el_k, (K, kk)))), patterns=[cnt]))
                sq.tag = ("filtered", keep, length)
        return st, sq

    def comp_value(self, st, v, node):
        """hook: the value an element expression of a comprehension over a symbolic sequence contributes"""
        return v

    def y_extend(self, st, length, elem):
        """the generator yields a whole symbolic sequence of observed units"""
        n0, nums, txts = self.y_get(st)
        st.assume(length >= 0)
        u = elem(K - n0)
        st.ghost["Y"] = (z3.simplify(n0 + length), z3.Lambda([K], z3.If(K < n0, z3.Select(nums, K), u.num)),
                         z3.Lambda([K], z3.If(K < n0, z3.Select(txts, K), u.text)))

    def e_ListComp(self, n, st):
        r = self._sym_comp(n, st, [n.elt])
        if r is None:
            return super().e_ListComp(n, st)
        s, sq = r
        return [(s, self.new_alist(s, sq))]

    def e_GeneratorExp(self, n, st):
        r = self._sym_comp(n, st, [n.elt])
        if r is None:
            return super().e_GeneratorExp(n, st)
        return [r]


def _ite_val(c, a, b):
    if isinstance(a, AUnit) and isinstance(b, AUnit):
        return AUnit(z3.If(c, a.num, b.num), z3.If(c, a.text, b.text))
    m = ops.same_shape_ite(c, a, b)
    return m if m is not None else VUnk("elem")


def _sel(items, k):
    if not items:
        return VUnk("elem")
    acc = items[-1]
    for i in range(len(items) - 2, -1, -1):
        acc = _ite_val(k == i, items[i], acc)
    return acc


def _dict_vkind(st, o):
    if o.kind != "dict" or o.data is None:
        return None
    ks = set()
    for v in o.data.values():
        ks.add("list" if isinstance(v, VRef) and st.obj(v.ref).kind in ("list", "alist") else "other")
    if not ks:
        return None
    return "list" if ks == {"list"} else "other"


# ------------------------------------------------------ library str models --
def m_strip(ex, st, args, kwargs, node):
    if len(args) != 1 or not isinstance(args[0], VStr):
        raise Unsupported(f"{ex.loc(node)} strip with arguments")
    return [(st, VStr(STRIP(args[0].t)))]


def m_join(ex, st, args, kwargs, node):
    sep, seq = args[0], args[1]
    if isinstance(seq, VRef) and st.obj(seq.ref).kind == "alist":
        seq = st.obj(seq.ref).data
    if not isinstance(seq, VSeq):
        raise Unsupported(f"{ex.loc(node)} join over {seq!r}")
    return [(st, VStr(JOIN(sep.t, elem_lambda(seq), seq.length)))]


def install(reg):
    register_refuter()
    reg.ext_models["str.strip"] = m_strip
    reg.ext_models["str.join"] = m_join


# --------------------------------------------- bounded refuter for join VCs --
def _collect_joins(exprs):
    seen, out, stack = set(), [], list(exprs)
    while stack:
        x = stack.pop()
        i = x.get_id()
        if i in seen:
            continue
        seen.add(i)
        if z3.is_quantifier(x):
            stack.append(x.body())
            continue
        if z3.is_app(x):
            if x.decl().name() == "str_join" and x.num_args() == 3:
                out.append(x)
            stack.extend(x.children())
    return out


def join_refuter(pc, goal, timeout_ms=None):
    """DESIGN 2.5.3a: a VC about `sep.join(seq)` that z3 leaves unknown is re-checked with the sequence
    length instantiated to 0..3 and the join written out; `sat` there is a counter-model in which
    join is the real join (str.strip stays uninterpreted; the native replayer confirms)."""
    fs = list(pc) + [z3.Not(goal)]
    joins = _collect_joins(fs)
    if not joins:
        return None
    lens = {}
    for j in joins:
        L = j.arg(2)
        lens[L.get_id()] = L
    for n in range(0, 4):
        subs = []
        for j in joins:
            sep, arr = j.arg(0), j.arg(1)
            if n == 0:
                e = z3.StringVal("")
            else:
                e = z3.Select(arr, z3.IntVal(0))
                for i in range(1, n):
                    e = z3.Concat(e, sep, z3.Select(arr, z3.IntVal(i)))
            subs.append((j, e))
        s = z3.Solver()
        s.set("timeout", min(timeout_ms or 5000, 5000))
        for f in fs:
            s.add(z3.simplify(z3.substitute(f, *subs)))
        for L in lens.values():
            if not z3.is_int_value(L):
                s.add(L == n)
            elif L.as_long() != n:
                s.add(z3.BoolVal(False))
        if s.check() == z3.sat:
            return f"falsified by bounded instantiation: sequence length {n}, join written out"
    return None


def register_refuter():
    from pyvc import solve
    if join_refuter not in solve.EXTRA_REFUTERS:
        solve.EXTRA_REFUTERS.append(join_refuter)
