"""C19 (round 6) -- `for T in helper(..): BODY` / `[ELT for T in helper(..) if C]` over an uncontracted *generator helper*
of the same module, executed in PUSH FORM: the helper's body with every `yield v` statement replaced by
`for T in (v,): BODY` (`yield from E` by `for T in E: BODY`).  That is exactly the interleaving Python runs when nothing
leaves the iteration early (the consumer's body runs between two resumptions of the generator), so every shape where
something could leave early, or where the generator object is observable, is refused (`Unsupported` -> the function goes
to the bounded native stand-in, never to a verdict): `break` in BODY, `return` inside the helper, a yield inside
try / with, yields in expression position, nested definitions, variadic parameters.  The helper's locals are renamed
apart; its parameters are assigned from the call's arguments (evaluated once, in order, before the body -- a generator
evaluates its arguments at the call and runs nothing else before the first `next`; the consumer evaluates nothing between
the call and the first `next`).

The loops of the helper keep the pack's loop rule (invariants are chosen by WHAT is iterated); their obligation labels are
`<helper>.loop<k>`.
"""
import ast
import copy

_Y = (ast.Yield, ast.YieldFrom)


def generator_helper(ex, st, call):
    """the FunctionDef of a module-level generator of this module called by plain name, without a contract; else None"""
    if not isinstance(call, ast.Call) or not isinstance(call.func, ast.Name):
        return None
    name = call.func.id
    try:
        if st.lookup(name) is not None and name not in ex.module.functions:
            return None
    except Exception:  # noqa
        return None
    fnode = ex.module.functions.get(name)
    if fnode is None or not isinstance(fnode, ast.FunctionDef) or any(fnode is x for x in ex.cur_fn_stack):
        return None
    if ex.reg.get(f"{ex.module.rel}::{name}") is not None:
        return None
    own = []

    def rec(n):
        for ch in ast.iter_child_nodes(n):
            if isinstance(ch, (ast.FunctionDef, ast.AsyncFunctionDef, ast.Lambda, ast.ClassDef)):
                continue
            if isinstance(ch, _Y):
                own.append(ch)
            rec(ch)
    rec(fnode)
    return fnode if own else None


def _breaks(stmts):
    for x in stmts:
        if isinstance(x, ast.Break):
            return True
        if isinstance(x, (ast.For, ast.While, ast.FunctionDef, ast.AsyncFunctionDef, ast.ClassDef)):
            if isinstance(x, (ast.For, ast.While)) and _breaks(x.orelse):
                return True
            continue
        for fld in ("body", "orelse", "finalbody"):
            if _breaks(getattr(x, fld, []) or []):
                return True
        if any(_breaks(hd.body) for hd in getattr(x, "handlers", [])):
            return True
    return False


def push(ex, at, fnode, call, target, body, orelse=()):
    """-> statements; `at` = the consuming node (location, cache key)"""
    cache = ex.__dict__.setdefault("_push_cache", {})
    hit = cache.get(id(at))
    if hit is not None:
        return hit[1]
    un = lambda why: ex.unsupported(at, f"iteration over generator helper {fnode.name}: {why}")
    if _breaks(body):
        un("break in the consuming body")
    if any(isinstance(k, ast.Starred) for k in call.args) or any(k.arg is None for k in call.keywords):
        un("starred arguments")
    if any(isinstance(x, (ast.Return,)) for b in body for x in ast.walk(b)):
        un("return in the consuming body")
    for x in ast.walk(fnode):
        if x is not fnode and isinstance(x, (ast.FunctionDef, ast.AsyncFunctionDef, ast.Lambda, ast.ClassDef, ast.Return, ast.Global,
                                             ast.Nonlocal, ast.Await)):
            un(f"{type(x).__name__} inside the helper")
        if isinstance(x, ast.ExceptHandler) and x.name:
            un("named exception handler inside the helper")
    if fnode.decorator_list:
        un("decorated helper")
    a = fnode.args
    if a.vararg or a.kwarg or a.posonlyargs:
        un("variadic parameters")
    params = [p.arg for p in a.args]
    kwonly = [p.arg for p in a.kwonlyargs]
    if len(call.args) > len(params):
        un("too many positional arguments")
    given = dict(zip(params, call.args))
    for k in call.keywords:
        if k.arg in given or k.arg not in params + kwonly:
            un(f"unexpected keyword {k.arg}")
        given[k.arg] = k.value
    dflt = dict(zip(params[len(params) - len(a.defaults):], a.defaults))
    dflt.update({p: d for p, d in zip(kwonly, a.kw_defaults) if d is not None})
    local = set(params) | set(kwonly)
    for x in ast.walk(fnode):
        if isinstance(x, ast.Name) and isinstance(x.ctx, (ast.Store, ast.Del)):
            local.add(x.id)
    pre = f"_g{at.lineno}_{at.col_offset}_"
    binds = []
    for p in params + kwonly:
        src = given.get(p, dflt.get(p))
        if src is None or (p not in given and not isinstance(src, ast.Constant)):
            un(f"argument {p}")
        binds.append(ast.Assign(targets=[ast.Name(id=pre + p, ctx=ast.Store())], value=src))

    class Ren(ast.NodeTransformer):
        def visit_Name(self, node):
            return ast.copy_location(ast.Name(id=pre + node.id, ctx=node.ctx), node) if node.id in local else node

    def rewrite(stmts, guarded):
        out = []
        for x in stmts:
            if isinstance(x, ast.Expr) and isinstance(x.value, _Y):
                if guarded:
                    un("yield inside try / with")
                v = x.value.value
                if isinstance(x.value, ast.Yield):
                    v = ast.Tuple(elts=[v if v is not None else ast.Constant(value=None)], ctx=ast.Load())
                if any(isinstance(y, _Y) for y in ast.walk(v)):
                    un("nested yield")
                out.append(ast.copy_location(ast.For(target=target, iter=v, body=list(body), orelse=[], type_comment=None), x))
                continue
            for sub in ast.iter_child_nodes(x):
                if not isinstance(sub, (ast.stmt, ast.ExceptHandler)) and any(isinstance(y, _Y) for y in ast.walk(sub)):
                    un("yield in expression position")
            g2 = guarded or isinstance(x, (ast.Try, ast.With))
            for fld in ("body", "orelse", "finalbody"):
                if isinstance(getattr(x, fld, None), list):
                    setattr(x, fld, rewrite(getattr(x, fld), g2))
            for hd in getattr(x, "handlers", []):
                hd.body = rewrite(hd.body, True)
            out.append(x)
        return out
    hbody = [Ren().visit(copy.deepcopy(x)) for x in fnode.body
             if not (isinstance(x, ast.Expr) and isinstance(x.value, ast.Constant))]
    # the helper's own loops, labelled before the consumer's body is spliced in
    loops = sorted((n for b in hbody for n in ast.walk(b) if isinstance(n, (ast.For, ast.While))), key=lambda n: (n.lineno, n.col_offset))
    labels = ex.__dict__.setdefault("_push_labels", {})
    for k, n in enumerate(loops):
        labels[id(n)] = (n, f"{fnode.name}.loop{k}")
    stmts = binds + rewrite(hbody, False) + list(orelse)
    for x in stmts:
        if not hasattr(x, "lineno"):
            ast.copy_location(x, at)
        ast.fix_missing_locations(x)
    cache[id(at)] = (at, stmts)
    return stmts


def loop_stmts(ex, st, s):
    """`for T in helper(..): BODY [else: E]` -> statements | None (not such a loop)"""
    if not isinstance(s, ast.For) or isinstance(s, ast.AsyncFor):
        return None
    fnode = generator_helper(ex, st, s.iter)
    if fnode is None:
        return None
    return push(ex, s, fnode, s.iter, s.target, s.body, s.orelse)


def comp_stmts(ex, st, n):
    """`[ELT for T in helper(..) if C ...]` -> (statements, name of the accumulator) | None"""
    if not isinstance(n, ast.ListComp) or len(n.generators) != 1 or n.generators[0].is_async:
        return None
    g = n.generators[0]
    fnode = generator_helper(ex, st, g.iter)
    if fnode is None:
        return None
    hit = ex.__dict__.setdefault("_push_comp", {}).get(id(n))
    if hit is not None:
        return hit[1], hit[2]
    pre = f"_c{n.lineno}_{n.col_offset}_"
    acc = pre + "acc"
    tnames = {x.id for x in ast.walk(g.target) if isinstance(x, ast.Name)}

    class Ren(ast.NodeTransformer):          # the comprehension's own variables live in their own scope
        def visit_Name(self, node):
            return ast.copy_location(ast.Name(id=pre + node.id, ctx=node.ctx), node) if node.id in tnames else node
    if any(isinstance(x, (ast.Lambda, ast.ListComp, ast.SetComp, ast.DictComp, ast.GeneratorExp)) for e in [n.elt] + list(g.ifs) for x in ast.walk(e)):
        ex.unsupported(n, f"comprehension over generator helper {fnode.name}: nested scope in the element / filter")
    target = Ren().visit(copy.deepcopy(g.target))
    elt = Ren().visit(copy.deepcopy(n.elt))
    inner = ast.Expr(value=ast.Call(func=ast.Attribute(value=ast.Name(id=acc, ctx=ast.Load()), attr="append", ctx=ast.Load()),
                                    args=[elt], keywords=[]))
    for cnd in reversed(g.ifs):
        inner = ast.If(test=Ren().visit(copy.deepcopy(cnd)), body=[inner], orelse=[])
    ast.copy_location(inner, n)
    ast.fix_missing_locations(inner)
    init = ast.Assign(targets=[ast.Name(id=acc, ctx=ast.Store())], value=ast.List(elts=[], ctx=ast.Load()))
    ast.copy_location(init, n)
    ast.fix_missing_locations(init)
    stmts = [init] + push(ex, n, fnode, g.iter, target, [inner])
    ex._push_comp[id(n)] = (n, stmts, acc)
    return stmts, acc
