"""C11 round 7 -- the consumers of the guard under DEDUCTIVE contracts (before: only the must-dataflow typestate of C11_flow).

Functions put under a solver-discharged contract here (real bodies, symbolic execution by C11Executor):
  * zip_context.py::ZipContext.__init__            -- establishes the class invariant INV(self): the container handle the object
    keeps is an OPEN container that the guard ACCEPTED under the configured (default) limits, opened from the caller's stream;
    the entry names are read from that handle only after the acceptance; on any failure no container is left open.
  * zip_context.py::ZipContext.read_bytes / open_stream / read_xml_root / read_text / close (every public method that touches the
    handle; found from the real class body, not listed by name) -- under INV(self): every member access goes to the accepted
    handle (call-pre of the access), INV is preserved (the handle is never replaced by an unvalidated container; any method
    may close it).
  * zip_utils.py::read_zip_text / read_zip_xml_root -- requires: the container handed in was accepted and is open.
  * encryption.py::is_odf_encrypted                -- the manifest is read only from a container accepted under the configured
    limits, no container is left open on any exit (normal / exceptional).

The "member access" is an ASSUMED library call (zipfile.ZipFile.namelist / read / open / extract / extractall / testzip: may
raise anything, result unknown) with a PROVED precondition `container accepted under the configured limits and still open`
(obligation kind call-pre, label `member-access-on-accepted-open-container`, one VC per access).  "Configured limits" = what the REAL default
of the guard's `limits` parameter denotes (the module-level default object, field values evaluated from the class body:
C11Executor.config_object; tied to the documented numbers by the `defaults#` obligations of C11_flow.configuration).

The handle attribute is found by role (the attribute of `self` that holds a ZipFile view after the real __init__ ran / the
attribute __init__ stores a call result into), never by name.
"""
import ast

import z3

from pyvc.contracts import FnContract, Raises
from pyvc.values import NONE, VExt, VRef, VUnk, fresh_name
from pyvc.verify import Maker, p_ext, p_obj, p_str
from pyvc import ops

ZB = "sharepoint2text/parsing/extractors/util/zip_bomb.py"
ZC = "sharepoint2text/parsing/extractors/util/zip_context.py"
ZU = "sharepoint2text/parsing/extractors/util/zip_utils.py"
ENC = "sharepoint2text/parsing/extractors/util/encryption.py"

# ASSUMED total on an open container (CPython: a list built from the already parsed central directory, nothing is read)
TOTAL = ("namelist",)
MISSING_MEMBER = ("read", "open", "getinfo", "extract")
ACCESS = ("namelist", "read", "open", "extract", "extractall", "testzip", "getinfo", "infolist_names")


def _c11():
    from contracts import C11
    return C11


def guard_executor(ex):
    """An executor of the pack's class on the guard module (shares registry / universe / reference counter)."""
    from pyvc import loader
    if ex.module.rel == ZB:
        return ex
    sub = getattr(ex, "_c11_guard_ex", None)
    if sub is None:
        m = loader.module(ZB, ex.module.repo)
        sub = type(ex)(m, ex.reg, ex.uni)
        sub.refs = ex.refs
        ex._c11_guard_ex = sub
    return sub


def default_limits_name(ex):
    """Name of the module-level object the REAL `limits` default of open_zipfile denotes."""
    g = guard_executor(ex)
    node = g.module.functions.get("open_zipfile")
    if node is None:
        raise ops.Unsupported("guard module has no open_zipfile")
    a = node.args
    for arg, d in list(zip(a.kwonlyargs, a.kw_defaults)) + list(zip((a.posonlyargs + a.args)[::-1], a.defaults[::-1])):
        if arg.arg == "limits" and isinstance(d, ast.Name):
            return d.id
    raise ops.Unsupported("open_zipfile has no readable `limits` default")


def configured_limits(ex, st):
    """The configured limits as a dict of terms (the default configuration object of the guard module on this path)."""
    g = guard_executor(ex)
    v = g.config_object(default_limits_name(ex), st)
    if v is None:
        raise ops.Unsupported("the default configuration of the guard module is not a readable configuration object")
    d = st.obj(v.ref).data
    return {"max_entries": d["max_entries"].t, "total": d["max_total_uncompressed_bytes"].t,
            "single": d["max_single_uncompressed_bytes"].t,
            "total_ratio": d["max_total_compression_ratio"].t, "entry_ratio": d["max_entry_compression_ratio"].t}


def is_open(st, z):
    return z.get_id() in st.ghost.get("open_zips", frozenset())


def accepted_open(ex, st, z):
    C = _c11()
    return z3.And(z3.Not(C.spec_reject(z, configured_limits(ex, st))), z3.BoolVal(is_open(st, z)))


# ------------------------------------------------------------------------------------- assumed member access, proved pre --
def member_access(name):
    def model(ex, st, obj, args, kwargs, node):
        # ONE obligation per function (a VC per access): the id survives read <-> open rewrites and added accesses
        ex.add_vc("call-pre", "member-access-on-accepted-open-container", st.pc, accepted_open(ex, st, obj.t),
                  note=f"ZipFile.{name} at {ex.loc(node)}", loc=ex.loc(node))
        st.ghost["c11!accesses"] = st.ghost.get("c11!accesses", ()) + ((obj.t, name),)
        if name in MISSING_MEMBER:
            # documented behaviour, not an over-approximation: no member of that name -> KeyError (a REAL path: refutations on it count)
            ex.raise_in(st.fork(), ex.mk_exc("KeyError"))
        if name not in TOTAL:
            ex.exc_any(st.fork(), f"{ex.loc(node)} ZipFile.{name}")
            return [(st, VUnk(f"ZipFile.{name}"))]
        return [(st, VExt("ZipNames"))]
    return model


def m_is_zipfile(ex, st, args, kwargs, node):
    """zipfile.is_zipfile(stream): ASSUMED total (CPython catches OSError and answers False), some Boolean, moves the stream."""
    from contracts import common
    from pyvc.values import VBool
    if args and isinstance(args[0], VExt) and args[0].sort == "BytesIO":
        common.havoc_pos(ex, st, args[0])
    return [(st, VBool(z3.Bool(fresh_name("is_zipfile"))))]


def install_models(reg):
    for name in ACCESS:
        reg.method_models[("ZipFile", name)] = member_access(name)
    reg.ext_models["zipfile.is_zipfile"] = m_is_zipfile


# ------------------------------------------------------------------------------------------------- the context class --
def handle_attrs(cls_node):
    """Attributes of `self` that the real __init__ stores and that some method of the class uses as the receiver of a container
    method or hands to a reader (role: the container handle)."""
    init = next((n for n in cls_node.body if isinstance(n, ast.FunctionDef) and n.name == "__init__"), None)
    if init is None or not init.args.args:
        return []
    me = init.args.args[0].arg
    stored = []
    for n in ast.walk(init):
        if isinstance(n, (ast.Assign, ast.AnnAssign)) and n.value is not None:
            for t in (n.targets if isinstance(n, ast.Assign) else [n.target]):
                if isinstance(t, ast.Attribute) and isinstance(t.value, ast.Name) and t.value.id == me:
                    stored.append(t.attr)
    used = set()
    for f in cls_node.body:
        if not isinstance(f, ast.FunctionDef) or not f.args.args:
            continue
        s = f.args.args[0].arg
        def is_attr(e):
            return isinstance(e, ast.Attribute) and isinstance(e.value, ast.Name) and e.value.id == s and e.attr in stored
        for n in ast.walk(f):
            if not isinstance(n, ast.Call):
                continue
            if isinstance(n.func, ast.Attribute) and is_attr(n.func.value) and n.func.attr in ACCESS + ("close", "infolist"):
                used.add(n.func.value.attr)           # receiver of a container method
            callee = ast.unparse(n.func).split(".")[-1]
            if f.name == "__init__" or callee in ("open_zipfile", "validate_zip_bytesio", "validate_zipfile", "ZipFile", "BytesIO"):
                continue                              # the stream handed to the guard / a constructor is not the handle
            for a in list(n.args) + [k.value for k in n.keywords]:
                if is_attr(a) and not (isinstance(n.func, ast.Name) and n.func.id in ("set", "list", "len", "sorted", "tuple", "frozenset")):
                    used.add(a.attr)                  # handed to a reader
    return [a for a in stored if a in used]


def handle_of(st, selfv):
    """The ZipFile views kept in attributes of the object (by role: value sort)."""
    d = st.obj(selfv.ref).data or {}
    return [(a, v) for a, v in d.items() if isinstance(v, VExt) and v.sort == "ZipFile"]


def methods_touching(cls_node, attrs):
    """The undecorated methods of the class that touch a handle attribute OR call anything that could open / read a container
    (any call that is not a plain read of `self.<attr>`): a method that leaves the handle alone and re-opens the stream is under
    the invariant contract too."""
    out = []
    for f in cls_node.body:
        if not isinstance(f, ast.FunctionDef) or f.name == "__init__" or not f.args.args or f.decorator_list:
            continue
        if f.name.startswith("_") and not (f.name.startswith("__") and f.name.endswith("__")):
            continue      # a private helper runs in place of its call (it may run inside __init__, before the invariant holds)
        s = f.args.args[0].arg
        if any(isinstance(n, ast.Attribute) and isinstance(n.value, ast.Name) and n.value.id == s and n.attr in attrs for n in ast.walk(f)) \
                or any(isinstance(n, ast.Call) for n in ast.walk(f)):
            out.append(f)
    return out


def other_attrs(cls_node, attrs):
    """every other attribute the real __init__ stores (unknown content under the invariant)"""
    init = next((n for n in cls_node.body if isinstance(n, ast.FunctionDef) and n.name == "__init__"), None)
    out = []
    if init is not None and init.args.args:
        me = init.args.args[0].arg
        for n in ast.walk(init):
            if isinstance(n, ast.Attribute) and isinstance(n.ctx, ast.Store) and isinstance(n.value, ast.Name) and n.value.id == me \
                    and n.attr not in attrs and n.attr not in out:
                out.append(n.attr)
    return out


def p_accepted_zip():
    """An OPEN container view accepted under the configured limits (the class invariant / the readers' precondition as a maker)."""
    def make(ex, st, name):
        C = _c11()
        zf = VExt("ZipFile")
        st.assume(z3.And(C.n_of(zf.t) >= 0, C.sizes_nonneg(zf.t)))
        st.assume(z3.Not(C.spec_reject(zf.t, configured_limits(ex, st))))
        st.ghost["open_zips"] = st.ghost.get("open_zips", frozenset()) | {zf.t.get_id()}
        st.ghost["c11!given"] = st.ghost.get("c11!given", ()) + (zf.t,)
        return zf
    return Maker(make, desc="open ZipFile accepted under the configured limits")


def contracts(reg):
    from pyvc import loader
    install_models(reg)
    out = []
    try:
        m = loader.module(ZC)
        cls = m.classes.get("ZipContext")
    except (OSError, SyntaxError):
        cls = None
    if cls is not None:
        out.extend(_context_contracts(cls))
    out.extend(_reader_contracts())
    out.append(_odf_probe_contract())
    return out


def _only_accepted_accessed(c):
    """every member access on this path went to a container (checked at the access: call-pre); here: at least the handle"""
    return z3.BoolVal(True)


def _context_contracts(cls):
    C = _c11()
    attrs = handle_attrs(cls)
    out = []

    def init_handle(c):
        hs = handle_of(c.st, c.args["self"])
        if len(hs) != 1:
            raise ops.Unsupported(f"the context object keeps {len(hs)} container handles after __init__ (expected one)")
        return hs[0][1].t

    def inv_after_init(c):
        z = init_handle(c)
        return accepted_open(c.ex, c.st, z)

    def from_callers_stream(c):
        z = init_handle(c)
        mine = [zz for (zz, src) in c.st.ghost.get("c11!opened", ()) if src is not None and z3.eq(src, c.args["file_like"].t)]
        return z3.BoolVal(any(z3.eq(z, zz) for zz in mine))

    def nothing_else_open(c):
        z = init_handle(c)
        return z3.BoolVal(c.st.ghost.get("open_zips", frozenset()) == frozenset({z.get_id()}))

    out.append(FnContract(
        target=f"{ZC}::ZipContext.__init__",
        params=[("self", p_obj("ZipContext", {})), ("file_like", p_ext("BytesIO"))],
        ensures=[("handle-accepted-under-configured-limits-and-open", inv_after_init),
                 ("handle-opened-from-the-callers-stream", from_callers_stream),
                 ("no-other-container-left-open", nothing_else_open)],
        raises=[Raises("Exception", sub=True, label="any failure (zip-bomb error included): no container left open",
                       when=lambda c: z3.BoolVal(not c.st.ghost.get("open_zips")))],
        modifies=("self", "file_like"),
        inline=True,
        note="class invariant INV(self) established; entry names read only after the acceptance (call-pre of the access)",
    ))
    if not attrs:
        return out
    for f in methods_touching(cls, attrs):
        others = [a.arg for a in f.args.args[1:]]
        if f.args.vararg or f.args.kwarg or f.args.kwonlyargs or f.args.posonlyargs:
            continue
        def inv_kept(c):
            """INV after the method: every handle attribute still holds a container the guard ACCEPTED under the configured limits
            (the one given, or one re-opened through the guard) -- open or closed by this very method (any method may be the one
            that closes: `close`, `__exit__`; use after close is a caller-protocol matter, a closed container reads nothing) -- or
            None (handle dropped).  An unvalidated replacement refutes it."""
            C = _c11()
            d = c.st.obj(c.args["self"].ref).data or {}
            conj = []
            for a in attrs:
                v = d.get(a)
                if isinstance(v, VExt) and v.sort == "ZipFile":
                    conj.append(z3.Not(C.spec_reject(v.t, configured_limits(c.ex, c.st))))
                elif v is NONE or type(v).__name__ == "VNoneT":
                    continue
                else:
                    return z3.BoolVal(False)
            return z3.And(conj) if conj else z3.BoolVal(True)

        fields = {a: p_accepted_zip() for a in attrs}
        for a in other_attrs(cls, attrs):
            fields[a] = Maker(lambda ex, st, name: VUnk(name), desc="any")
        out.append(FnContract(
            target=f"{ZC}::ZipContext.{f.name}",
            params=[("self", p_obj("ZipContext", fields))] + [
                (a.arg, p_str() if a.annotation is not None and ast.unparse(a.annotation) == "str"
                 else Maker(lambda ex, st, name: VUnk(name), desc="any")) for a in f.args.args[1:]],
            ensures=[("class-invariant-kept", inv_kept)],
            raises=[Raises("Exception", sub=True, label="any failure of the member access: class invariant kept", when=inv_kept)],
            note="under the class invariant established by __init__: every member access goes to the accepted open handle",
            modifies=("self",),   # a method may keep book in other attributes (a closed flag, a cache); the handle is under the invariant
            inline=True,      # the contract speaks about ghost state (which containers are open): callers inside the pack run the body
        ))
    return out


def _reader_contracts():
    out = []
    for name in ("read_zip_text", "read_zip_xml_root"):
        out.append(FnContract(
            target=f"{ZU}::{name}",
            params=[("zf", p_accepted_zip()), ("path", p_str())],
            ensures=[("container-still-open", lambda c: z3.BoolVal(is_open(c.st, c.args["zf"].t)))],
            raises=[Raises("Exception", sub=True, label="any failure of the read / the parser",
                           when=lambda c: z3.BoolVal(is_open(c.st, c.args["zf"].t)))],
            requires=lambda c: accepted_open(c.ex, c.st, c.args["zf"].t),
            result_maker=lambda ex, st, ctx: VUnk("member content"),
            note="requires an accepted open container (verified at every call site inside the pack's functions)",
        ))
    return out


def _odf_probe_contract():
    def closed(c):
        return z3.BoolVal(not c.st.ghost.get("open_zips"))

    return FnContract(
        target=f"{ENC}::is_odf_encrypted",
        params=[("file_like", p_ext("BytesIO"))],
        ensures=[("no-container-left-open", closed)],
        raises=[Raises("Exception", sub=True, label="any failure (zip-bomb error included): no container left open", when=closed)],
        modifies=("file_like",),
        result_maker=lambda ex, st, ctx: VUnk("bool"),
        note="manifest read only from a container accepted under the configured limits (call-pre of the access)",
    )
