"""ASSUMED model of xml.etree.ElementTree over an abstract finite tree (TREE-FINITE).

An element is a constant of the uninterpreted sort `Elem`:

    tag(e) : String                     e.tag
    text(e), text_none(e)               e.text   (None | str);  text_none(e) => text(e) == ""
    tail(e), tail_none(e)               e.tail
    nch(e) >= 0, ch(e, i)               ordered children;  iterating e / len(e) / e[i]
    attr_has(e, k), attr(e, k)          e.get(k, default) == attr(e, k) if attr_has(e, k) else default
    find_none(e, t), find_idx(e, t)     e.find(t) for a plain tag t: first child with that tag or None
    iter_n(e, t), iter_at(e, t, i)      list(e.iter(t)): pre-order descendants-or-self with tag t
    findall_n(e, t), findall_at(e,t,i)  e.findall(t) for a plain tag: children with tag t in order

Path expressions ("a/b", ".//x", namespace maps) are outside the model (OUT-OF-SUBSET).
The concrete counterpart (finite trees, enumeration, conversion to real Elements and the
bounded validation of these functions against xml.etree) lives in replay/c02_trees.py and
is exercised by replay/C02.py::validate_model (validation, not proof).
"""
from __future__ import annotations

import z3

from pyvc.ops import Unsupported
from pyvc.values import NONE, VBool, VExt, VInt, VSeq, VStr, ext_sort, fresh_name

S, I, B = z3.StringSort(), z3.IntSort(), z3.BoolSort()
ELEM = ext_sort("Elem")

TAG = z3.Function("et.tag", ELEM, S)
TEXT = z3.Function("et.text", ELEM, S)
TEXT_NONE = z3.Function("et.text_is_none", ELEM, B)
TAIL = z3.Function("et.tail", ELEM, S)
TAIL_NONE = z3.Function("et.tail_is_none", ELEM, B)
NCH = z3.Function("et.len", ELEM, I)
CH = z3.Function("et.child", ELEM, I, ELEM)
ATTR_HAS = z3.Function("et.has_attr", ELEM, S, B)
ATTR = z3.Function("et.attr", ELEM, S, S)
FIND_NONE = z3.Function("et.find_is_none", ELEM, S, B)
FIND_IDX = z3.Function("et.find_idx", ELEM, S, I)
ITER_N = z3.Function("et.iter_len", ELEM, S, I)
ITER_AT = z3.Function("et.iter_at", ELEM, S, I, ELEM)
FINDALL_N = z3.Function("et.findall_len", ELEM, S, I)
FINDALL_AT = z3.Function("et.findall_at", ELEM, S, I, ELEM)


def elem(t):
    return VExt("Elem", t)


def p_elem():
    from pyvc.verify import Maker
    return Maker(lambda ex, st, name: VExt("Elem", z3.Const(name, ELEM)), desc="xml.etree Element (abstract finite tree)")


def children_view(st, e):
    """(length term, elem(i)) of the child sequence; records nch(e) >= 0."""
    st.assume(NCH(e) >= 0)
    return NCH(e), (lambda i, e=e: elem(CH(e, i)))


def opt_str(ex, st, none_p, val):
    """Outcomes of reading an Optional[str] slot: [(state, NONE | VStr)]."""
    out = []
    if ex.feasible(st.pc, none_p):
        s1 = st.fork()
        s1.assume(none_p)
        s1.assume(val == z3.StringVal(""))        # definitional: the spec reads a missing text as ""
        out.append((s1, NONE))
    if ex.feasible(st.pc, z3.Not(none_p)):
        out.append((st.assume(z3.Not(none_p)), VStr(val)))
    return out


def get_attr(ex, st, base, attr, node):
    """Attribute read on an Elem -> [(state, V)] or None when not modelled."""
    e = base.t
    if attr == "tag":
        return [(st, VStr(TAG(e)))]
    if attr == "text":
        return opt_str(ex, st, TEXT_NONE(e), TEXT(e))
    if attr == "tail":
        return opt_str(ex, st, TAIL_NONE(e), TAIL(e))
    if attr in ("get", "find", "findall", "iter", "findtext", "attrib", "itertext"):
        return None
    return None


def _plain_tag(v):
    """A tag argument the model understands: a string that is not a path expression."""
    if not isinstance(v, VStr):
        return None
    c = v.const()
    if c is not None and (("/" in c.split("}")[-1]) or c.startswith(".") or (":" in c and not c.startswith("{"))):
        return None
    return v.t


def call_method(ex, st, obj, name, args, kwargs, node):
    e = obj.t
    if name == "get" and 1 <= len(args) <= 2 and isinstance(args[0], VStr):
        k = args[0].t
        default = args[1] if len(args) == 2 else NONE
        if isinstance(default, VStr):
            return [(st, VStr(z3.If(ATTR_HAS(e, k), ATTR(e, k), default.t)))]
        out = []
        if ex.feasible(st.pc, ATTR_HAS(e, k)):
            out.append((st.fork().assume(ATTR_HAS(e, k)), VStr(ATTR(e, k))))
        if ex.feasible(st.pc, z3.Not(ATTR_HAS(e, k))):
            out.append((st.assume(z3.Not(ATTR_HAS(e, k))), default))
        return out
    if name == "find" and len(args) == 1 and _plain_tag(args[0]) is not None:
        t = _plain_tag(args[0])
        out = []
        st.assume(NCH(e) >= 0)
        if ex.feasible(st.pc, FIND_NONE(e, t)):
            out.append((st.fork().assume(FIND_NONE(e, t)), NONE))
        if ex.feasible(st.pc, z3.Not(FIND_NONE(e, t))):
            j = FIND_IDX(e, t)
            s2 = st.assume(z3.And(z3.Not(FIND_NONE(e, t)), j >= 0, j < NCH(e), TAG(CH(e, j)) == t))
            out.append((s2, elem(CH(e, j))))
        return out
    if name == "iter" and len(args) <= 1:
        if not args:
            raise Unsupported(f"{ex.loc(node)} Element.iter() without tag")
        t = _plain_tag(args[0])
        if t is None:
            raise Unsupported(f"{ex.loc(node)} Element.iter(path)")
        st.assume(ITER_N(e, t) >= 0)
        return [(st, VSeq(ITER_N(e, t), lambda i, e=e, t=t: elem(ITER_AT(e, t, i)), "Elem"))]
    if name == "findall" and len(args) == 1 and _plain_tag(args[0]) is not None:
        t = _plain_tag(args[0])
        st.assume(FINDALL_N(e, t) >= 0)
        return [(st, VSeq(FINDALL_N(e, t), lambda i, e=e, t=t: elem(FINDALL_AT(e, t, i)), "Elem"))]
    raise Unsupported(f"{ex.loc(node)} Element.{name} outside the etree model")


ASSUMED = ["xml.etree.ElementTree.Element over an abstract finite tree: tag/text/tail/get, iteration = ordered children, "
           "find(tag) = first child with the tag, findall(tag) = children with the tag, iter(tag) = pre-order descendants-or-self "
           "(contracts/etree_model.py; validated boundedly against xml.etree by replay/C02.py::validate_model)"]
