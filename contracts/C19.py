"""C19 -- OMML -> LaTeX: total, balanced, operands in place.

Functions under contract (real AST of omml_to_latex.py, re-read on every run):
  convert_greek_and_symbols, omml_to_latex, omml_to_latex.<locals>.process_element.

The nested recursive `process_element` is verified *modularly against its own
contract* (PY-REC): recursive calls and the calls from `omml_to_latex` apply
the contract; the closure variable `pending_sqrt_close` is a contract-level
state variable (entry value / exit value).

ASSUMED model of xml.etree.ElementTree.Element: an abstract finite tree.
Uninterpreted: tag, text (Optional[str]), attributes (Optional[str] per key),
children (count + indexed child), parent, size (well-founded measure,
TREE-FINITE), and the three lookups used by the code
  find("T")       first child with tag T            | None
  find("T1/T2")   first T2 child of a T1 child      | None
  find(".//T")    first proper descendant with tag T| None   (only DESC is known!)
  findall("T")    the T children, in order
  get(key)        attribute value | None;   iteration = children in order.
None of these raises (ElementTree documents them as total on str arguments).

Brace balance uses three uninterpreted *counting homomorphisms* String -> Int
  LB = #'{'   RB = #'}'   NW = #non-whitespace characters
(bal = LB - RB; D = NW - 2*LB is the inductive strengthening "every '{' the
converter emits comes with another visible character", which is what excludes
the lone-'{' radical operand for brace-free trees).  Only *instances* of
  H(a ++ b) = H(a) + H(b),  H(literal) = count,  H(strip a) = H(a),
  H(s[:a]) + H(s[a:b]) + H(s[b:]) = H(s),  H(sep.join(xs)) = sum H(x) + (n-1) H(sep),  H >= 0
are used (no quantifiers); they are theorems of the string semantics and are
listed as assumptions because LB/RB/NW are uninterpreted for the solver.

Round 7 (content, deductive).  Summarised string lists carry two CONTENT ghosts: `cat` (the concatenation of the
items = what "".join returns) and `items` (the item sequence, z3 Seq(String); sep.join(xs) is the term SJOIN(sep, items)).
  * convert_greek_and_symbols: `ensures#is-the-charwise-map-of-its-argument` -- result == CONV(text) where CONV is the
    DEFINED spec function CONV("") = "", CONV(s ++ c) = CONV(s) ++ G1(c), G1 = table lookup else identity (instances on the
    prefixes of the iterated string).  The former ASSUMED "CONV is a function of its argument" is implied by it.
  * loops over an Element (default branch of the worker, top-level loop): history ghost CH(e, i) of the loop execution,
    invariant content(acc) == content(acc at entry) ++ CH(e, i); every iteration makes exactly ONE worker call, on child i,
    and the accumulator gains exactly its result.  `ensures#template.default-children-in-order` (worker) and
    `ensures#children-results-in-order-then-closer` (omml_to_latex).
  * loops / comprehensions over e.findall(T) that call the worker: items(acc) == items(acc at entry) ++ RS(e, i);
    a loop over rows whose ONE inner loop calls the worker: item i == ' & '.join(results on the cells of row i).
    `ensures#template.d-operands-in-order`, `ensures#template.m-cells-in-order`.
  Whether a loop carries a content claim is decided on its syntax before the body runs (`direct_worker_call`), so the claim
  holds on every path or is not made at all.  The defining equations of the history ghosts are added to the path by the
  invariant function itself (`content_conj` / `items_conj`): they define fresh function symbols, nothing about the code.
"""
import ast

import z3

from pyvc import loader, ops
from pyvc.contracts import FnContract, LoopSpec
from pyvc.ops import Unsupported
from pyvc.state import Frame, HeapObj
from pyvc.symex import Executor, LoopCtx, Outcome
from pyvc.values import (NONE, V, VBool, VExt, VFunc, VInt, VNoneT, VRef, VSeq, VStr, VTuple, VUnk,
                         ext_sort, fresh_name, z3_str_value)
from pyvc.verify import Maker, p_ext, p_opt

OMML = "sharepoint2text/parsing/extractors/util/omml_to_latex.py"


def _own(fnode, types):
    out = []

    def rec(n):
        for ch in ast.iter_child_nodes(n):
            if isinstance(ch, types):
                out.append(ch)
            if isinstance(ch, (ast.FunctionDef, ast.AsyncFunctionDef, ast.Lambda, ast.ClassDef)):
                continue
            rec(ch)
    rec(fnode)
    return out


def _discover():
    """The nested recursive worker of omml_to_latex and the enclosing-scope state it shares, found by what they are, not by
    how they are called.  worker = the nested def that the converter's own statements call and that reaches itself through
    calls among the nested defs (directly, or through sibling helpers: a worker split in two); state = every name one of
    these functions declares `nonlocal`: exactly ONE of them starts as None / a str constant (the closer a malformed radical
    waits for), every other one starts as an int constant (AUX: counters, budgets -- arbitrary at entry, havocked by calls).
    Any other shape: STATE_MODEL False -> nothing is claimed symbolically (bounded native stand-in).
    -> (worker name, pending variable, ok, aux names, sibling helper names)"""
    name, var, ok, aux, helpers = "process_element", "pending_sqrt_close", False, (), ()
    try:
        m = loader.module(OMML)
        outer = m.functions.get("omml_to_latex")
        nested = _own(outer, ast.FunctionDef) if outer is not None else []
        byname = {n.name: n for n in nested}
        if len(byname) != len(nested):
            return name, var, False, (), ()
        calls = {n.name: {c.func.id for c in ast.walk(n) if isinstance(c, ast.Call) and isinstance(c.func, ast.Name) and c.func.id in byname}
                 for n in nested}
        entry = {c.func.id for c in _own(outer, ast.Call) if isinstance(c.func, ast.Name) and c.func.id in byname}

        def reach(a):
            seen, todo = set(), list(calls[a])
            while todo:
                x = todo.pop()
                if x not in seen:
                    seen.add(x)
                    todo += list(calls[x])
            return seen
        workers = [n for n in nested if n.name in entry and n.name in reach(n.name)]
        if len(workers) == 1:
            w = workers[0]
            name = w.name
            group = [w] + [byname[x] for x in sorted(reach(w.name) - {w.name})]
            nl = sorted({x for g in group for st_ in ast.walk(g) if isinstance(st_, ast.Nonlocal) for x in st_.names})
            inits = {}
            for st_ in _own(outer, (ast.Assign, ast.AnnAssign)):
                tg = st_.targets if isinstance(st_, ast.Assign) else [st_.target]
                for t in tg:
                    if isinstance(t, ast.Name) and t.id in nl:
                        inits.setdefault(t.id, []).append(st_.value)
            pend = [v for v in nl if len(inits.get(v, [])) == 1 and isinstance(inits[v][0], ast.Constant)
                    and (inits[v][0].value is None or isinstance(inits[v][0].value, str))]
            ints = [v for v in nl if len(inits.get(v, [])) == 1 and isinstance(inits[v][0], ast.Constant)
                    and type(inits[v][0].value) is int]
            if len(pend) == 1 and len(pend) + len(ints) == len(nl):
                var, ok, aux, helpers = pend[0], True, tuple(ints), tuple(g.name for g in group[1:])
        elif len(nested) == 1:
            name = nested[0].name        # a nested worker that keeps its state some other way (a cell, an object ...)
    except Exception:  # noqa  (missing file etc.: the contract target will be reported missing)
        pass
    return name, var, ok, aux, helpers


def converter_names(cm):
    """local names of a client module that are bound to the converter function (`from ...omml_to_latex import omml_to_latex
    [as x]`), read from the module's import statements; the plain name is always included (an un-aliased import, a re-export)"""
    mod_dotted = OMML[:-3].replace("/", ".")
    tail = mod_dotted.split(".")[-1] + ".omml_to_latex"
    names = {"omml_to_latex"}
    try:
        for local, origin in cm.imports.items():
            if origin == mod_dotted + ".omml_to_latex" or origin.endswith("." + tail) or origin == tail:
                names.add(local)
    except Exception:  # noqa
        pass
    return names


def converter_calls(cm, node):
    """the calls of the converter inside `node`: by any local name bound to it, or as an attribute `<module>.omml_to_latex`"""
    names = converter_names(cm)
    return [n for n in ast.walk(node) if isinstance(n, ast.Call) and (
        (isinstance(n.func, ast.Name) and n.func.id in names) or
        (isinstance(n.func, ast.Attribute) and n.func.attr == "omml_to_latex"))]


PE_NAME, PENDING, STATE_MODEL, AUX, HELPERS = _discover()          # PENDING: the closure variable holding the closer a malformed radical waits for
PE = f"{OMML}::omml_to_latex.<locals>.{PE_NAME}"
PE_OID = "omml_to_latex.<locals>.process_element"      # stable obligation ids whatever the nested function is called

S = z3.StringSort()
I = z3.IntSort()
B = z3.BoolSort()
El = ext_sort("Element")

# ---- abstract element tree (ASSUMED model) ------------------------------------
TAG = z3.Function("el_tag", El, S)
TEXTNONE = z3.Function("el_text_is_none", El, B)
TEXT = z3.Function("el_text", El, S)
NCH = z3.Function("el_nchildren", El, I)
CHILD = z3.Function("el_child", El, I, El)
PARENT = z3.Function("el_parent", El, El)
DESC = z3.Function("el_is_proper_descendant", El, El, B)
HASATTR = z3.Function("el_has_attr", El, S, B)
ATTR = z3.Function("el_attr", El, S, S)
SIZE = z3.Function("el_size", El, I)                 # number of nodes of the subtree (TREE-FINITE)
NB = z3.Function("el_no_literal_braces", El, B)      # subtree: no '{' / '}' in any text or attribute value
FINDNONE = z3.Function("el_find_is_none", El, S, B)
FIND = z3.Function("el_find", El, S, El)
NFINDALL = z3.Function("el_findall_len", El, S, I)
FINDALL = z3.Function("el_findall_item", El, S, I, El)
NSPLIT = z3.Function("str_split_len", S, S, I)
SPLITPART = z3.Function("str_split_part", S, S, I, S)
AFTERLAST = z3.Function("str_after_last", S, S, S)   # the part of s after the last occurrence of sep (s itself if none)
LASTIDX = z3.Function("str_rfind", S, S, I)
STRIP = z3.Function("str_strip", S, S)
CONV = z3.Function("convert_greek_and_symbols", S, S)   # the (pure, deterministic) function itself at call sites
OML = z3.Function("omml_to_latex_of", El, S)            # omml_to_latex as a function of the (unmodified) tree, at call sites
NITER = z3.Function("el_iter_len", El, S, I)            # Element.iter(tag): the element itself and its descendants with
ITERITEM = z3.Function("el_iter_item", El, S, I, El)    # that tag, in document order, each exactly once
ITERPOS = z3.Function("el_iter_pos", El, S, El, I)

# ---- counting homomorphisms -----------------------------------------------------
LBf = z3.Function("count_lbrace", S, I)
RBf = z3.Function("count_rbrace", S, I)
NWf = z3.Function("count_nonspace", S, I)
HOMS = {
    "LB": (LBf, lambda s: s.count("{")),
    "RB": (RBf, lambda s: s.count("}")),
    "NW": (NWf, lambda s: sum(1 for ch in s if not ch.isspace())),
}
HN = ("LB", "RB", "NW")


def sval(s):
    return z3.StringVal(s)


def hom(name, t):
    """H(t) with the homomorphism / literal / if-then-else axioms applied along the term structure."""
    f, cnt = HOMS[name]
    if z3.is_string_value(t):
        return z3.IntVal(cnt(z3_str_value(t)))
    if z3.is_app(t):
        k = t.decl().kind()
        if k == z3.Z3_OP_SEQ_CONCAT:
            return z3.Sum([hom(name, a) for a in t.children()])
        if k == z3.Z3_OP_ITE:
            c, a, b = t.children()
            return z3.If(c, hom(name, a), hom(name, b))
        if k == z3.Z3_OP_SEQ_EMPTY:
            return z3.IntVal(0)
    return f(t)


def H3(t):
    return {h: hom(h, t) for h in HN}


def bal_of(h):
    return h["LB"] - h["RB"]


def D_of(h):
    return h["NW"] - 2 * h["LB"]


def str_facts(t, nobrace=None):
    """Axiom instances for a fresh string atom: counts are non-negative; optionally brace-free."""
    fs = [HOMS[h][0](t) >= 0 for h in HN]
    if nobrace is not None:
        fs.append(z3.Implies(nobrace, z3.And(LBf(t) == 0, RBf(t) == 0)))
    return fs


def const_facts(strings):
    out = []
    for s in sorted(set(strings)):
        for h in HN:
            f, cnt = HOMS[h]
            out.append(f(sval(s)) == cnt(s))
    return out


def source_literals(fnode):
    """string literals a symbolic string can be found equal to: operands of comparisons (== / in (...)),
    keys and values of dict displays (keys are compared by .get, values flow into results)"""
    out = []

    def consts(n):
        return [x.value for x in ast.walk(n) if isinstance(x, ast.Constant) and isinstance(x.value, str)]
    for n in ast.walk(fnode):
        if isinstance(n, ast.Compare):
            for x in [n.left] + list(n.comparators):
                if isinstance(x, (ast.Constant, ast.Tuple, ast.List, ast.Set)):
                    out += consts(x)
        elif isinstance(n, ast.Dict):
            for k in n.keys:
                if k is not None:
                    out += consts(k)
    return out + list(CLOSER) + list(CLOSER.values()) + list(FUNCS)


_HOM_NAMES = ("count_lbrace", "count_rbrace", "count_nonspace", "str_join")
_MENTIONS: dict = {}


def mentions_hom(e) -> bool:
    k = e.get_id()
    r = _MENTIONS.get(k)
    if r is None:
        r = False
        seen, stack = set(), [e]
        while stack:
            x = stack.pop()
            i = x.get_id()
            if i in seen:
                continue
            seen.add(i)
            if z3.is_app(x):
                if x.decl().name() in _HOM_NAMES:
                    r = True
                    break
                stack.extend(x.children())
        _MENTIONS[k] = (e, r)        # keep e alive so that ids are not reused
        return r
    return r[1]


# ---- Optional[str] without forking ----------------------------------------------
class VOptStr(V):
    """Optional[str] as (is_none, payload); only the operations the converter needs are
    modelled, every other use leaves the subset (UNDECIDED, never unsound)."""
    kind = "optstr"
    __slots__ = ("none", "t")

    def __init__(self, none, t):
        self.none, self.t = none, t

    def __repr__(self):
        return "VOptStr"


def p_optstr():
    def mk(ex, st, name):
        t = z3.String(name + ".val")
        for f in str_facts(t):
            st.assume(f)
        return VOptStr(z3.Bool(name + ".is_none"), t)
    return Maker(mk, desc="Optional[str]")


def p_auxint():
    """auxiliary int state shared through `nonlocal` (a counter, a budget): any int at entry, any int after a call"""
    return Maker(lambda ex, st, name: VInt(z3.Int(name)), desc="int (auxiliary closure state, unconstrained)")


def opt_parts(v):
    if isinstance(v, VNoneT):
        return z3.BoolVal(True), sval("")
    if isinstance(v, VStr):
        return z3.BoolVal(False), v.t
    if isinstance(v, VOptStr):
        return v.none, v.t
    raise Unsupported(f"Optional[str] expected, got {v!r}")


def open_(v):
    """1 iff the value is truthy (an unmatched '{' of a malformed radical is pending)"""
    n, t = opt_parts(v)
    return z3.If(z3.And(z3.Not(n), z3.Length(t) > 0), z3.IntVal(1), z3.IntVal(0))


def p_inv(v):
    """state invariant of the closure variable: None or one of the three closers"""
    n, t = opt_parts(v)
    return z3.simplify(z3.Or(n, t == sval(")"), t == sval("]"), t == sval("}")))


def p_not_rbrace(v):
    n, t = opt_parts(v)
    return z3.simplify(z3.Or(n, t != sval("}")))


def p_same(a, b):
    na, ta = opt_parts(a)
    nb, tb = opt_parts(b)
    return z3.simplify(z3.And(na == nb, z3.Or(na, ta == tb)))


# ---- element helpers -------------------------------------------------------------
def split_path(p):
    """brace-aware split of an ElementPath on '/'"""
    toks, cur, depth = [], "", 0
    for ch in p:
        if ch == "{":
            depth += 1
        elif ch == "}":
            depth -= 1
        if ch == "/" and depth == 0:
            toks.append(cur)
            cur = ""
        else:
            cur += ch
    toks.append(cur)
    return toks


def parse_path(p):
    toks = split_path(p)
    def plain(t):
        return t and t not in (".", "..", "*") and "[" not in t and "/" not in t.split("}")[-1]
    if len(toks) == 1 and plain(toks[0]):
        return "child", toks
    if len(toks) == 2 and plain(toks[0]) and plain(toks[1]):
        return "grandchild", toks
    if len(toks) == 3 and toks[0] == "." and toks[1] == "" and plain(toks[2]):
        return "desc", toks[2:]
    return None, None


def sub_facts(e, r):
    """what every lookup result r inside the subtree of e satisfies"""
    return [SIZE(r) >= 1, SIZE(r) < SIZE(e), z3.Implies(NB(e), NB(r))]


def find_facts(e, path, r):
    how, toks = parse_path(path)
    fs = sub_facts(e, r)
    if how == "child":
        fs += [TAG(r) == sval(toks[0]), PARENT(r) == e]
    elif how == "grandchild":
        fs += [TAG(r) == sval(toks[1]), TAG(PARENT(r)) == sval(toks[0]), PARENT(PARENT(r)) == e]
    else:
        fs += [TAG(r) == sval(toks[0]), DESC(r, e)]
    return fs


def lname(e):
    """local name of the element's tag: the part after the last '}'"""
    return AFTERLAST(TAG(e), sval("}"))


def m_find(ex, st, obj, args, kwargs, node):
    if len(args) != 1 or kwargs or not isinstance(args[0], VStr) or args[0].const() is None:
        raise Unsupported(f"{ex.loc(node)} Element.find with a non-constant path")
    path = args[0].const()
    how, _ = parse_path(path)
    if how is None:
        raise Unsupported(f"{ex.loc(node)} ElementPath form not modelled: {path!r}")
    e, P = obj.t, sval(path)
    a = st.fork().assume(FINDNONE(e, P))
    st.assume(z3.Not(FINDNONE(e, P)))
    r = FIND(e, P)
    for f in find_facts(e, path, r):
        st.assume(f)
    return [(a, NONE), (st, VExt("Element", r))]


def m_findall(ex, st, obj, args, kwargs, node):
    if len(args) != 1 or kwargs or not isinstance(args[0], VStr) or args[0].const() is None:
        raise Unsupported(f"{ex.loc(node)} Element.findall with a non-constant path")
    path = args[0].const()
    how, toks = parse_path(path)
    if how != "child":
        raise Unsupported(f"{ex.loc(node)} findall path form not modelled: {path!r}")
    e, P = obj.t, sval(path)
    n = NFINDALL(e, P)
    st.assume(n >= 0)

    def facts(i):
        r = FINDALL(e, P, i)
        return sub_facts(e, r) + [TAG(r) == sval(toks[0]), PARENT(r) == e]
    return [(st, VSeq(n, lambda i: VExt("Element", FINDALL(e, P, i)), "Element",
                      tag={"facts": facts, "findall": (e, path)}))]


def iter_facts(e, T, k):
    x = ITERITEM(e, T, k)
    return [TAG(x) == T, ITERPOS(e, T, x) == k, z3.Or(x == e, DESC(x, e)), SIZE(x) >= 1, z3.Implies(NB(e), NB(x))]


def m_iter(ex, st, obj, args, kwargs, node):
    if len(args) != 1 or kwargs or not isinstance(args[0], VStr) or args[0].const() is None \
            or parse_path(args[0].const())[0] != "child":
        raise Unsupported(f"{ex.loc(node)} Element.iter form not modelled")
    e, T = obj.t, sval(args[0].const())
    n = NITER(e, T)
    st.assume(n >= 0)
    return [(st, VSeq(n, lambda k: VExt("Element", ITERITEM(e, T, k)), "Element",
                      tag={"facts": lambda k: iter_facts(e, T, k), "iter": (e, args[0].const())}))]


def m_itertext(ex, st, obj, args, kwargs, node):
    """ASSUMED: Element.itertext() = the text / tail strings of the subtree, a finite sequence of str; never raises.
    Summarised (count + brace / visible-character sums); brace-free in a brace-free tree."""
    if args or kwargs:
        raise Unsupported(f"{ex.loc(node)} Element.itertext with arguments")
    d = {k: z3.Int(fresh_name(f"itertext.{k}")) for k in ("n",) + HN}
    for k in d:
        st.assume(d[k] >= 0)
    st.assume(z3.Implies(NB(obj.t), z3.And(d["LB"] == 0, d["RB"] == 0)))
    return [(st, VRef(st.alloc(HeapObj("slist", d), ex.refs)))]


def m_get(ex, st, obj, args, kwargs, node):
    if not args or kwargs or not isinstance(args[0], VStr) or args[0].const() is None or len(args) > 2:
        raise Unsupported(f"{ex.loc(node)} Element.get with a non-constant key")
    e, K = obj.t, sval(args[0].const())
    default = args[1] if len(args) == 2 else NONE
    a = st.fork().assume(z3.Not(HASATTR(e, K)))
    st.assume(HASATTR(e, K))
    t = ATTR(e, K)
    for f in str_facts(t, NB(e)):
        st.assume(f)
    return [(a, default), (st, VStr(t))]


def a_tag(ex, st, obj):
    return VStr(TAG(obj.t))           # ASSUMED: tag is a str (comments / PIs are dropped by the parsers used)


def m_split(ex, st, args, kwargs, node):
    s = args[0]
    if len(args) != 2 or kwargs or not isinstance(args[1], VStr) or args[1].const() is None or args[1].const() == "":
        raise Unsupported(f"{ex.loc(node)} str.split form not modelled")
    sep = sval(args[1].const())
    n = NSPLIT(s.t, sep)
    st.assume(n >= 1)                 # str.split(sep) never returns an empty list
    last = z3.simplify(n - 1)

    def part(i):
        i = z3.simplify(i)
        return VStr(AFTERLAST(s.t, sep)) if i.eq(last) else VStr(SPLITPART(s.t, sep, i))      # [-1]: after the last sep
    return [(st, VSeq(n, part, "str"))]


def m_rsplit(ex, st, args, kwargs, node):
    s = args[0]
    if len(args) != 3 or kwargs or not isinstance(args[1], VStr) or not args[1].const() or not isinstance(args[2], VInt) \
            or args[2].const() is None or args[2].const() < 1:
        raise Unsupported(f"{ex.loc(node)} str.rsplit form not modelled")
    sep = sval(args[1].const())
    n = z3.Int(fresh_name("nrsplit"))
    st.assume(z3.And(n >= 1, n <= args[2].const() + 1))
    last = z3.simplify(n - 1)

    def part(i):
        i = z3.simplify(i)
        return VStr(AFTERLAST(s.t, sep)) if i.eq(last) else VStr(z3.String(fresh_name("rsplit_part")))
    return [(st, VSeq(n, part, "str"))]


def m_rpartition(ex, st, args, kwargs, node):
    s = args[0]
    if len(args) != 2 or kwargs or not isinstance(args[1], VStr) or not args[1].const():
        raise Unsupported(f"{ex.loc(node)} str.rpartition form not modelled")
    sep = sval(args[1].const())
    has = z3.Contains(s.t, sep)
    return [(st, VTuple([VStr(z3.String(fresh_name("rpart_head"))), VStr(z3.If(has, sep, sval(""))), VStr(AFTERLAST(s.t, sep))]))]


def m_rfind(ex, st, args, kwargs, node):
    s = args[0]
    if len(args) != 2 or kwargs or not isinstance(args[1], VStr) or not args[1].const():
        raise Unsupported(f"{ex.loc(node)} str.rfind form not modelled")
    sep = sval(args[1].const())
    k, ln, m = LASTIDX(s.t, sep), z3.Length(s.t), len(args[1].const())
    st.assume(z3.And(k >= -1, k + m <= ln, (k >= 0) == z3.Contains(s.t, sep)))
    st.assume(z3.If(k < 0, AFTERLAST(s.t, sep) == s.t, AFTERLAST(s.t, sep) == z3.SubString(s.t, k + m, ln - k - m)))
    return [(st, VInt(k))]


def m_strip(ex, st, args, kwargs, node):
    s = args[0]
    if len(args) != 1 or kwargs:
        raise Unsupported(f"{ex.loc(node)} str.strip(chars) not modelled")
    r = STRIP(s.t)
    for h in HN:                      # strip removes whitespace only
        st.assume(HOMS[h][0](r) == hom(h, s.t))
    st.assume(z3.Length(r) <= z3.Length(s.t))
    return [(st, VStr(r))]


def m_index(ex, st, args, kwargs, node):
    s, p = args[0], (args[1] if len(args) > 1 else None)
    if len(args) != 2 or kwargs:
        raise Unsupported(f"{ex.loc(node)} str.index(sub, start) not modelled")
    if isinstance(p, VOptStr):
        st = ex.fork_raise(st, p.none, "TypeError")
        if st is None:
            return []
        pt = p.t
    elif isinstance(p, VStr):
        pt = p.t
    elif isinstance(p, VNoneT):
        ex.raise_in(st, ex.mk_exc("TypeError"))
        return []
    else:
        raise Unsupported(f"{ex.loc(node)} str.index of {p!r}")
    idx = z3.IndexOf(s.t, pt, 0)
    st = ex.fork_raise(st, idx < 0, "ValueError")
    if st is None:
        return []
    # lowest occurrence: s[idx:idx+len(p)] == p
    st.assume(idx + z3.Length(pt) <= z3.Length(s.t))
    st.assume(z3.SubString(s.t, idx, z3.Length(pt)) == pt)
    st.assume(z3.Implies(z3.Length(pt) == 1, z3.SubString(s.t, idx, 1) == pt))
    return [(st, VInt(idx))]


def m_partition(ex, st, args, kwargs, node):
    """s.partition(sep) -> (before, sep, after) at the lowest occurrence, (s, "", "") when there is none"""
    s_, p = args[0], (args[1] if len(args) > 1 else None)
    if len(args) != 2 or kwargs:
        raise Unsupported(f"{ex.loc(node)} str.partition form not modelled")
    if isinstance(p, VOptStr):
        st = ex.fork_raise(st, p.none, "TypeError")
        if st is None:
            return []
        pt = p.t
    elif isinstance(p, VStr):
        pt = p.t
    else:
        raise Unsupported(f"{ex.loc(node)} str.partition of {p!r}")
    st = ex.fork_raise(st, z3.Length(pt) == 0, "ValueError")          # empty separator
    if st is None:
        return []
    out = []
    s, ln = s_.t, z3.Length(s_.t)
    if ex.feasible(st.pc, z3.Not(z3.Contains(s, pt))):
        a = st.fork().assume(z3.Not(z3.Contains(s, pt)))
        out.append((a, VTuple([s_, VStr(""), VStr("")])))
    if ex.feasible(st.pc, z3.Contains(s, pt)):
        st.assume(z3.Contains(s, pt))
        idx = z3.IndexOf(s, pt, 0)
        end = idx + z3.Length(pt)
        before, after = ex.sub(s, z3.IntVal(0), idx), ex.sub(s, end, ln)
        st.assume(z3.And(idx >= 0, end <= ln))
        st.assume(z3.SubString(s, idx, z3.Length(pt)) == pt)
        st.assume(s == z3.Concat(before, pt, after))
        for h in HN:                  # split axiom at the two cut points
            f = HOMS[h][0]
            st.assume(f(before) + hom(h, pt) + f(after) == hom(h, s))
        for t in (before, after):
            for f in str_facts(t):
                st.assume(f)
        out.append((st, VTuple([VStr(before), VStr(pt), VStr(after)])))
    return out


def zero_sums():
    return {"n": z3.IntVal(0), "LB": z3.IntVal(0), "RB": z3.IntVal(0), "NW": z3.IntVal(0), "cat": sval(""), "items": z3.Empty(SS)}


def cat2(a, b):
    """a ++ b on string terms, the empty literal dropped"""
    if z3.is_string_value(a) and z3_str_value(a) == "":
        return b
    if z3.is_string_value(b) and z3_str_value(b) == "":
        return a
    return z3.Concat(a, b)


SS = z3.SeqSort(S)                                          # round 7: the ITEMS ghost of a list of str (a sequence of strings)
SJOIN = z3.Function("str_join", S, SS, S)                   # sep.join(items) as a term over the items (never unfolded)


def seqcat(a, b):
    if a.eq(z3.Empty(SS)):
        return b
    if b.eq(z3.Empty(SS)):
        return a
    return z3.Concat(a, b)


def items_of(d):
    """the ITEMS ghost of a list summary (an unconstrained sequence when the summary never recorded it)"""
    if d is None:
        return None
    if d.get("items") is None:
        d["items"] = z3.Const(fresh_name("items"), SS)
    return d["items"]


def cat_of(d):
    """round 7: the CONTENT ghost of a list of str = the concatenation of its items in list order (what `"".join` returns);
    a summary that never recorded it (itertext, lists a call appended to) gets an unconstrained one"""
    if d is None:
        return None
    if d.get("cat") is None:
        d["cat"] = z3.String(fresh_name("cat"))
    return d["cat"]


def sums_of(st, ref):
    """{n, LB, RB, NW} summary of a list of strings (concrete list or summarised `slist`)"""
    o = st.heap.get(ref)
    if o is None:
        return None
    if o.kind == "slist":
        return o.data
    if o.kind == "list" and o.data is not None and all(isinstance(x, VStr) for x in o.data):
        d = {"n": z3.IntVal(len(o.data))}
        for h in HN:
            d[h] = z3.Sum([hom(h, x.t) for x in o.data]) if o.data else z3.IntVal(0)
        c_, i_ = sval(""), z3.Empty(SS)
        for x in o.data:
            c_ = cat2(c_, x.t)
            i_ = seqcat(i_, z3.Unit(x.t))
        d["cat"], d["items"] = c_, i_
        return d
    return None


def m_join(ex, st, args, kwargs, node):
    sep, lst = args[0], args[1]
    sm = sums_of(st, lst.ref) if isinstance(lst, VRef) else None
    if sm is None or sep.const() is None:
        if isinstance(lst, VUnk):
            ex.exc_any(st.fork(), f"{ex.loc(node)} join(unknown)")
        return [(st, VStr(z3.String(fresh_name("join"))))]
    j = z3.String(fresh_name("join"))
    n = sm["n"]
    gaps = z3.If(n > 0, n - 1, z3.IntVal(0))
    for h in HN:
        st.assume(HOMS[h][0](j) == sm[h] + gaps * HOMS[h][1](sep.const()))
    st.assume(z3.Implies(n == 0, j == sval("")))
    if sep.const() == "":
        st.assume(j == cat_of(sm))          # "".join(xs) IS the concatenation of the items (content ghost, round 7)
    else:
        st.assume(j == SJOIN(sval(sep.const()), items_of(sm)))      # names the join by its separator and items (definition)
    st.ghost["joins"] = st.ghost.get("joins", ()) + ((sep.const(), lst.ref, j),)
    return [(st, VStr(j))]


def install(reg):
    reg.method_models[("Element", "find")] = m_find
    reg.method_models[("Element", "findall")] = m_findall
    reg.method_models[("Element", "get")] = m_get
    reg.method_models[("Element", "iter")] = m_iter
    reg.method_models[("Element", "itertext")] = m_itertext
    reg.attr_models[("Element", "tag")] = a_tag
    reg.ext_models["str.split"] = m_split
    reg.ext_models["str.rsplit"] = m_rsplit
    reg.ext_models["str.rpartition"] = m_rpartition
    reg.ext_models["str.rfind"] = m_rfind
    reg.ext_models["str.strip"] = m_strip
    reg.ext_models["str.index"] = m_index
    reg.ext_models["str.partition"] = m_partition
    reg.ext_models["str.join"] = m_join


# ---- pack-local executor ---------------------------------------------------------
def direct_worker_call(nodes):
    """does the loop body call the worker (or a helper it is split into) outside any inner loop / comprehension / def?
    (decided on the syntax BEFORE the body runs: a content claim is made for the loop on every path or on none)"""
    names = {PE_NAME} | set(HELPERS)

    def rec(n):
        if isinstance(n, ast.Call) and isinstance(n.func, ast.Name) and n.func.id in names:
            return True
        for ch in ast.iter_child_nodes(n):
            if isinstance(ch, (ast.For, ast.While, ast.ListComp, ast.SetComp, ast.DictComp, ast.GeneratorExp, ast.FunctionDef,
                               ast.Lambda, ast.AsyncFunctionDef)):
                continue
            if rec(ch):
                return True
        return False
    return any(rec(n) for n in nodes if not isinstance(n, (ast.For, ast.While, ast.FunctionDef, ast.AsyncFunctionDef)))


def nested_worker_loop(nodes):
    """the loop body contains exactly ONE inner loop / list comprehension that calls the worker itself (rows of a matrix)"""
    found = []
    for n in nodes:
        for x in ast.walk(n):
            if isinstance(x, ast.For) and direct_worker_call(x.body):
                found.append(x)
            elif isinstance(x, (ast.ListComp, ast.GeneratorExp)) and direct_worker_call([ast.Expr(x.elt)]):
                found.append(x)
    return len(found) == 1


def own_nodes(fnode, types):
    """nodes of `types` in fnode, not inside nested function definitions, in source order"""
    out = []

    def rec(n):
        for ch in ast.iter_child_nodes(n):
            if isinstance(ch, (ast.FunctionDef, ast.AsyncFunctionDef, ast.Lambda)):
                continue
            if isinstance(ch, types):
                out.append(ch)
            rec(ch)
    rec(fnode)
    out.sort(key=lambda n: (n.lineno, n.col_offset))
    return out


class C19Executor(Executor):
    """Element iteration, Optional[str] state, summarised string lists (so that
    accumulators can grow inside symbolic loops), symbolic list comprehensions, path-condition
    aware string slicing with split-axiom instances."""

    def feasible(self, pc, extra=None):
        # path pruning ignores the counting facts (sound: fewer constraints keep more paths alive); the
        # sequence solver is slow on uninterpreted functions applied to many literals
        return super().feasible([c for c in pc if not mentions_hom(c)], extra)

    # -- values ---------------------------------------------------------------
    def truth(self, st, v):
        if isinstance(v, VOptStr):
            return VBool(z3.And(z3.Not(v.none), z3.Length(v.t) > 0))
        if isinstance(v, VRef) and st.obj(v.ref).kind == "slist":
            return VBool(st.obj(v.ref).data["n"] > 0)
        return super().truth(st, v)

    def to_str(self, st, v, formatted=False):
        if isinstance(v, VNoneT) and not formatted:
            return VStr("None")                   # exactly what an f-string does with None
        if isinstance(v, VOptStr):
            raise Unsupported("f-string of Optional[str]")
        return super().to_str(st, v, formatted)

    def contains(self, st, container, item, node):
        if isinstance(item, VOptStr) and isinstance(container, VStr):
            st = self.fork_raise(st, item.none, "TypeError")      # `None in "..."` raises
            if st is None:
                return []
            return [(st, VBool(z3.Contains(container.t, item.t)))]
        if isinstance(item, VNoneT) and isinstance(container, VStr):
            self.raise_in(st, self.mk_exc("TypeError"))
            return []
        return super().contains(st, container, item, node)

    def havoc_like(self, st, v, name):
        if isinstance(v, VOptStr):
            t = z3.String(fresh_name(name))
            for f in str_facts(t):
                st.assume(f)
            return VOptStr(z3.Bool(fresh_name(name + ".none")), t)
        return super().havoc_like(st, v, name)

    def get_attr(self, st, base, attr, node):
        if isinstance(base, VExt) and base.sort == "Element" and attr == "text":
            e = base.t
            out = []
            if self.feasible(st.pc, TEXTNONE(e)):            # (a second read on the same path must agree with the first)
                out.append((st.fork().assume(TEXTNONE(e)), NONE))
            if self.feasible(st.pc, z3.Not(TEXTNONE(e))):
                st.assume(z3.Not(TEXTNONE(e)))
                t = TEXT(e)
                for f in str_facts(t, NB(e)):
                    st.assume(f)
                out.append((st, VStr(t)))
            return out
        return super().get_attr(st, base, attr, node)

    def b_len(self, st, args, kwargs, node):
        if len(args) == 1 and isinstance(args[0], VExt) and args[0].sort == "Element":
            st.assume(NCH(args[0].t) >= 0)
            return [(st, VInt(NCH(args[0].t)))]          # len(element) = number of children
        return super().b_len(st, args, kwargs, node)

    def str_method(self, st, s, name, args, kwargs, node):
        if name == "format" and isinstance(s, VStr) and s.const() is None and z3.is_app(s.t) and s.t.decl().kind() == z3.Z3_OP_ITE:
            c_, a, b = s.t.children()          # `("$${}$$" if flag else "${}$").format(x)`: format each alternative
            ra = self.str_method(st, VStr(a), name, args, kwargs, node)
            rb = self.str_method(st, VStr(b), name, args, kwargs, node)
            if len(ra) == 1 and len(rb) == 1 and isinstance(ra[0][1], VStr) and isinstance(rb[0][1], VStr):
                return [(st, VStr(z3.If(c_, ra[0][1].t, rb[0][1].t)))]
        return super().str_method(st, s, name, args, kwargs, node)

    def b_next(self, st, args, kwargs, node):
        """next(<element sequence>[, default]): its first item, the default / StopIteration when it is empty"""
        if args and isinstance(args[0], VSeq) and isinstance(args[0].tag, dict) and not kwargs and len(args) <= 2:
            seq, out = args[0], []
            if self.feasible(st.pc, seq.length <= 0):
                a = st.fork().assume(seq.length <= 0)
                if len(args) == 2:
                    out.append((a, args[1]))
                else:
                    self.raise_in(a, self.mk_exc("StopIteration"))
            if self.feasible(st.pc, seq.length > 0):
                st.assume(seq.length > 0)
                for f in (seq.tag.get("facts") or (lambda k: []))(z3.IntVal(0)):
                    st.assume(f)
                out.append((st, seq.elem(z3.IntVal(0))))
            return out
        return super().b_next(st, args, kwargs, node) if hasattr(super(), "b_next") else self.havoc_call(st, "next", args, node)

    def call_method(self, st, obj, name, args, kwargs, node):
        if isinstance(obj, VRef) and st.obj(obj.ref).kind == "slist":
            if name == "append" and len(args) == 1 and isinstance(args[0], VStr):
                self.slist_append(st, obj.ref, args[0])
                return [(st, NONE)]
            raise Unsupported(f"{self.loc(node)} list.{name} on a summarised string list")
        if isinstance(obj, VOptStr):
            raise Unsupported(f"{self.loc(node)} method {name} on Optional[str]")
        return super().call_method(st, obj, name, args, kwargs, node)

    def slist_append(self, st, ref, v: VStr):
        w = st.wobj(ref)
        d = dict(w.data)
        d["n"] = d["n"] + 1
        for h in HN:
            d[h] = d[h] + hom(h, v.t)
        d["cat"] = cat2(cat_of(w.data), v.t)
        d["items"] = seqcat(items_of(w.data), z3.Unit(v.t))
        w.data = d

    def is_strlist(self, st, ref):
        return sums_of(st, ref) is not None

    # -- strings ----------------------------------------------------------------
    def implied(self, pc, cond):
        return not self.feasible(pc, z3.Not(cond))

    @staticmethod
    def sub(s, lo, hi):
        return z3.SubString(s, lo, z3.simplify(hi - lo))

    def str_slice(self, st, base, sl, node):
        if sl.step is not None:
            return super().str_slice(st, base, sl, node)
        s = base.t
        ln = z3.Length(s)

        def bound(e, dflt):
            if e is None:
                return dflt
            t = z3.simplify(self._ev_int1(e, st, node))
            return t if self.implied(st.pc, z3.And(t >= 0, t <= ln)) else None
        lo, hi = bound(sl.lower, z3.IntVal(0)), bound(sl.upper, ln)
        if lo is None or hi is None or not self.implied(st.pc, lo <= hi):
            return super().str_slice(st, base, sl, node)
        r = self.sub(s, lo, hi)
        # split axiom H(s[:a]) + H(s[a:b]) + H(s[b:]) == H(s), instantiated on the cut points used so far
        key = ("cuts", s.get_id())
        cuts = list(st.ghost.get(key, ()))
        new = [c for c in (lo, hi) if not (z3.is_int_value(c) and c.as_long() == 0) and not c.eq(ln)
               and not any(c.eq(x) for x in cuts)]
        for c in new:
            pairs = [(x, c) for x in cuts] + [(c, x) for x in cuts]
            for h in HN:
                f = HOMS[h][0]
                st.assume(f(self.sub(s, z3.IntVal(0), c)) + f(self.sub(s, c, ln)) == hom(h, s))
                for (a, b) in pairs:
                    st.assume(z3.Implies(a <= b, f(self.sub(s, z3.IntVal(0), a)) + f(self.sub(s, a, b)) +
                                         f(self.sub(s, b, ln)) == hom(h, s)))
            cuts.append(c)
        st.ghost[key] = tuple(cuts)
        for f in str_facts(r):
            st.assume(f)
        return [(st, VStr(r))]

    # -- loops --------------------------------------------------------------------
    def in_worker(self):
        """at the level of the function under contract, or inside sibling helpers of the nested worker running in place"""
        if self.contract is None or not self.cur_fn_stack:
            return False
        if self.inline_depth == 0:
            return True
        return self.contract.target == PE and len(self.cur_fn_stack) == self.inline_depth + 1 and \
            all(isinstance(f, ast.FunctionDef) and f.name in HELPERS for f in self.cur_fn_stack[1:])

    def loop_spec(self, node):
        if not self.in_worker():
            return None
        loops = own_nodes(self.cur_fn_stack[-1], (ast.For, ast.While))
        for k, n in enumerate(loops):
            if n is node:
                return self.contract.loops.get(k) or self.contract.loops.get("*")
        return None

    def loop_label(self, node):
        fnode = self.cur_fn_stack[-1]
        pre = f"{fnode.name}." if self.inline_depth > 0 and isinstance(fnode, ast.FunctionDef) else ""
        if isinstance(node, (ast.ListComp, ast.GeneratorExp)):
            return f"{pre}comp{own_nodes(fnode, (ast.ListComp, ast.GeneratorExp)).index(node)}"
        return f"{pre}loop{own_nodes(fnode, (ast.For, ast.While)).index(node)}"

    def seq_view3(self, st, it):
        if isinstance(it, VExt) and it.sort == "Element":
            e = it.t
            st.assume(NCH(e) >= 0)
            return (NCH(e), lambda i: VExt("Element", CHILD(e, i)),
                    lambda i: sub_facts(e, CHILD(e, i)) + [PARENT(CHILD(e, i)) == e])
        if isinstance(it, VSeq):
            facts = it.tag.get("facts") if isinstance(it.tag, dict) else None
            return it.length, it.elem, (facts or (lambda i: []))
        if isinstance(it, VStr) and it.const() is None:
            t = it.t

            def facts(i):
                ch = z3.SubString(t, i, 1)
                fs = str_facts(ch)
                for h in HN:
                    f = HOMS[h][0]
                    fs.append(hom(h, prefix(t, i + 1)) == hom(h, prefix(t, i)) + f(ch))
                if self.contract is not None and self.contract.target.endswith("::convert_greek_and_symbols"):
                    fs += conv_def_instances(t, i)
                return fs
            return z3.Length(t), (lambda i: VStr(z3.SubString(t, i, 1))), facts
        return None

    def rebind(self, st, name, v):
        idx = len(st.frames) - 1
        while idx is not None:
            fr = st.frames[idx]
            if name in fr.env:
                fr.env[name] = v
                return
            idx = fr.static
        st.bind(name, v)

    def closure_writes(self, st, nodes):
        """closure variables that calls of contracted nested functions in `nodes` may rebind: {name: maker}"""
        out = {}
        for n in nodes:
            for sub in ast.walk(n):
                if isinstance(sub, ast.Call) and isinstance(sub.func, ast.Name):
                    f = st.lookup(sub.func.id)
                    if isinstance(f, VFunc) and f.how == "closure":
                        c = self.closure_contract(f.a)
                        if c is not None:
                            for (nme, mk) in c.closure:
                                if nme in c.closure_modifies:
                                    out[nme] = mk
        return out

    def havoc_loop(self, st, nodes, accs):
        for name in sorted(self.assigned_names(nodes)):
            cur = st.lookup(name)
            if cur is not None:
                nv = self.havoc_like(st, cur, name)
                if isinstance(nv, VStr):
                    for f in str_facts(nv.t):
                        st.assume(f)
                self.rebind(st, name, nv)
        for name, mk in sorted(self.closure_writes(st, nodes).items()):
            cond, nv = mk.make(self, st, fresh_name(name))[0]
            self.rebind(st, name, nv)
        for ref in sorted(self.mutated_refs(nodes, st) | set(accs)):
            o = st.heap.get(ref)
            if o is None:
                continue
            if self.havoc_ref(st, ref, o, nodes):
                continue
            if ref in accs:
                d = {k: z3.Int(fresh_name(f"acc{ref}.{k}")) for k in ("n",) + HN}
                for k in d:
                    st.assume(d[k] >= 0)
                d["cat"] = z3.String(fresh_name(f"acc{ref}.cat"))
                d["items"] = z3.Const(fresh_name(f"acc{ref}.items"), SS)
                st.heap[ref] = HeapObj("slist", d, None, o.fresh)
            else:
                st.heap[ref] = HeapObj("unk", None, o.cls, False)

    def string_accumulators(self, st, nodes):
        """names bound to a str before the loop that the body only ever extends (`x += e`, `x = x + e`): the text they
        gain is accumulated output exactly like the items appended to a list"""
        out = []
        for name in sorted(self.assigned_names(nodes)):
            if not isinstance(st.lookup(name), VStr):
                continue
            ok = True
            for b in nodes:
                for n in ast.walk(b):
                    if isinstance(n, ast.AugAssign) and isinstance(n.target, ast.Name) and n.target.id == name:
                        ok = ok and isinstance(n.op, ast.Add)
                    elif isinstance(n, ast.Assign) and any(isinstance(t, ast.Name) and t.id == name for t in n.targets):
                        v = n.value
                        ok = ok and isinstance(v, ast.BinOp) and isinstance(v.op, ast.Add) and isinstance(v.left, ast.Name) \
                            and v.left.id == name
                    elif isinstance(n, (ast.For, ast.comprehension)) and any(
                            isinstance(t, ast.Name) and t.id == name for t in ast.walk(n.target)):
                        ok = False
            if ok:
                out.append(name)
        return out

    def havoc_ref(self, st, ref, o, nodes):
        """hook: havoc a heap object of a kind a subclass introduces; True when handled"""
        return False

    def sym_loop(self, node, st, view, target, body_fn, nodes, spec, accs_extra=(), it=None):
        """invariant-cut loop over a symbolic sequence -> (non-fall outcomes + breaks, exit state)"""
        n, elem, facts = view
        label = self.loop_label(node)
        entry = st.fork()
        inv = spec.inv if spec is not None else None
        accs = sorted(r for r in (set(self.mutated_refs(nodes, st)) | set(accs_extra)) if self.is_strlist(st, r))
        extra = {"accs": accs, "svars": self.string_accumulators(st, nodes), "calls_worker": direct_worker_call(nodes)}
        extra["nested"] = (not extra["calls_worker"]) and nested_worker_loop(nodes)
        src = it.tag if isinstance(it, VSeq) and isinstance(it.tag, dict) else None
        for r in accs:                                        # which sequence the items of this list come from
            if ("comp_src", r) not in st.ghost:
                st.ghost[("loop_src", r)] = (src.get("findall") or (("iter",) + tuple(src["iter"]) if "iter" in src else "other")) \
                    if src is not None else "other"
        if inv is not None:
            self.add_vc("inv-init", label, st.pc, self._b(inv(LoopCtx(self, st, z3.IntVal(0), entry, it, extra))),
                        loc=self.loc(node))
        body_st = st.fork()
        self.havoc_loop(body_st, nodes, accs)
        after = body_st.fork()
        i = z3.Int(fresh_name("i"))
        body_st.assume(z3.And(i >= 0, i < n))
        if inv is not None:
            body_st.assume(self._b(inv(LoopCtx(self, body_st, i, entry, it, extra))))
        for f in facts(i):
            body_st.assume(f)
        outs = []
        for s3 in self.assign(target, elem(i), body_st):
            for o in body_fn(s3):
                if o.kind in ("fall", "continue"):
                    if inv is not None:
                        self.add_vc("inv-preserve", label, o.st.pc,
                                    self._b(inv(LoopCtx(self, o.st, i + 1, entry, it, extra))), loc=self.loc(node))
                elif o.kind == "break":
                    outs.append(Outcome("fall", o.st))
                else:
                    outs.append(o)
        after.assume(n >= 0)
        if inv is not None:
            after.assume(self._b(inv(LoopCtx(self, after, n, entry, it, extra))))
        return outs, after

    def symbolic_for(self, s, st, it):
        view = self.seq_view3(st, it)
        if view is None:
            return super().symbolic_for(s, st, it)
        outs, after = self.sym_loop(s, st, view, s.target, lambda s3: self.exec_block(s.body, s3), s.body,
                                    self.loop_spec(s), it=it)
        if s.orelse:
            outs.extend(self.exec_block(s.orelse, after))
        else:
            outs.append(Outcome("fall", after))
        return outs

    def e_ListComp(self, n, st):
        if len(n.generators) != 1 or n.generators[0].ifs or n.generators[0].is_async:
            return super().e_ListComp(n, st)
        g = n.generators[0]
        res = []
        for (s2, it) in self.ev(g.iter, st):
            items = self.concrete_items(s2, it)
            fr = Frame({}, len(s2.frames) - 1, s2.frame.fnode)
            if items is not None:
                s2.frames.append(fr)
                live = [(s2, [])]
                for item in items:
                    nxt = []
                    for (cur, acc) in live:
                        for s3 in self.assign(g.target, item, cur):
                            for (s4, v) in self.ev(n.elt, s3):
                                nxt.append((s4, acc + [v]))
                    live = nxt
                for (s5, acc) in live:
                    s5.frames.pop()
                    res.append((s5, self.new_list(s5, acc)))
                continue
            view = self.seq_view3(s2, it)
            if view is None:
                self.unsupported(n, f"comprehension over {it!r}")
            acc = VRef(s2.alloc(HeapObj("slist", zero_sums()), self.refs))
            s2.ghost[("comp_src", acc.ref)] = it.tag.get("findall") if isinstance(it, VSeq) and isinstance(it.tag, dict) else None
            s2.frames.append(fr)

            def body_fn(s3, acc=acc):
                outs = []
                for (s4, v) in self.ev(n.elt, s3):
                    if not isinstance(v, VStr):
                        self.unsupported(n, "symbolic list comprehension with non-str elements")
                    self.slist_append(s4, acc.ref, v)
                    outs.append(Outcome("fall", s4))
                return outs
            spec = self.contract.loops.get("*") if (self.contract is not None and self.in_worker()) else None
            _outs, after = self.sym_loop(n, s2, view, g.target, body_fn, [ast.Expr(n.elt)], spec,
                                         accs_extra=[acc.ref], it=it)
            after.frames.pop()
            res.append((after, acc))
        return res

    def e_GeneratorExp(self, n, st):
        # round 8: `sep.join(ELT for T in xs)` follows the list-comprehension path (the engine's convention for generator
        # expressions is eager evaluation, pyvc/exprs.py e_GeneratorExp); with `if` clauses / several `for`s: the engine's rule
        if len(n.generators) != 1 or n.generators[0].ifs or n.generators[0].is_async:
            return super().e_GeneratorExp(n, st)
        return self.e_ListComp(n, st)


def prefix(t, k):
    return z3.simplify(z3.SubString(t, z3.IntVal(0), k))


# ---- round 7: CONV is a DEFINED spec function (the char-wise map), no longer a bare "function of its argument" --------------
#   CONV("") = ""        CONV(s ++ c) = CONV(s) ++ G1(c)   (c one character)        G1(c) = GREEK_TO_LATEX[c] if c is a key, else c
# Only instances of the two defining equations are handed to the solver (on the prefixes of the iterated string); the table is
# the evaluated module constant of the real source (its sanity is the `tables` obligations).
GREEK_SPEC: dict = {}


def G1(ch):
    return ite_chain([(ch == sval(k), sval(v)) for k, v in GREEK_SPEC.items() if isinstance(k, str) and isinstance(v, str)], ch)


def conv_def_instances(t, i):
    return [CONV(prefix(t, i + 1)) == z3.Concat(CONV(prefix(t, i)), G1(z3.SubString(t, i, 1)))]


EXECUTOR = C19Executor


# ---- spec level ---------------------------------------------------------------------
def mod(repo=None):
    return loader.module(OMML, repo)


_PURE_BUILTINS = {k: __builtins__[k] if isinstance(__builtins__, dict) else getattr(__builtins__, k) for k in
                  ("frozenset", "tuple", "dict", "set", "list", "sorted", "str", "len", "range", "zip", "enumerate", "chr", "ord",
                   "int", "bool", "min", "max", "sum", "reversed", "map", "filter", "repr", "any", "all", "abs")}


def const_value(m, name, _depth=0):
    """value of a module-level constant of the real source: a literal, or a pure expression over literals, other such
    constants and pure builtins (dict merges, comprehensions, f-strings ...) evaluated without any other name in scope.
    Raises ValueError when the initialiser is not of that kind."""
    if name not in m.assigns or _depth > 8:
        raise ValueError(f"{name}: not a module-level constant")
    node = m.assigns[name]
    try:
        return ast.literal_eval(node)
    except (ValueError, SyntaxError, TypeError):
        pass
    for n in ast.walk(node):
        if isinstance(n, (ast.Lambda, ast.Await, ast.Yield, ast.YieldFrom, ast.NamedExpr, ast.Attribute)) and not (
                isinstance(n, ast.Attribute) and isinstance(n.ctx, ast.Load)):
            raise ValueError(f"{name}: initialiser is not a pure constant expression")
    bound = {t.id for n in ast.walk(node) if isinstance(n, ast.comprehension) for t in ast.walk(n.target) if isinstance(t, ast.Name)}
    env = {}
    for n in ast.walk(node):
        if isinstance(n, ast.Name) and isinstance(n.ctx, ast.Load) and n.id not in bound and n.id not in _PURE_BUILTINS:
            env[n.id] = const_value(m, n.id, _depth + 1)
    try:
        return eval(compile(ast.Expression(node), m.rel, "eval"), {"__builtins__": dict(_PURE_BUILTINS)}, env)
    except Exception as e:  # noqa
        raise ValueError(f"{name}: {type(e).__name__}: {e}")


def skip_tags(m):
    try:
        v = const_value(m, "_SKIP_TAGS")
        return sorted(x for x in v if isinstance(x, str))
    except (ValueError, TypeError):
        return None


def M_NS(repo=None):
    return const_value(mod(repo), "M_NS")


def Q(name, repo=None):
    return M_NS(repo) + name


def A0(c):
    """the (first) parameter of the function under contract, whatever it is called in the source"""
    return next(iter(c.args.values()))


def pname(qual, k, default, rel=None):
    """name of the k-th parameter in the real source (contracts bind parameters by position, not by name)"""
    try:
        f = loader.module(rel or OMML).functions.get(qual)
        return f.args.args[k].arg
    except Exception:  # noqa
        return default


def nb_of(v):
    """the brace-free hypothesis for an Optional[Element] argument"""
    return NB(v.t) if isinstance(v, VExt) else z3.BoolVal(True)


def elem_hyps(v):
    return [SIZE(v.t) >= 1, NCH(v.t) >= 0] if isinstance(v, VExt) else []


def once(st, key):
    if st.ghost.get(key):
        return False
    st.ghost[key] = True
    return True


# generic invariant of every symbolic loop / comprehension of the converter: what the accumulators
# gained in unmatched '{' is what the pending-radical state gained; accumulated pieces keep D >= 0
def conv_loop_inv(lc):
    ex = lc.ex
    c0 = ex.entry_ctx
    if PENDING in c0.args:                       # inside process_element
        p0 = c0.args[PENDING]
        cond = z3.And(nb_of(A0(c0)), p_not_rbrace(p0))
    else:                                        # inside omml_to_latex
        cond = nb_of(A0(c0))
    p_now, p_ent = lc.st.lookup(PENDING), lc.entry.lookup(PENDING)
    if p_now is None or p_ent is None:
        return z3.BoolVal(True)
    d_bal, d_D = z3.IntVal(0), z3.IntVal(0)
    for (now, ent) in acc_pairs(lc):
        if now is None or ent is None:
            return z3.BoolVal(False)
        d_bal = d_bal + (bal_of(now) - bal_of(ent))
        d_D = d_D + (D_of(now) - D_of(ent))
    base = z3.And(p_inv(p_now),
                  z3.Implies(cond, z3.And(open_(p_now) - open_(p_ent) == d_bal, d_D >= 0, p_not_rbrace(p_now))))
    try:
        cc = content_conj(lc)
    except Exception:  # noqa  (shape not recognised: no content claim; the content ensures then stays unproved)
        cc = None
    return base if cc is None else z3.And(base, cc)


def end_of_iteration(lc):
    """the invariant is being evaluated at the end of the body (index `i + 1`, i the fresh index constant of the loop rule), not at
    loop entry (0), at the start of the body (i) or after the loop (the length term)"""
    t = lc.i
    return z3.is_add(t) and t.num_args() == 2 and z3.is_int_value(t.arg(1)) and t.arg(1).as_long() == 1 and \
        z3.is_const(t.arg(0)) and t.arg(0).decl().kind() == z3.Z3_OP_UNINTERPRETED


def content_conj(lc):
    """round 7 (ORDER / ONCE, deductive): a loop of the converter that iterates over an Element itself (the default branch of the
    worker, the top-level loop of omml_to_latex).  History ghost of THIS loop execution
        CH(e, 0) = ""      CH(e, i+1) = CH(e, i) ++ r_i      r_i = result of the ONE worker call of iteration i, made on child i
    (defining equations, added to the path as the iteration supplies r_i), invariant
        content(accumulator) == content(accumulator at loop entry) ++ CH(e, i)
    i.e. every iteration calls the worker exactly once, on the i-th child, and the accumulator gains exactly that result (an
    iteration may drop it only when it is the empty string).  An iteration with no / several worker calls, or a call on
    something else than child i -> False (candidate; the native replayer decides).  None: not such a loop."""
    it = lc.seq
    if isinstance(it, VSeq) and isinstance(it.tag, dict) and it.tag.get("findall") is not None:
        return items_conj(lc)
    if not (isinstance(it, VExt) and it.sort == "Element"):
        return None
    pairs = acc_pairs(lc)
    if len(pairs) != 1 or pairs[0][0] is None or pairs[0][1] is None or not lc.extra.get("calls_worker"):
        return None
    e = it.t
    CH = lc.extra.get("chcat")
    if CH is None:
        CH = lc.extra["chcat"] = z3.Function(fresh_name("children_results"), El, I, S)
    known = lc.st.ghost.get("content_loops", ())
    if not any(x[1].eq(CH) for x in known):
        lc.st.ghost["content_loops"] = known + ((e, CH),)
    now, ent = cat_of(pairs[0][0]), cat_of(pairs[0][1])
    lc.st.assume(CH(e, z3.IntVal(0)) == sval(""))
    if end_of_iteration(lc):                                   # end of iteration i (lc.i is i + 1)
        i0 = z3.simplify(lc.i - 1)
        n_ent = len([x for x in lc.entry.ghost.get("rcalls", ()) if x[0] == PE])
        new = [x for x in lc.st.ghost.get("rcalls", ()) if x[0] == PE][n_ent:]
        if len(new) != 1:
            return z3.BoolVal(False)
        (_t, am, rv) = new[0]
        a = next(iter(am.values()))
        if not (isinstance(a, VExt) and a.t.eq(CHILD(e, i0)) and isinstance(rv, VStr)):
            return z3.BoolVal(False)
        lc.st.assume(CH(e, lc.i) == z3.Concat(CH(e, i0), rv.t))
    return now == cat2(ent, CH(e, lc.i))


NESTED_SPEC = {"mr": ("e", " & ")}          # documented form of a matrix: the cells (m:e) of a row (m:mr) joined by ' & '


def items_conj(lc):
    """the same for a loop / comprehension over `e.findall(T)` whose ONE accumulator is a list of str (operands of m:d): history
        RS(e, 0) = []      RS(e, i+1) = RS(e, i) ++ [r_i]      r_i = result of the ONE worker call of iteration i, made on item i
    invariant   items(accumulator) == items(accumulator at loop entry) ++ RS(e, i).   None: not such a loop (no claim)."""
    it = lc.seq
    e, path = it.tag["findall"]
    accs = lc.extra.get("accs", ())
    if len(accs) != 1 or lc.extra.get("svars"):
        return None
    now, ent = sums_of(lc.st, accs[0]), sums_of(lc.entry, accs[0])
    if now is None or ent is None:
        return None
    n_ent = len([x for x in lc.entry.ghost.get("rcalls", ()) if x[0] == PE])
    new = [x for x in lc.st.ghost.get("rcalls", ()) if x[0] == PE][n_ent:]
    nested = None
    if not lc.extra.get("calls_worker"):
        # rows of a matrix: no worker call of its own, ONE inner loop that has -- item i is rendered as the documented join of
        # the results of that inner loop over the item's cells (NESTED_SPEC: outer path -> (cell tag, cell separator))
        if lc.extra.get("nested") and any(path == Q(k) for k in NESTED_SPEC):
            nested = [v for k, v in NESTED_SPEC.items() if path == Q(k)][0]
        else:
            return None                                   # a loop that renders nothing itself: no content claim
    RS = lc.extra.get("rseq")
    if RS is None:
        RS = lc.extra["rseq"] = z3.Function(fresh_name("operand_results"), El, I, SS)
    known = lc.st.ghost.get("item_loops", ())
    if not any(x[2].eq(RS) for x in known):
        lc.st.ghost["item_loops"] = known + ((e, path, RS),)
    lc.st.assume(RS(e, z3.IntVal(0)) == z3.Empty(SS))
    if end_of_iteration(lc) and nested is not None:
        i0 = z3.simplify(lc.i - 1)
        item = it.elem(i0).t
        before = lc.entry.ghost.get("item_loops", ())
        inner = [x for x in lc.st.ghost.get("item_loops", ()) if not x[2].eq(RS) and not any(x[2].eq(y[2]) for y in before)]
        if len(new) != 0 or len(inner) != 1 or not inner[0][0].eq(item) or inner[0][1] != Q(nested[0]):
            return z3.BoolVal(False)
        row = SJOIN(sval(nested[1]), inner[0][2](item, NFINDALL(item, sval(Q(nested[0])))))
        lc.st.assume(RS(e, lc.i) == z3.Concat(RS(e, i0), z3.Unit(row)))
    elif end_of_iteration(lc):
        i0 = z3.simplify(lc.i - 1)
        if len(new) != 1:
            return z3.BoolVal(False)
        (_t, am, rv) = new[0]
        a = next(iter(am.values()))
        if not (isinstance(a, VExt) and a.t.eq(it.elem(i0).t) and isinstance(rv, VStr)):
            return z3.BoolVal(False)
        lc.st.assume(RS(e, lc.i) == z3.Concat(RS(e, i0), z3.Unit(rv.t)))
    return items_of(now) == seqcat(items_of(ent), RS(e, lc.i))


def operands_in_order(c, e, child, sep):
    """sep.join(results of the worker on every `child` child of e, in order), from the one item loop over e.findall(child)"""
    loops = [x for x in c.st.ghost.get("item_loops", ()) if x[0].eq(e) and x[1] == Q(child)]
    if len(loops) != 1:
        return z3.String(fresh_name("no-unique-loop-over-the-operands"))
    return SJOIN(sval(sep), loops[0][2](e, NFINDALL(e, sval(Q(child)))))


def content_of_children(c, e):
    """CH(e, len(e)) of the one content loop over `e` on this path (a fresh unconstrained string if there is none)"""
    loops = [x for x in c.st.ghost.get("content_loops", ()) if x[0].eq(e)]
    if len(loops) != 1:
        return z3.String(fresh_name("no-unique-loop-over-the-children"))
    return loops[0][1](e, NCH(e))


def acc_pairs(lc):
    """(now, at loop entry) count summaries of everything the loop accumulates: lists of str and str variables"""
    out = [(sums_of(lc.st, r), sums_of(lc.entry, r)) for r in lc.extra.get("accs", ())]
    for name in lc.extra.get("svars", ()):
        a, b = lc.st.lookup(name), lc.entry.lookup(name)
        out.append((dict(H3(a.t), cat=a.t) if isinstance(a, VStr) else None, dict(H3(b.t), cat=b.t) if isinstance(b, VStr) else None))
    return out


def greek_loop_inv(lc):
    tv = A0(lc.ex.entry_ctx)
    pairs = acc_pairs(lc)
    if len(pairs) != 1 or pairs[0][0] is None or pairs[0][1] is None or not isinstance(tv, VStr):
        return z3.BoolVal(False)
    t = tv.t
    sm = {h: pairs[0][0][h] - pairs[0][1][h] for h in HN}          # what the loop has accumulated so far
    if not (isinstance(lc.seq, VStr) and lc.seq.t.eq(t)):
        return z3.BoolVal(False)                                  # only loops over the characters of `text`
    hp = H3(prefix(t, lc.i))
    now = pairs[0][0]
    # round 7 (content): what has been accumulated so far IS the char-wise map of the characters consumed so far
    content = cat_of(now) == cat2(cat_of(pairs[0][1]), CONV(prefix(t, lc.i)))
    return z3.And(bal_of(sm) == bal_of(hp), D_of(sm) >= D_of(hp), now["LB"] >= 0, now["RB"] >= 0, now["NW"] >= 0, content)


def verifying(c):
    """True when the clause is evaluated on the body of the function under verification (ghost
    traces of the path exist), False when it is assumed at a call site"""
    e0 = getattr(c.ex, "entry_ctx", None)
    return e0 is not None and c.args is e0.args


def rcalls(c):
    return [x for x in c.st.ghost.get("rcalls", ()) if x[0] == PE]


def operand(c, e, name):
    """P(child): "" when the element has no such child, else the result of the (unique) modular
    call of process_element on that child (a fresh unconstrained string if there was none)"""
    P = sval(Q(name))
    r = FIND(e, P)
    hits = [rv for (_t, am, rv) in rcalls(c) if isinstance(next(iter(am.values())), VExt) and next(iter(am.values())).t.eq(r)]
    got = hits[0].t if len(hits) == 1 else z3.String(fresh_name(f"no-unique-call-on-{name}"))
    return z3.If(FINDNONE(e, P), sval(""), got)


def own_val(e, pr, ch, default):
    """val attribute of the element's *own* property child pr/ch; `default` when that child or its val is absent"""
    P = sval(Q(pr) + "/" + Q(ch))
    r = FIND(e, P)
    K = sval(Q("val"))
    return z3.If(z3.Or(FINDNONE(e, P), z3.Not(HASATTR(r, K))), sval(default), ATTR(r, K))


def ite_chain(cases, default):
    acc = default
    for cnd, v in reversed(cases):
        acc = z3.If(cnd, v, acc)
    return acc


def cat(*xs):
    return z3.Concat(*[sval(x) if isinstance(x, str) else x for x in xs])


# documented forms (module docstring / docstring of omml_to_latex); written here, not read from the body
NARY_OPS = {"∑": "\\sum", "∏": "\\prod", "∫": "\\int", "∬": "\\iint", "∭": "\\iiint"}
ACCENTS = {"̂": "\\hat", "̃": "\\tilde", "̄": "\\bar", "⃗": "\\vec", "̇": "\\dot"}
FUNCS = ("sin", "cos", "tan", "log", "ln", "lim", "exp", "max", "min")
CLOSER = {"(": ")", "[": "]", "{": "}"}
STRUCT_TAGS = ("f", "sSup", "sSub", "sSubSup", "rad", "nary", "d", "m", "func", "bar", "acc", "t")


def joined(c, sep, e, child):
    """the string `sep.join(items)` built on this path whose items come from the element's own `child` children
    (findall): None when there is not exactly one such join.  A list whose provenance the executor did not see is
    accepted; one that is known to come from another sequence (e.g. all descendants) is not."""
    cands = []
    for (s_, ref, j) in c.st.ghost.get("joins", ()):
        if s_ != sep:
            continue
        src = c.st.ghost.get(("comp_src", ref)) or c.st.ghost.get(("loop_src", ref))
        if src is None or (isinstance(src, str) and src == "other") or (isinstance(src, tuple) and len(src) == 2 and src[0].eq(e) and src[1] == Q(child)):
            cands.append(j)
    return cands[0] if len(cands) == 1 else None


def path_tag(c):
    """the tag literal this path has committed to (from the path condition), if any"""
    e = A0(c)
    if not isinstance(e, VExt):
        return None
    ln = lname(e.t)
    for f in c.st.pc:
        if z3.is_eq(f) and f.num_args() == 2:
            a, b = f.arg(0), f.arg(1)
            if a.eq(ln) and z3.is_string_value(b):
                return z3_str_value(b)
            if b.eq(ln) and z3.is_string_value(a):
                return z3_str_value(a)
    return None


def template(tag):
    def clause(c):
        ev = A0(c)
        if not verifying(c) or not isinstance(ev, VExt) or not isinstance(c.result, VStr):
            return z3.BoolVal(True)
        committed = path_tag(c)
        if committed is not None and committed != tag:
            return z3.BoolVal(True)          # pc entails lname == another literal: vacuous
        e, res = ev.t, c.result.t
        p0, p1 = c.args[PENDING], c.closure(PENDING)
        P = lambda nm: operand(c, e, nm)
        guard = lname(e) == sval(tag)
        if tag == "f":
            body = res == cat("\\frac{", P("num"), "}{", P("den"), "}")
        elif tag == "sSup":
            body = res == cat(P("e"), "^{", P("sup"), "}")
        elif tag == "sSub":
            body = res == cat(P("e"), "_{", P("sub"), "}")
        elif tag == "sSubSup":
            body = res == cat(P("e"), "_{", P("sub"), "}^{", P("sup"), "}")
        elif tag == "bar":
            body = res == cat("\\overline{", P("e"), "}")
        elif tag == "acc":
            a = own_val(e, "accPr", "chr", "̂")
            cmd = ite_chain([(a == sval(k), sval(v)) for k, v in ACCENTS.items()], sval("\\hat"))
            body = res == cat(cmd, "{", P("e"), "}")
        elif tag == "func":
            fn = P("fName")
            cmd = ite_chain([(STRIP(fn) == sval(k), sval("\\" + k)) for k in FUNCS], fn)
            body = res == cat(cmd, "{", P("e"), "}")
        elif tag == "nary":
            o = own_val(e, "naryPr", "chr", "∑")
            op = ite_chain([(o == sval(k), sval(v)) for k, v in NARY_OPS.items()], CONV(o))
            sub, sup = P("sub"), P("sup")
            subp = z3.If(z3.Length(STRIP(sub)) > 0, cat("_{", sub, "}"), sval(""))
            supp = z3.If(z3.Length(STRIP(sup)) > 0, cat("^{", sup, "}"), sval(""))
            body = res == cat(op, subp, supp, " ", P("e"))
        elif tag == "rad":
            ct, dg = P("e"), STRIP(P("deg"))
            lone = z3.Or([STRIP(ct) == sval(k) for k in CLOSER])
            head = z3.If(z3.Length(dg) > 0, cat("\\sqrt[", dg, "]{"), sval("\\sqrt{"))
            n1, t1 = opt_parts(p1)
            closer = ite_chain([(STRIP(ct) == sval(k), sval(v)) for k, v in CLOSER.items()], sval(""))
            body = z3.If(lone,
                         # malformed radical (documented): the radical is opened and left open, the matching
                         # closer is remembered; an already open one may be closed first
                         z3.And(z3.Or(res == head, res == cat("}", head)), z3.Not(n1), t1 == closer),
                         res == cat(head, ct, "}"))
        elif tag == "d":
            left, right = own_val(e, "dPr", "begChr", "("), own_val(e, "dPr", "endChr", ")")
            mid = joined(c, ", ", e, "e")
            mid = z3.String(fresh_name("no-join-of-e-operands")) if mid is None else mid
            body = res == cat(left, mid, right)
        elif tag == "m":
            guard = z3.And(guard, z3.Not(FINDNONE(e, sval(Q("mr")))))
            mid = joined(c, " \\\\ ", e, "mr")
            mid = z3.String(fresh_name("no-join-of-rows")) if mid is None else mid
            body = res == cat("\\begin{matrix}", mid, "\\end{matrix}")
        elif tag == "t":
            txt = z3.If(z3.Or(TEXTNONE(e), z3.Length(TEXT(e)) == 0), sval(""), TEXT(e))
            cv = CONV(txt)
            n0, t0 = opt_parts(p0)
            n1, _t1 = opt_parts(p1)
            hit = z3.And(z3.Not(n0), z3.Length(t0) > 0, z3.Contains(cv, t0))
            k = z3.IndexOf(cv, t0, 0)
            body = z3.If(hit,
                         z3.And(res == cat(z3.SubString(cv, 0, k), "}", z3.SubString(cv, k + 1, z3.Length(cv) - (k + 1))), n1),
                         z3.And(res == cv, p_same(p0, p1)))
        else:
            raise AssertionError(tag)
        return z3.Implies(guard, body)
    return clause


def contracts(reg):
    install(reg)
    m = mod()
    out = []
    try:
        greek = const_value(m, "GREEK_TO_LATEX")
        # the executor reads the same evaluated tables (whatever pure expression builds them in the source)
        reg.module_consts[(OMML, "GREEK_TO_LATEX")] = ops.lift(dict(greek))
        GREEK_SPEC.clear()
        GREEK_SPEC.update(dict(greek))
        if skip_tags(m) is not None:
            from pyvc.values import VSetC
            reg.module_consts[(OMML, "_SKIP_TAGS")] = VSetC(skip_tags(m), "_SKIP_TAGS")
    except (ValueError, TypeError):
        greek = {}
        GREEK_SPEC.clear()
    fn_conv = m.functions["convert_greek_and_symbols"]
    fn_omml = m.functions["omml_to_latex"]

    # ------------------------------------------------------- convert_greek_and_symbols --
    def conv_hyps(c):
        fs = []
        if once(c.st, "const-facts-conv"):
            fs += const_facts(list(greek) + [""] + source_literals(fn_conv))
        t = A0(c)
        if isinstance(t, VStr):
            fs += str_facts(t.t)
        fs.append(CONV(sval("")) == sval(""))            # defining equation of the spec function (round 7)
        return z3.And(fs) if fs else z3.BoolVal(True)

    def tx(c):
        t = A0(c)
        return t.t if isinstance(t, VStr) else z3.String(fresh_name("not-a-str"))

    def conv_result(ex, st, c):
        return VStr(CONV(tx(c)))

    out.append(FnContract(
        target=f"{OMML}::convert_greek_and_symbols",
        params=[(pname("convert_greek_and_symbols", 0, "text"), Maker(lambda ex, st, name: VStr(z3.String(name)), desc="str"))],
        requires=lambda c: z3.BoolVal(isinstance(A0(c), VStr)),     # a str: None is not iterable
        hyps=conv_hyps,
        result_maker=conv_result,
        total=True, raises=[],
        ensures=[
            ("returns-str", lambda c: z3.BoolVal(isinstance(c.result, VStr))),
            ("counts-nonneg", lambda c: z3.And([v >= 0 for v in H3(c.result.t).values()])),
            ("balance-preserved", lambda c: bal_of(H3(c.result.t)) == bal_of(H3(tx(c)))),
            ("no-lone-brace", lambda c: D_of(H3(c.result.t)) >= D_of(H3(tx(c)))),
            # round 7: the result IS the char-wise map of the argument (every character once, in order, table keys replaced by
            # their commands).  This is what call sites use (`result_maker` = CONV(text)): verified here, no longer assumed.
            ("is-the-charwise-map-of-its-argument", lambda c: c.result.t == CONV(tx(c)) if isinstance(c.result, VStr) else z3.BoolVal(False)),
        ],
        loops={"*": LoopSpec(inv=greek_loop_inv)},
        note="char-wise map through GREEK_TO_LATEX: total on str, preserves brace balance",
    ))

    # ------------------------------------------------------------------- process_element --
    def pe_requires(c):
        return p_inv(c.args[PENDING])

    def pe_hyps(c):
        fs = list(elem_hyps(A0(c)))
        if once(c.st, "const-facts-pe"):
            fs += const_facts([""] + source_literals(fn_omml))
        ex = c.ex
        if HELPERS and verifying(c) and c.st.frames and c.st.frames[0].fnode is None:
            # the worker's sibling helpers are closures of the same enclosing frame (they run in place, inlined)
            for q_, f_ in mod(ex.module.repo).functions.items():
                if q_.startswith("omml_to_latex.<locals>.") and f_.name in HELPERS:
                    c.st.frames[0].env.setdefault(f_.name, VFunc("closure", f_, 0))
        if ex.contract is not None and ex.contract.target == PE and isinstance(A0(c), VExt):
            wt = ex.witness_terms = getattr(ex, "witness_terms", {})
            e = A0(c).t
            n0, t0 = opt_parts(c.args[PENDING])
            wt.setdefault("tag", lname(e))
            wt.setdefault("pending_is_none", n0)
            wt.setdefault("pending", t0)
        return z3.And(fs) if fs else z3.BoolVal(True)

    def pe_result(ex, st, c):
        t = z3.String(fresh_name("pe"))
        return VStr(t)

    def pe_cond(c):
        return z3.And(nb_of(A0(c)), p_not_rbrace(c.args[PENDING]))

    def pe_balance(c):
        h = H3(c.result.t)
        return z3.Implies(pe_cond(c), bal_of(h) == open_(c.closure(PENDING)) - open_(c.args[PENDING]))

    def pe_aux(c):
        h = H3(c.result.t)
        return z3.Implies(pe_cond(c), z3.And(D_of(h) >= 0, p_not_rbrace(c.closure(PENDING))))

    def pe_none(c):
        if isinstance(A0(c), VExt):
            return z3.BoolVal(True)
        return z3.And(c.result.t == sval(""), p_same(c.args[PENDING], c.closure(PENDING)))

    def pe_skip(c):
        ev = A0(c)
        if not verifying(c) or not isinstance(ev, VExt):
            return z3.BoolVal(True)
        tags = skip_tags(mod(c.ex.module.repo))
        if tags is None:
            return z3.BoolVal(False)
        is_skip = z3.Or([lname(ev.t) == sval(k) for k in tags])
        return z3.Implies(is_skip, z3.And(c.result.t == sval(""), p_same(c.args[PENDING], c.closure(PENDING)),
                                          z3.BoolVal(len(rcalls(c)) == 0)))

    def dec(c):
        v = A0(c)
        return SIZE(v.t) if isinstance(v, VExt) else z3.IntVal(0)

    def pe_d_operands(c):
        """round 7: the operands of a delimiter are rendered each once, in document order, joined by ', ' between the delimiters"""
        ev = A0(c)
        if not verifying(c) or not isinstance(ev, VExt) or not isinstance(c.result, VStr):
            return z3.BoolVal(True)
        committed = path_tag(c)
        if committed is not None and committed != "d":
            return z3.BoolVal(True)
        e = ev.t
        left, right = own_val(e, "dPr", "begChr", "("), own_val(e, "dPr", "endChr", ")")
        return z3.Implies(lname(e) == sval("d"), c.result.t == cat(left, operands_in_order(c, e, "e", ", "), right))

    def pe_m_cells(c):
        """round 7: a matrix is its rows in document order joined by ' \\\\ ', a row its cells in document order joined by ' & ',
        a cell the result of the worker on it -- every cell rendered exactly once"""
        ev = A0(c)
        if not verifying(c) or not isinstance(ev, VExt) or not isinstance(c.result, VStr):
            return z3.BoolVal(True)
        committed = path_tag(c)
        if committed is not None and committed != "m":
            return z3.BoolVal(True)
        e = ev.t
        guard = z3.And(lname(e) == sval("m"), z3.Not(FINDNONE(e, sval(Q("mr")))))
        return z3.Implies(guard, c.result.t == cat("\\begin{matrix}", operands_in_order(c, e, "mr", " \\\\ "), "\\end{matrix}"))

    def pe_default(c):
        """round 7: every element that is neither a structure nor a skipped property (m:r, m:e, m:num, m:oMath, unknown
        wrappers ...) is rendered as the results of the worker on its children, each once, in document order"""
        ev = A0(c)
        if not verifying(c) or not isinstance(ev, VExt) or not isinstance(c.result, VStr):
            return z3.BoolVal(True)
        tags = skip_tags(mod(c.ex.module.repo))
        if tags is None:
            return z3.BoolVal(False)
        committed = path_tag(c)
        if committed is not None and committed != "m" and (committed in STRUCT_TAGS or committed in tags):
            return z3.BoolVal(True)
        e = ev.t
        other = z3.And([lname(e) != sval(k) for k in STRUCT_TAGS if k != "m"] + [lname(e) != sval(k) for k in tags] +
                       [z3.Or(lname(e) != sval("m"), FINDNONE(e, sval(Q("mr"))))])
        return z3.Implies(other, c.result.t == content_of_children(c, e))

    out.append(FnContract(
        target=PE,
        params=[(pname(f"omml_to_latex.<locals>.{PE_NAME}", 0, "elem"), p_opt(p_ext("Element")))],
        closure=[(PENDING, p_optstr())] + [(a_, p_auxint()) for a_ in AUX], closure_modifies=(PENDING,) + tuple(AUX),
        requires=pe_requires, hyps=pe_hyps, result_maker=pe_result,
        total=True, raises=[], decreases=dec,
        ensures=[
            ("returns-str", lambda c: z3.BoolVal(isinstance(c.result, VStr))),
            ("counts-nonneg", lambda c: z3.And([v >= 0 for v in H3(c.result.t).values()])),
            ("pending-is-None-or-closer", lambda c: p_inv(c.closure(PENDING))),
            ("balance", pe_balance),
            ("no-lone-brace", pe_aux),
            ("None-is-empty", pe_none),
            ("property-tags-skipped", pe_skip),
        ] + [(f"template.{t}", template(t)) for t in STRUCT_TAGS] + [("template.default-children-in-order", pe_default),
                                                                      ("template.d-operands-in-order", pe_d_operands),
                                                                      ("template.m-cells-in-order", pe_m_cells)],
        loops={"*": LoopSpec(inv=conv_loop_inv)},
        note="recursive; verified against its own contract at every recursive call",
    ))
    out[-1].oid_name = PE_OID

    # ----------------------------------------------------------------------- omml_to_latex --
    def om_hyps(c):
        fs = list(elem_hyps(A0(c)))
        if once(c.st, "const-facts-om"):
            fs += const_facts([""] + source_literals(fn_omml))
        return z3.And(fs) if fs else z3.BoolVal(True)

    def om_none(c):
        if isinstance(A0(c), VExt):
            return z3.BoolVal(True)
        return c.result.t == sval("")

    def om_content(c):
        """round 7: the result is the results of the worker on the children of the root, each once, in document order,
        followed by nothing or by the one `}` that closes a radical still open at the end"""
        ev = A0(c)
        if not verifying(c) or not isinstance(ev, VExt) or not isinstance(c.result, VStr):
            return z3.BoolVal(True)
        ch = content_of_children(c, ev.t)
        return z3.Or(c.result.t == ch, c.result.t == z3.Concat(ch, sval("}")))

    out.append(FnContract(
        target=f"{OMML}::omml_to_latex",
        params=[(pname("omml_to_latex", 0, "omath_element"), p_opt(p_ext("Element")))],
        # callers hand in an Element or None (checked at every call site inside a function under contract)
        requires=lambda c: z3.BoolVal(isinstance(A0(c), VNoneT) or
                                      (isinstance(A0(c), VExt) and A0(c).sort == "Element")),
        hyps=om_hyps,
        # a function of the tree (the determinism policy obligations + no mutation of the tree by its callers)
        result_maker=lambda ex, st, c: VStr(OML(A0(c).t)) if isinstance(A0(c), VExt)
        else VStr(""),
        total=True, raises=[],
        ensures=[
            ("returns-str", lambda c: z3.BoolVal(isinstance(c.result, VStr))),
            ("balanced-for-brace-free-trees", lambda c: z3.Implies(nb_of(A0(c)),
                                                                  bal_of(H3(c.result.t)) == 0)),
            ("None-is-empty", om_none),
            ("children-results-in-order-then-closer", om_content),
        ],
        loops={"*": LoopSpec(inv=conv_loop_inv)},
        note="for every tree: no exception; brace-free tree => balanced output",
    ))
    from contracts import C19_sites
    return out + C19_sites.site_contracts(reg)


# ---- ground / syntactic obligations ----------------------------------------------------
def tables(repo, tier):
    from pyvc.flow import ground_obligation, dotted
    from pyvc.contracts import Registry
    from pyvc.exctypes import Universe
    m = loader.module(OMML, repo)
    obls, fns, und = [], [], []
    G = lambda oid, ok, why="": obls.append(ground_obligation(
        f"C19/omml_to_latex.py::{oid}", ok, why, "tables", kind="module-invariant", backend="ground"))
    try:
        greek = const_value(m, "GREEK_TO_LATEX")
        ns = const_value(m, "M_NS")
    except Exception as e:  # noqa
        return {"undecided": [{"obligation": "C19/omml_to_latex.py::tables", "why": f"table not a literal: {e}"}]}
    skip = set(skip_tags(m) or ())
    lb, rb, nw = (HOMS[h][1] for h in HN)
    bad = [k for k in greek if not (isinstance(k, str) and len(k) == 1)]
    G("GREEK_TO_LATEX/module-invariant#keys-are-single-characters", not bad and len(greek) > 0, repr(bad))
    bad = [k for k in greek if k in "{}()[]" or k.isspace() or k == "\\"]
    G("GREEK_TO_LATEX/module-invariant#no-key-is-a-brace-bracket-space-or-backslash", not bad, repr(bad))
    bad = [k for k, v in greek.items() if not isinstance(v, str) or lb(v) != rb(v)]
    G("GREEK_TO_LATEX/module-invariant#values-brace-balanced", not bad, repr(bad))
    bad = [k for k, v in greek.items() if isinstance(v, str) and any(v[:i].count("}") > v[:i].count("{") for i in range(len(v) + 1))]
    G("GREEK_TO_LATEX/module-invariant#values-never-close-before-open", not bad, repr(bad))
    bad = [k for k, v in greek.items() if not isinstance(v, str) or nw(v) - 2 * lb(v) < 1 or v != v.strip() or not v]
    G("GREEK_TO_LATEX/module-invariant#values-visible-no-lone-brace", not bad, repr(bad))
    bad = [k for k, v in greek.items() if isinstance(v, str) and any(ch in v for ch in "()[]")]
    G("GREEK_TO_LATEX/module-invariant#values-contain-no-bracket-closers", not bad, repr(bad))
    bad = [k for k, v in greek.items() if isinstance(v, str) and len(v) > 1 and not v.startswith("\\")]
    G("GREEK_TO_LATEX/module-invariant#multi-character-values-are-commands", not bad, repr(bad))
    bad = sorted(skip & set(STRUCT_TAGS) | (skip & {"r", "e", "num", "den", "sub", "sup", "deg", "fName", "mr", "oMath", "oMathPara"}))
    G("_SKIP_TAGS/module-invariant#no-structural-or-operand-tag-is-skipped", not bad and len(skip) > 0, repr(bad))
    G("M_NS/module-invariant#namespace-in-clark-notation", isinstance(ns, str) and ns.startswith("{") and ns.endswith("}")
      and ns.count("}") == 1, repr(ns))

    # determinism: the converter reads no state but its argument, the closure variable and module constants
    P = lambda oid, ok, why="": obls.append(ground_obligation(
        f"C19/{oid}", ok, why or "shape not recognised", "syntax", definite=False))
    fo = m.functions.get("omml_to_latex")
    fp = m.functions.get(f"omml_to_latex.<locals>.{PE_NAME}")
    if fo is not None:
        # module constants: names bound exactly once at module level, never mutated, whose initialiser reads only
        # literals, other such constants and pure builtins (comprehensions, f-strings, dict()/frozenset() ... included)
        PURE = {"frozenset", "tuple", "dict", "set", "list", "sorted", "str", "len", "range", "zip", "enumerate", "chr", "ord",
                "int", "bool", "min", "max", "sum", "reversed", "map", "filter", "repr", "float", "bytes", "any", "all", "abs"}
        stores = {}
        for n in ast.walk(m.tree):
            if isinstance(n, ast.Name) and isinstance(n.ctx, (ast.Store, ast.Del)):
                stores[n.id] = stores.get(n.id, 0) + 1
        mutated = {n.value.id for n in ast.walk(m.tree) if isinstance(n, (ast.Subscript, ast.Attribute))
                   and isinstance(n.ctx, (ast.Store, ast.Del)) and isinstance(n.value, ast.Name)}
        mutated |= {n.func.value.id for n in ast.walk(m.tree) if isinstance(n, ast.Call) and isinstance(n.func, ast.Attribute)
                    and isinstance(n.func.value, ast.Name) and n.func.attr in
                    ("append", "extend", "add", "update", "pop", "clear", "remove", "setdefault", "insert", "discard", "popitem",
                     "sort", "reverse")}
        mutated |= {x for n in ast.walk(m.tree) if isinstance(n, ast.Global) for x in n.names}

        def pure(v, consts):
            bound = {t.id for n in ast.walk(v) if isinstance(n, ast.comprehension) for t in ast.walk(n.target) if isinstance(t, ast.Name)}
            for n in ast.walk(v):
                if isinstance(n, (ast.Lambda, ast.Await, ast.Yield, ast.YieldFrom, ast.NamedExpr)):
                    return False
                if isinstance(n, ast.Name) and isinstance(n.ctx, ast.Load) and n.id not in bound | consts | PURE:
                    return False
                if isinstance(n, ast.Call) and not (isinstance(n.func, ast.Name) or isinstance(n.func, ast.Attribute)):
                    return False
            return True
        cands = {k: v for k, v in m.assigns.items() if stores.get(k, 0) == 1 and k not in mutated}
        allowed_globals = set()
        changed = True
        while changed:
            changed = False
            for k, v in cands.items():
                if k not in allowed_globals and pure(v, allowed_globals):
                    allowed_globals.add(k)
                    changed = True
        allowed_globals |= {k for k in m.functions if "." not in k} | {"ET"}
        # classes of the module, like its functions: instantiated inside the converter their state is per call; an INSTANCE kept at
        # module level is not a constant (its initialiser calls a class: not pure) and stays a free name
        allowed_globals |= set(getattr(m, "classes", {}) or {})
        # a module logger: log statements are not part of the function's result (PY-LOG)
        allowed_globals |= {k for k, v in m.assigns.items() if isinstance(v, ast.Call) and dotted(v.func) in
                            ("logging.getLogger", "getLogger")}
        allowed_globals |= {k for k, v in m.imports.items() if v.split(".")[0] in ("logging", "typing", "__future__")}
        locs = {a.arg for a in fo.args.args} | {n.id for n in ast.walk(fo) if isinstance(n, ast.Name) and isinstance(n.ctx, ast.Store)}
        if fp is not None:
            locs |= {a.arg for a in fp.args.args} | {fp.name}
        for nf in ast.walk(fo):                     # every nested def / lambda: its name and parameters are locals of the converter
            if isinstance(nf, (ast.FunctionDef, ast.Lambda)) and nf is not fo:
                locs |= {a.arg for a in nf.args.args + nf.args.kwonlyargs + nf.args.posonlyargs}
                locs |= {a.arg for a in (nf.args.vararg, nf.args.kwarg) if a is not None}
                if isinstance(nf, ast.FunctionDef):
                    locs.add(nf.name)
        ann = set()
        for n in ast.walk(fo):
            for a in ([n.annotation] if isinstance(n, (ast.AnnAssign, ast.arg)) and n.annotation is not None else []) + \
                     ([n.returns] if isinstance(n, ast.FunctionDef) and n.returns is not None else []):
                ann |= {id(x) for x in ast.walk(a)}
        free = sorted({n.id for n in ast.walk(fo) if isinstance(n, ast.Name) and isinstance(n.ctx, ast.Load) and id(n) not in ann}
                      - locs - allowed_globals)
        nonl = sorted({x for n in ast.walk(fo) if isinstance(n, (ast.Nonlocal, ast.Global)) for x in n.names})
        P("omml_to_latex.py::omml_to_latex/policy#reads-only-argument-closure-state-and-module-constants",
          not free and not any(isinstance(n, ast.Global) for n in ast.walk(fo)),      # (`nonlocal` can only name locals of omml_to_latex)
          f"free={free} nonlocal/global={nonl}")
        iters = [n.iter for n in ast.walk(fo) if isinstance(n, (ast.For, ast.comprehension))]
        unordered_consts = {k for k, v in m.assigns.items() if isinstance(v, (ast.Set, ast.SetComp)) or
                            (isinstance(v, ast.Call) and isinstance(v.func, ast.Name) and v.func.id in ("set", "frozenset"))}

        def unordered(i):
            return isinstance(i, (ast.Set, ast.SetComp)) or (isinstance(i, ast.Name) and i.id in unordered_consts) or \
                (isinstance(i, ast.Call) and isinstance(i.func, ast.Name) and i.func.id in ("set", "frozenset"))
        bad = [ast.unparse(i) for i in iters if unordered(i)]
        P("omml_to_latex.py::omml_to_latex/policy#iterates-only-ordered-sequences", not bad, repr(bad))
        banned = [ast.unparse(n.func) for n in ast.walk(fo) if isinstance(n, ast.Call) and dotted(n.func).split(".")[0] in
                  ("random", "time", "os", "id", "hash", "set", "frozenset", "open", "input")]
        P("omml_to_latex.py::omml_to_latex/policy#no-nondeterministic-primitive", not banned, repr(banned))
        fns.append(dict(m.fn_info("omml_to_latex"), obligations=3))

    # call sites: argument is an Element (loop variable of .iter / result of .find checked against None / parameter)
    for rel in ("sharepoint2text/parsing/extractors/ms_modern/docx_extractor.py",
                "sharepoint2text/parsing/extractors/ms_modern/pptx_extractor.py"):
        try:
            cm = loader.module(rel, repo)
        except FileNotFoundError:
            und.append({"obligation": f"C19/{rel.split('/')[-1]}::call-sites", "why": "contract-target-missing"})
            continue
        short = rel.split("/")[-1]
        sites = []
        for q, f in cm.functions.items():
            if ".<locals>." in q:
                continue
            conv_calls = converter_calls(cm, f)
            for n in ast.walk(f):
                if isinstance(n, ast.Call) and n in conv_calls:
                    sites.append((q, f, n))
        ok_all, why = bool(sites), []
        from contracts import C19_sites as _S
        covered = {t.split("::")[1] for t in (_S.T_PPTX, _S.T_DOCX, _S.T_PTE) if t.split("::")[0] == rel}
        for (q, f, n) in sites:
            if q in covered:
                continue          # the argument kind is a call-pre VC of that function's contract (or its bounded stand-in)
            a = n.args[0] if len(n.args) == 1 and not n.keywords else None
            ok = isinstance(a, ast.Name)
            if ok:
                nm = a.id
                params = {x.arg for x in f.args.args}
                binds = []
                for s in ast.walk(f):
                    if isinstance(s, ast.For) and isinstance(s.target, ast.Name) and s.target.id == nm:
                        binds.append(isinstance(s.iter, ast.Call) and isinstance(s.iter.func, ast.Attribute) and s.iter.func.attr == "iter")
                    elif isinstance(s, ast.Assign) and any(isinstance(t, ast.Name) and t.id == nm for t in s.targets):
                        binds.append(isinstance(s.value, ast.Call) and isinstance(s.value.func, ast.Attribute) and s.value.func.attr == "find")
                ok = (nm in params and not binds) or (bool(binds) and all(binds))
            if not ok:
                ok_all = False
                why.append(f"{q}:{n.lineno}")
        P(f"{short}::call-sites/call-site#argument-is-Element-or-None", ok_all, f"{len(sites)} sites; unrecognised={why}")
        if sites:
            fns.append({"function": f"{rel}::(call sites of omml_to_latex)", "lines": [min(n.lineno for _, _, n in sites), max(n.lineno for _, _, n in sites)],
                        "file_sha256": cm.sha256, "segment_sha256": "", "obligations": 1})
    # consumer of the pptx formula list: the real loop body is executed symbolically for one arbitrary pair
    # (contracts/C19_sites.py::consumer_obligation); an unrecognised shape is decided by the native end-to-end run
    try:
        from contracts import C19_sites
        ok, why = C19_sites.consumer_obligation(repo)
    except Exception as e:  # noqa
        ok, why = None, f"{type(e).__name__}: {e}"
    P("pptx_extractor.py::_process_slide_from_context/call-site#every-listed-formula-becomes-PptxFormula-and-text", bool(ok), why)
    return {"obligations": obls, "functions": fns, "undecided": und}


def bounded_native(repo, tier):
    """BOUNDED stand-in (never counted as proved): the executable contract -- totality, determinism,
    balance, run order/once, documented forms -- on the real function over the small scope of
    replay/C19.py.  Only a *failing input* becomes an obligation (refuted, replayable)."""
    import json
    import os
    import subprocess
    root = os.path.dirname(os.path.dirname(os.path.abspath(__file__)))
    oid = "C19/omml_to_latex.py::omml_to_latex/bounded#small-scope-executable-contract"
    try:
        p = subprocess.run(["/venv/bin/python", os.path.join(root, "replay", "run.py")],
                           input=json.dumps({"property": "C19", "obligation": oid, "repo": repo}),
                           capture_output=True, text=True, timeout=900, cwd=root, env=dict(os.environ, VERIF_REPO=repo))
        lines = [l for l in p.stdout.splitlines() if l.startswith("{")]
        res = json.loads(lines[-1]) if lines else {"reproduced": False, "note": "no output: " + (p.stderr or "")[-300:]}
    except Exception as e:  # noqa
        res = {"reproduced": False, "note": f"native small-scope run failed: {e}"}
    if res.get("reproduced"):
        return {"obligations": [{"id": oid, "kind": "bounded", "status": "refuted", "vcs": 1, "seconds": 0.0,
                                 "backends": {"native-small-scope": 1}, "witness": None,
                                 "reason": f"{res.get('check')}: expected {res.get('expected')!r} observed {res.get('observed')!r} "
                                           f"on {(res.get('inputs') or {}).get('xml')}", "loc": "replay/C19.py"}]}
    if "satisfy" not in (res.get("note") or ""):
        return {"undecided": [{"obligation": oid, "why": "bounded native run did not complete: " + str(res.get("note"))[:200]}]}
    return {}


EXTRA = [tables, bounded_native]

TRUSTED = ["abstract ElementTree model (find/findall/get/text/tag/iteration total; finite acyclic tree)",
           "counting homomorphisms LB/RB/NW: concat, literal, strip, slice-split and join axiom instances"]
ASSUMED_MODELS = [
    "xml.etree.ElementTree.Element.find(path) for paths 'T', 'T1/T2', './/T': Element|None, never raises",
    "Element.findall('T'): the T children in order; Element.get(key[, default]): str|default; .text: str|None; .tag: str",
    "iteration over an Element = its children in order; TREE-FINITE (subtree size decreases)",
    "Element.itertext(): a finite sequence of str (brace-free in a brace-free tree), never raises",
    "str.split(sep): at least one part; str.strip(): removes only whitespace; str.index(sub): lowest occurrence or ValueError",
    "sep.join(list of str): counts add up (+ (n-1) * count(sep)); ''.join(xs) = the concatenation of the items in list order; "
    "sep.join(xs) is a function of sep and the item sequence (named SJOIN, never unfolded)",
]
# round 7: "convert_greek_and_symbols is a function of its argument (CONV) at call sites" is no longer assumed: CONV is the
# DEFINED char-wise map and `ensures#is-the-charwise-map-of-its-argument` proves result == CONV(text) on the real body; the
# call-site view (result_maker = CONV(text)) is exactly that clause.
ASSUMPTIONS = ["PY-STR", "PY-EXC", "PY-REC (modular recursion; decreases on subtree size)", "TREE-FINITE",
               "PY-ORDER", "'balanced' = equal numbers of '{' and '}' (DESIGN App. B)"]
BOUNDED = ["replay grammar (round 4): every structure nested in every operand slot / matrix cell of every structure, m:subHide / "
           "m:supHide / m:degHide in every ST_OnOff spelling (an operand hidden by a property that is switched ON may be rendered or "
           "left out; switched off or absent it must be rendered), containers outside the vocabulary, foreign wrappers, repeated "
           "equations in one container",
           "replay grammar (round 5): every structure with its property element and every schema child of it, m:val absent and with "
           "sample values (a bar placed below the base, m:barPr/m:pos = bot, may be rendered as an underline or as the documented overline)",
           "replay grammar (round 6): every structure nested in its own operand slot, and all structures in rotation, 8 / 16 / 32 / 64 "
           "levels deep (level-dependent behaviour: recursion guards, budgets); deeper nesting is not searched",
           "order of the formula lists built at the docx / pptx call sites (display equations first, document order): "
           "native comparison on the container scope of replay/C19.py::site_scope, not proved",
           "run texts emitted exactly once and in source order FOR A WHOLE TREE: checked natively by replay/C19.py on all schema-shaped "
           "trees up to depth 2 / width 2 (small scope). Round 7 proves the per-node steps on the real bodies (convert_greek_and_symbols "
           "== the char-wise map; m:t == that map of its text; every structure == its documented form of the worker results on its "
           "operands; m:d / m:m operands, rows and cells each once in document order; every other element and the root == the results "
           "on its children each once in document order); the structural induction that composes them over the tree is NOT mechanised",
           "determinism beyond the syntactic policy obligations: double-run comparison in replay/C19.py (small scope)"]

LOCK_OPTIONAL_KINDS = ("inv-init", "inv-preserve", "decreases", "call-pre")   # exist only while the code has the construct


def post_report(c, rep):
    """Every VC of this pack speaks about abstractions (uninterpreted counts, summarised lists, havocked loop states,
    contracts standing for calls): a solver model of one is a *candidate*, not a counterexample.  It becomes `unknown`;
    the native replayer (small-scope search on the real code) then either produces a failing input (VIOLATION) or
    leaves it UNDECIDED.  Ground table obligations (EXTRA) are definite and are not touched."""
    if not STATE_MODEL and c.target in (PE, f"{OMML}::omml_to_latex") and rep.error != "contract-target-missing":
        # the contract of the nested worker speaks about ONE enclosing variable rebound with `nonlocal`; the source keeps the
        # pending-radical state some other way, so the contract does not line up with the code: nothing is claimed symbolically
        rep.out_of_subset = rep.out_of_subset or "state of the nested worker is not a single `nonlocal` variable (contract shape not recognised)"
    if c.target == PE and rep.error == "contract-target-missing" and _converter_present():
        # the converter is there but its recursive worker is not a function nested in it (a method of a helper class, a module
        # level function ...): the contract of the nested worker has nothing to line up with -- same treatment, nothing is
        # claimed symbolically, the executable contract is run natively on the real converter
        rep.error = None
        rep.out_of_subset = "the recursive worker is not a function nested in omml_to_latex (contract shape not recognised)"
    if rep.out_of_subset or (rep.error and rep.error != "contract-target-missing"):
        _native_standin(c, rep)
    for o in rep.obligations:
        if o.get("status") == "refuted":
            o["status"] = "unknown"
            o["reason"] = ("candidate counter-model over the pack's abstractions; " + (o.get("reason") or ""))[:300]


def _converter_present():
    try:
        return loader.module(OMML).functions.get("omml_to_latex") is not None
    except Exception:  # noqa
        return False


def _native_standin(c, rep):
    """The changed function left the subset the executor models (or broke a pack model).  Nothing is proved about it in
    this run; instead the executable contract is run natively on the real code over the replayer's small scope.
    A failing input -> `unknown` (the check replays it and reports the VIOLATION); none -> ONE obligation with status
    `bounded-ok`: a BOUNDED stand-in (DESIGN 2.8), listed as such, never counted as discharged."""
    import json
    import os
    import subprocess
    root = os.path.dirname(os.path.dirname(os.path.abspath(__file__)))
    rel, qual = c.target.split("::")
    short = rel.split("/")[-1]
    oid = f"C19/{short}::{getattr(c, 'oid_name', None) or qual}/out-of-subset"
    why = ("OUT-OF-SUBSET " + rep.out_of_subset) if rep.out_of_subset else ("PACK-MODEL-ERROR " + str(rep.error))
    repo = loader.REPO
    try:
        p_ = subprocess.run(["/venv/bin/python", os.path.join(root, "replay", "run.py")],
                            input=json.dumps({"property": "C19", "obligation": oid, "repo": repo, "function": c.target}),
                            capture_output=True, text=True, timeout=900, cwd=root, env=dict(os.environ, VERIF_REPO=repo))
        lines = [l for l in p_.stdout.splitlines() if l.startswith("{")]
        res = json.loads(lines[-1]) if lines else {"reproduced": False, "note": "no output"}
    except Exception as e:  # noqa
        res = {"reproduced": False, "note": f"native run failed: {e}"}
    ob = {"id": oid, "kind": "out-of-subset", "vcs": 1, "seconds": 0.0, "backends": {"native-small-scope": 1}, "witness": None,
          "loc": rel, "volatile": True}
    if res.get("reproduced"):
        ob.update(status="unknown", reason=(why + "; a failing input exists natively")[:300])
    elif "satisf" in (res.get("note") or "") or "every formula" in (res.get("note") or ""):
        ob.update(status="bounded-ok", bounded=True, bound="small scope of replay/C19.py (see BOUNDED)",
                  reason=(why + "; not re-verified: " + (res.get("note") or ""))[:400])
    else:
        return                      # native run did not complete: stays out-of-subset (UNDECIDED)
    rep.out_of_subset = None
    rep.error = None
    rep.obligations = [ob]
    try:
        rep.info = loader.module(rel).fn_info(qual)
    except Exception:  # noqa
        rep.info = {"function": c.target}


REPLAY_UNKNOWN = True    # undecided / out-of-subset items are searched natively (replay) before being reported UNDECIDED


from contracts import C19_sites as _sites  # noqa: E402  (needs the names above)

EXECUTOR = _sites.SiteExecutor
