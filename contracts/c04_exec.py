"""Pack-local executor for C04 (every result honours the common interface).

Extends the C03 executor (abstract dataclass instances, symbolic-length lists) by

* field kinds `bytes`, `io.BytesIO`, `float`, `Dict[...]` and **nested lists**
  (`list[list[Any]]`: a symbolic sequence of symbolic-length rows);
* **io.BytesIO as an abstract object**: content `bio_content(b) : Bytes` (never
  written by the accessors), read position as ghost state (contracts/common.py);
  `io.BytesIO(x)` allocates a fresh object with content x at position 0;
* `max(<generator over a symbolic sequence>, default=d)` as the recursively
  defined spec function `seq_max`;
* `ImageMetadata(...)` / `TableDim(...)`: @dataclass constructors (the dict mirror kept by
  ImageMetadata.__setattr__/__post_init__ is assumption IMD-MIRROR, validated natively).
"""
from __future__ import annotations

import ast

import z3

from pyvc import ops
from pyvc.ops import Unsupported
from pyvc.state import HeapObj
from pyvc.symex import Outcome
from pyvc.values import NONE, VBool, VExt, VFunc, VInt, VNoneT, VReal, VRef, VSeq, VStr, VTuple, VUnk, ext_sort, fresh_name

from contracts import c03_exec as X
from contracts import common
from contracts.c03_exec import DT, I, S, B, K, fld, fld_at, fld_len, fun

BYTES = ext_sort("Bytes")
BIO = ext_sort("BytesIO")
BLEN = fun("bytes_len", BYTES, I)                 # len(b)
CONTENT = fun("bio_content", BIO, BYTES)          # the buffer of a BytesIO (the accessors never write)
EMPTY = z3.Const("bytes_empty", BYTES)            # b""
AI = z3.ArraySort(I, I)

SEQMAX = fun("seq_max", AI, I, I, I)              # max(a[0..n-1], default=d): uninterpreted in proofs (z3 ignored its timeout on the
                                                  # RecFunction form), written out for lengths 0..3 by the bounded refuter below


OVER = z3.Bool("pyvc!overapprox")     # marker assumed on every over-approximated path (loop cut without invariant, EXC-ANY):
                                      # a `sat` answer on such a path is not a counter-model -> the obligation is UNDECIDED


def _mentions_over(exprs):
    return any(z3.eq(x, OVER) for x in exprs)


UNRECOGNISED = z3.Not(OVER)     # goal of an obligation whose subject has a shape the contract does not recognise: it is not
                                # provable and its `sat` is not a counter-model -> `unknown`, decided by the native replayer


def _goal_unrecognised(goal):
    return z3.eq(goal, UNRECOGNISED)


def _mentions_seqmax(exprs):
    seen, stack = set(), list(exprs)
    while stack:
        x = stack.pop()
        i = x.get_id()
        if i in seen:
            continue
        seen.add(i)
        if z3.is_quantifier(x):
            stack.append(x.body())
            continue
        if z3.is_app(x):
            if x.decl().name() == "seq_max":
                return True
            stack.extend(x.children())
    return False


def _collect(exprs, name):
    seen, out, stack = set(), [], list(exprs)
    while stack:
        x = stack.pop()
        i = x.get_id()
        if i in seen:
            continue
        seen.add(i)
        if z3.is_quantifier(x):
            stack.append(x.body())
            continue
        if z3.is_app(x):
            if x.decl().name() == name:
                out.append(x)
            stack.extend(x.children())
    return out


SEQMAX_BOUND = 3


def seqmax_refuter(pc, goal, timeout_ms=None):
    """DESIGN 2.5.3a: a VC about seq_max that is not proved is re-checked with every sequence length bounded by
    SEQMAX_BOUND and seq_max written out as the real maximum; `sat` there is a counter-model of the real semantics."""
    fs = list(pc) + [z3.Not(goal)]
    if _mentions_over(pc):
        return None
    apps = _collect(fs, "seq_max")
    if not apps:
        return None
    subs, bounds = [], []
    for a in apps:
        arr, n, d = a.arg(0), a.arg(1), a.arg(2)
        acc = None
        exp = d
        cases = []
        for k in range(1, SEQMAX_BOUND + 1):
            e = z3.Select(arr, z3.IntVal(k - 1))
            acc = e if acc is None else z3.If(e > acc, e, acc)
            cases.append((k, acc))
        for k, m in reversed(cases):
            exp = m if k == SEQMAX_BOUND else z3.If(n == k, m, exp)
        exp = z3.If(n <= 0, d, exp)
        subs.append((a, exp))
        bounds.append(n <= SEQMAX_BOUND)
    s = z3.Solver()
    s.set("timeout", min(timeout_ms or 5000, 5000))
    for f in fs:
        s.add(z3.simplify(z3.substitute(f, *subs)))
    s.add(*bounds)
    if s.check() == z3.sat:
        m = s.model()
        lens = sorted({str(m.eval(a.arg(1), model_completion=True)) for a in apps})
        return f"falsified by bounded instantiation: sequence lengths {','.join(lens)} (<= {SEQMAX_BOUND}), max written out"
    return None


def register_refuter():
    from pyvc import solve
    if seqmax_refuter not in solve.EXTRA_REFUTERS:
        solve.EXTRA_REFUTERS.append(seqmax_refuter)
        solve.SAT_UNTRUSTED.append(lambda pc, goal: _mentions_over(pc) or _goal_unrecognised(goal) or _mentions_seqmax(list(pc) + [goal]))


STR_GROUP = {}      # id of a str term that is the text of a regex group -> group facts (contracts/c04_regex.py)
FLOAT_FACTS = {}    # id of a Float term -> {"nan": bool}


def _occurs(term, var):
    seen, stack = set(), [term]
    while stack:
        x = stack.pop()
        if x.get_id() in seen:
            continue
        seen.add(x.get_id())
        if z3.eq(x, var):
            return True
        if z3.is_quantifier(x):
            stack.append(x.body())
        elif z3.is_app(x):
            stack.extend(x.children())
    return False


def _int_subterms_without(term, avoid, need):
    """Maximal integer subterms of `term` that mention `need` but not `avoid` (candidates for the folded element function)."""
    out, seen = [], set()

    def walk(x):
        if x.get_id() in seen:
            return
        seen.add(x.get_id())
        if z3.is_int(x) and not _occurs(x, avoid):
            if _occurs(x, need) and all(not z3.eq(x, y) for y in out):
                out.append(x)
            return
        if z3.is_app(x):
            for ch in x.children():
                walk(ch)
    walk(term)
    return out


def clamp(t):
    return z3.If(t < 0, 0, t)


def vbytes(t):
    return VExt("Bytes", t)


def kind_of(ann, classes):
    """Field kind from the real annotation; extends the C03 table by bytes / BytesIO / float / dict / Any."""
    if ann is None:
        return "unk"
    if isinstance(ann, ast.Constant) and isinstance(ann.value, str):
        try:
            return kind_of(ast.parse(ann.value, mode="eval").body, classes)
        except SyntaxError:
            return "unk"
    if isinstance(ann, ast.Name):
        if ann.id in ("str", "int", "bool", "bytes", "float"):
            return ann.id
        if ann.id in classes:
            return ("obj", ann.id)
        return "unk"
    if isinstance(ann, ast.Attribute):
        u = ast.unparse(ann)
        if u == "io.BytesIO":
            return "bytesio"
        return "unk"
    if isinstance(ann, ast.Subscript):
        head = ast.unparse(ann.value).split(".")[-1]
        if head in ("List", "list"):
            return ("list", kind_of(ann.slice, classes))
        if head == "Optional":
            return ("opt", kind_of(ann.slice, classes))
        if head in ("Dict", "dict"):
            return "dict"
        return "unk"
    if isinstance(ann, ast.BinOp) and isinstance(ann.op, ast.BitOr):
        l, r = ann.left, ann.right
        if isinstance(r, ast.Constant) and r.value is None:
            return ("opt", kind_of(l, classes))
        if isinstance(l, ast.Constant) and l.value is None:
            return ("opt", kind_of(r, classes))
        return "unk"
    return "unk"


def class_schema(mod, cls):
    cache = getattr(mod, "_c04_schema", None)
    if cache is None:
        cache = mod._c04_schema = {}
    if cls in cache:
        return cache[cls]
    node = mod.classes.get(cls)
    if node is None or not any("dataclass" in ast.unparse(d) for d in node.decorator_list):
        cache[cls] = None
        return None
    out = {}
    for b in node.bases:
        bn = ast.unparse(b).split(".")[-1]
        if bn in mod.classes and bn != cls:
            out.update(class_schema(mod, bn) or {})
    for b in node.body:
        if isinstance(b, ast.AnnAssign) and isinstance(b.target, ast.Name):
            if "ClassVar" in ast.unparse(b.annotation):
                continue
            out[b.target.id] = kind_of(b.annotation, mod.classes)
    cache[cls] = out
    return out


def class_consts(mod, cls):
    """ClassVar literal tables of a class: {name: python value}."""
    node = mod.classes.get(cls)
    out = {}
    if node is None:
        return out
    for b in node.body:
        if isinstance(b, ast.AnnAssign) and isinstance(b.target, ast.Name) and "ClassVar" in ast.unparse(b.annotation) and b.value is not None:
            try:
                out[b.target.id] = ast.literal_eval(b.value)
            except (ValueError, SyntaxError):
                pass
    return out


def sort_of_kind(kind):
    if kind == "bytes":
        return BYTES
    if kind == "bytesio":
        return BIO
    if kind == "float":
        return z3.RealSort()
    if kind == "dict":
        return ext_sort("PyDict")
    return X._sort_of_kind(kind)


def val_of(kind, t):
    if kind == "bytes":
        return VExt("Bytes", t)
    if kind == "bytesio":
        return VExt("BytesIO", t)
    if kind == "float":
        return VReal(t)
    if kind == "dict":
        return VExt("PyDict", t)
    return X._val(kind, t)


def rows_field(cls, f, inner, e):
    """list[list[...]] field: symbolic sequence of rows with symbolic lengths."""
    n = fld_len(cls, f)(e)
    rl = fun(f"{cls}.{f}.rowlen", ext_sort(cls), I, I)
    isort = sort_of_kind(inner)

    def row(k):
        if isort is None:
            return VSeq(clamp(rl(e, k)), lambda j: VUnk(f"{cls}.{f}[][]"), "unk", tag=("row", cls, f))
        cell = fun(f"{cls}.{f}.cell", ext_sort(cls), I, I, isort)
        return VSeq(clamp(rl(e, k)), lambda j, k=k: val_of(inner, cell(e, k, j)), inner, tag=("row", cls, f))
    return VSeq(n, row, "row", tag=("field", cls, f))


class IfaceExecutor(X.UnitsExecutor):
    """abstract=True by default is NOT used: anything outside the subset makes the function undecided."""

    def schema(self, cls):
        m = self.class_module(cls)
        return class_schema(m, cls) if m is not None else None

    def apply_contract(self, st, c, args, kwargs, node):
        outs = getattr(c, "call_outcomes", None)
        if outs is None:
            return super().apply_contract(st, c, args, kwargs, node)
        saved = c.returns
        c.returns = outs           # at call sites only: the possible result shapes [(cond, V)]
        try:
            return super().apply_contract(st, c, args, kwargs, node)
        finally:
            c.returns = saved

    # ------------------------------------------------ over-approximations --
    def exc_any(self, st, site, also=()):
        st.assume(OVER)
        return super().exc_any(st, site, also)

    def havoc_call(self, st, what, args, node):
        r = super().havoc_call(st, what, args, node)
        st.assume(OVER)
        return r

    def symbolic_for(self, s, st, it):
        spec = self.loop_spec(s)
        if spec is None or spec.inv is None:
            try:
                r = self.fold_summary(s, st, it)
            except (Unsupported, z3.Z3Exception):
                r = None
            if r is not None:
                return r
            st.assume(OVER)
        return super().symbolic_for(s, st, it)

    def fold_summary(self, s, st, it):
        """Exact summary of an accumulator loop over a symbolic sequence (no contract needed, any body shape):
        the body is executed once for an arbitrary index i with every integer accumulator replaced by a fresh symbol A; if the
        body has no other effect (no exception, no heap write, no break / return / yield) and z3 proves that one step is
        `A' = max(A, g(i))` with g independent of A and g(i) >= the initial value, the loop computes
        seq_max(k |-> g(k), n, initial) (FOLD-MAX: induction on n, part of the trusted reasoning); `A' = A + 1` gives initial + n.
        Returns the post-loop outcomes, or None when the loop is not of that kind (then it is cut and marked over-approximated)."""
        view = self.seq_view(st, it)
        if view is None or s.orelse or self._has_yield(s.body):
            return None
        n, elem = view
        tnames = {x.id for x in ast.walk(s.target) if isinstance(x, ast.Name)}
        names = sorted(self.assigned_names(s.body) - tnames)
        accs, temps = {}, []
        body = st.fork()
        i = z3.Int(fresh_name("i"))
        body.assume(z3.And(i >= 0, i < n))
        for name in names:
            cur = st.lookup(name)
            if cur is None:
                temps.append(name)
            elif isinstance(cur, VInt) and not cur.is_bv:
                a = z3.Int(fresh_name(f"acc_{name}"))
                accs[name] = (a, ops.int_term(cur))
                body.bind(name, VInt(a))
            else:
                return None
        if not accs:
            return None
        base_len = len(body.pc)
        heap0 = dict(body.heap)
        self.sinks.append([])
        try:
            outs = []
            for s3 in self.assign(s.target, elem(i), body):
                outs.extend(self.exec_block(s.body, s3))
        finally:
            sink = self.sinks.pop()
        if sink or not outs or any(o.kind not in ("fall", "continue") for o in outs):
            return None
        for o in outs:
            if any(o.st.heap.get(r) is not h for r, h in heap0.items()) or len(o.st.yielded) != len(body.yielded):
                return None
        post = {}
        for name, (a, init) in accs.items():
            f = None
            for o in reversed(outs):
                v = o.st.lookup(name)
                if not isinstance(v, VInt) or v.is_bv:
                    return None
                c = z3.And(o.st.pc[base_len:] + [z3.BoolVal(True)])
                f = ops.int_term(v) if f is None else z3.If(c, ops.int_term(v), f)
            others = [x for nm, (x, _i) in accs.items() if nm != name]
            if any(_occurs(f, x) for x in others):
                return None
            summary = None
            # count: A' == A + 1
            if self._valid(body.pc[:base_len], f == a + 1):
                summary = init + n
            else:
                cands = _int_subterms_without(f, a, i)
                for g in cands[:12]:
                    if self._valid(body.pc[:base_len], z3.And(f == z3.If(g > a, g, a), g >= init)):
                        lam = z3.Lambda([K], z3.substitute(g, (i, K)))
                        summary = SEQMAX(lam, n, init)
                        break
            if summary is None:
                if self._valid(body.pc[:base_len], f == a):
                    summary = init
                else:
                    return None
            post[name] = summary
        after = st
        after.assume(n >= 0)
        for name, t in post.items():
            after.bind(name, VInt(t))
        for name in temps:
            after.bind(name, VUnk(f"loop-temp:{name}"))
        for name in tnames:
            after.bind(name, VUnk(f"loop-target:{name}"))
        return [Outcome("fall", after)]

    def _valid(self, pc, goal):
        sol = z3.Solver()
        sol.set("timeout", 3000)
        sol.add(*pc)
        sol.add(z3.Not(goal))
        return sol.check() == z3.unsat

    def s_While(self, s, st):
        spec = self.loop_spec(s)
        if spec is None or (spec.inv is None and spec.unroll is None):
            st.assume(OVER)
        return super().s_While(s, st)

    # --------------------------------------------------------------- fields --
    def field_values(self, st, obj: VExt, f, kind):
        cls, e = obj.sort, obj.t
        if kind in ("bytes", "bytesio", "float", "dict"):
            v = val_of(kind, fld(cls, f, sort_of_kind(kind))(e))
            if kind == "bytes":
                st.assume(BLEN(v.t) >= 0)
            if kind == "bytesio":
                st.assume(BLEN(CONTENT(v.t)) >= 0)
            return [(st, v)]
        if isinstance(kind, tuple) and kind[0] == "list" and isinstance(kind[1], tuple) and kind[1][0] == "list":
            sq = rows_field(cls, f, kind[1][1], e)
            st.assume(sq.length >= 0)
            return [(st, sq)]
        if isinstance(kind, tuple) and kind[0] == "list" and kind[1] in ("dict", "bytes", "float"):
            n = fld_len(cls, f)(e)
            at = fld_at(cls, f, sort_of_kind(kind[1]))
            st.assume(n >= 0)
            return [(st, VSeq(n, lambda k: val_of(kind[1], at(e, k)), kind[1], tag=("field", cls, f)))]
        if isinstance(kind, tuple) and kind[0] == "opt":
            isnone = fld(cls, f + ".is_none", B)(e)
            out = []
            if self.feasible(st.pc, isnone):
                out.append((st.fork().assume(isnone), NONE))
            if self.feasible(st.pc, z3.Not(isnone)):
                s2 = st.assume(z3.Not(isnone))
                out.extend(self.field_values(s2, obj, f, kind[1]))
            return out
        return super().field_values(st, obj, f, kind)

    def get_attr(self, st, base, attr, node):
        if isinstance(base, VExt) and self.schema(base.sort) is not None:
            sch = self.schema(base.sort)
            if attr not in sch:
                consts = class_consts(self.class_module(base.sort), base.sort)
                if attr in consts:
                    return [(st, self.lift_const(consts[attr], f"{base.sort}.{attr}"))]
        return super().get_attr(st, base, attr, node)

    # ------------------------------------------------ displays and calls --
    def e_List(self, n, st):
        """[*xs] / [a, *xs, b] with a symbolic sequence: concatenation of the parts."""
        if any(isinstance(e, ast.Starred) for e in n.elts):
            out = []
            for (s, parts) in self._ev_parts(n.elts, st):
                acc = None
                for kind, v in parts:
                    view = (z3.IntVal(1), (lambda k, v=v: v)) if kind == "one" else self._list_view(s, v)
                    if view is None:
                        raise Unsupported(f"{self.loc(n)} starred of {v!r}")
                    if acc is None:
                        acc = view
                    else:
                        (na, ea), (nb, eb) = acc, view
                        acc = (z3.simplify(na + nb), (lambda k, na=na, ea=ea, eb=eb: X._ite_val(k < na, ea(k), eb(k - na))))
                if acc is None:
                    out.append((s, self.new_list(s, [])))
                else:
                    out.append((s, self.new_alist(s, VSeq(acc[0], acc[1], "unk"))))
            return out
        return super().e_List(n, st)

    def _ev_parts(self, nodes, st):
        acc = [(st, [])]
        for n in nodes:
            nxt = []
            for (s, parts) in acc:
                if isinstance(n, ast.Starred):
                    for (s2, v) in self.ev(n.value, s):
                        nxt.append((s2, parts + [("many", v)]))
                else:
                    for (s2, v) in self.ev(n, s):
                        nxt.append((s2, parts + [("one", v)]))
            acc = nxt
        return acc

    def e_Call(self, n, st):
        """f(..., **d) where d is a dict display / dict(...) with constant keys: rewritten to explicit keywords."""
        if any(k.arg is None for k in n.keywords) and not self.is_logger_call(n):
            kws = []
            for k in n.keywords:
                if k.arg is not None:
                    kws.append(k)
                    continue
                lit = k.value
                if isinstance(lit, ast.Name):
                    fnode = self.cur_fn_stack[-1] if self.cur_fn_stack else None
                    binds = [x for x in ast.walk(fnode) if isinstance(x, ast.Assign) and len(x.targets) == 1 and isinstance(x.targets[0], ast.Name)
                             and x.targets[0].id == lit.id] if fnode is not None else []
                    touched = [x for x in ast.walk(fnode) if (isinstance(x, ast.Subscript) and isinstance(x.value, ast.Name) and x.value.id == lit.id
                                                               and isinstance(x.ctx, (ast.Store, ast.Del)))
                               or (isinstance(x, ast.Call) and isinstance(x.func, ast.Attribute) and isinstance(x.func.value, ast.Name) and x.func.value.id == lit.id
                                   and x.func.attr in ("update", "setdefault", "pop", "clear", "popitem"))] if fnode is not None else [1]
                    lit = binds[0].value if len(binds) == 1 and not touched else None
                if isinstance(lit, ast.Dict) and all(isinstance(x, ast.Constant) and isinstance(x.value, str) for x in lit.keys):
                    kws.extend(ast.keyword(arg=x.value, value=v) for x, v in zip(lit.keys, lit.values))
                elif isinstance(lit, ast.Call) and isinstance(lit.func, ast.Name) and lit.func.id == "dict" and not lit.args and all(x.arg for x in lit.keywords):
                    kws.extend(lit.keywords)
                else:
                    raise Unsupported(f"{self.loc(n)} **kwargs call")
            n2 = ast.Call(func=n.func, args=n.args, keywords=kws)
            ast.copy_location(n2, n)
            return super().e_Call(n2, st)
        return super().e_Call(n, st)

    def b_map(self, st, args, kwargs, node):
        """map(len, xs) over a symbolic sequence of rows."""
        if len(args) == 2 and isinstance(args[0], VFunc) and args[0].how == "builtin" and args[0].a == "len":
            view = self._list_view(st, args[1])
            if view is not None and self.concrete_items(st, args[1]) is None:
                n_, el = view
                sample = el(K)
                if isinstance(sample, VSeq) or (isinstance(sample, VExt) and sample.sort == "Bytes") or isinstance(sample, VStr):
                    def ln(k, el=el):
                        v = el(k)
                        return VInt(v.length) if isinstance(v, VSeq) else (VInt(BLEN(v.t)) if isinstance(v, VExt) else VInt(z3.Length(v.t)))
                    return [(st, VSeq(n_, ln, "int"))]
        return self.havoc_call(st, "map", args, node)

    # ---------------------------------------------------------------- bytes --
    def truth(self, st, v):
        if isinstance(v, VExt) and v.sort == "Bytes":
            return VBool(BLEN(v.t) > 0)
        if isinstance(v, VExt) and v.sort == "PyDict":
            return VBool(fun("dict_len", ext_sort("PyDict"), I)(v.t) > 0)
        return super().truth(st, v)

    def b_len(self, st, args, kwargs, node):
        v = args[0]
        if isinstance(v, VExt) and v.sort == "Bytes":
            return [(st, VInt(BLEN(v.t)))]
        return super().b_len(st, args, kwargs, node)

    def e_Constant(self, n, st):
        if isinstance(n.value, bytes) and n.value == b"":
            return [(st, vbytes(EMPTY))]
        return super().e_Constant(n, st)

    def compare(self, st, op, a, b, node):
        if op in ("Is", "IsNot") and isinstance(a, VExt) and b is NONE:
            return [(st, VBool(op == "IsNot"))]
        if op in ("Is", "IsNot") and isinstance(a, (VStr, VInt, VBool, VReal, VSeq)) and b is NONE:
            return [(st, VBool(op == "IsNot"))]
        return super().compare(st, op, a, b, node)

    # ------------------------------------------------------------------ max --
    def _minmax(self, st, args, kwargs, node, is_min):
        if len(args) == 1 and not is_min:
            v = args[0]
            if isinstance(v, VRef) and st.obj(v.ref).kind == "alist":
                v = st.obj(v.ref).data
            if isinstance(v, VSeq) and self.concrete_items(st, v) is None:
                sample = v.elem(K)
                if isinstance(sample, VSeq):
                    return self._max_of_rows(st, v, kwargs, node)
                if not isinstance(sample, VInt):
                    raise Unsupported(f"{self.loc(node)} max over a symbolic sequence of non-integers")
                lam = z3.Lambda([K], ops.int_term(sample))
                if "default" in kwargs:
                    d = kwargs["default"]
                    if not isinstance(d, VInt):
                        raise Unsupported(f"{self.loc(node)} max default is not an int")
                    return [(st, VInt(SEQMAX(lam, v.length, ops.int_term(d))))]
                s2 = self.fork_raise(st, v.length <= 0, "ValueError")
                if s2 is None:
                    return []
                return [(s2, VInt(SEQMAX(lam, v.length, z3.IntVal(0))))]
        return super()._minmax(st, args, kwargs, node, is_min)

    def _max_of_rows(self, st, v, kwargs, node):
        """max(<symbolic sequence of rows>[, key=len][, default=d]): the result is ONE OF the rows (row k for a fresh k).
        key=len: exactly a longest row (len == seq_max of the lengths).  Without a key Python compares rows lexicographically:
        WHICH row wins is not modelled -> the path is over-approximated (marker OVER: a `sat` there is confirmed natively first)."""
        key = kwargs.get("key")
        if set(kwargs) - {"key", "default"} or (key is not None and not (isinstance(key, VFunc) and key.how == "builtin" and key.a == "len")):
            raise Unsupported(f"{self.loc(node)} max over rows with key={key!r}")
        out = []
        s0 = st.fork().assume(v.length <= 0)
        if "default" in kwargs:
            out.append((s0, kwargs["default"]))
        else:
            self.raise_in(s0, self.mk_exc("ValueError"))
        s1 = st.fork().assume(v.length > 0)
        k = z3.Int(fresh_name("argmax"))
        s1.assume(z3.And(k >= 0, k < v.length))
        row = v.elem(k)
        if key is not None:
            lam = z3.Lambda([K], v.elem(K).length)
            s1.assume(row.length == SEQMAX(lam, v.length, z3.IntVal(0)))
        else:
            s1.assume(OVER)
        out.append((s1, row))
        return out

    # ---------------------------------------------------------------- floats --
    # float values that come from text are abstract (`Float`): +-inf and nan are possible, so round()/int() may raise
    # OverflowError / ValueError (ASSUMED contract of the builtins: nothing else).  Whether a raising path is feasible is
    # not decided by the model (marker OVER): only a natively reproduced input makes it a violation.
    def b_round(self, st, args, kwargs, node):
        v = args[0]
        if isinstance(v, VExt) and v.sort == "Float" and len(args) == 1:
            no_nan = FLOAT_FACTS.get(v.t.get_id(), {}).get("nan") is False
            for cls in ("OverflowError",) if no_nan else ("OverflowError", "ValueError"):
                s2 = st.fork().assume(OVER)
                self.raise_in(s2, self.mk_exc(cls, site=f"round() of a non-finite float at {self.loc(node)}"))
            return [(st, VInt(z3.Int(fresh_name("round"))))]
        if isinstance(v, VInt):
            return [(st, v)]
        return self.havoc_call(st, "round", args, node)

    def b_int(self, st, args, kwargs, node):
        if len(args) == 1 and isinstance(args[0], VExt) and args[0].sort == "Float":
            for cls in ("OverflowError", "ValueError"):
                s2 = st.fork().assume(OVER)
                self.raise_in(s2, self.mk_exc(cls, site=f"int() of a non-finite float at {self.loc(node)}"))
            return [(st, VInt(z3.Int(fresh_name("int_of_float"))))]
        return super().b_int(st, args, kwargs, node)

    def e_Yield(self, n, st):
        # Round 7: generators that yield images / tables (contract attribute `plain_yield`): the yielded values themselves are
        # recorded (ctx.yielded); the C03 observation (unit number, text) only exists for units
        if getattr(self.contract, "plain_yield", False) and n.value is not None:
            out = []
            chk = getattr(self.contract, "yield_check", None)
            for (s, v) in self.ev(n.value, st):
                s.yielded = s.yielded + [v]
                if chk is not None and self.inline_depth == 0:
                    goal, note = chk(self, s, v)
                    self.add_vc("yields", getattr(self.contract, "yield_label", "element-kind"), s.pc, goal, note=note, loc=self.loc(n))
                out.append((s, NONE))
            return out
        return super().e_Yield(n, st)

    def e_YieldFrom(self, n, st):
        if getattr(self.contract, "plain_yield", False):
            out = []
            for (s, v) in self.ev(n.value, st):
                items = self.concrete_items(s, v)
                chk = getattr(self.contract, "yield_check", None)
                if items is None:
                    # round 8: `yield from xs` over a symbolic-length list (= `for x in xs: yield x`): the yield obligation for an
                    # arbitrary element xs[j], 0 <= j < len(xs), on a fork (the continuing path keeps the empty case)
                    try:
                        view = self.seq_view(s, v) if isinstance(v, (VRef, VSeq)) else None
                    except Unsupported:
                        view = None
                    if view is None:
                        raise Unsupported(f"{self.loc(n)} yield from a symbolic iterable")
                    length, elem = view
                    j = z3.Int(fresh_name("yf"))
                    s2 = s.fork().assume(z3.And(j >= 0, j < length))
                    s.ghost["yield_count_unknown"] = True
                    if chk is not None and self.inline_depth == 0:
                        goal, note = chk(self, s2, elem(j))
                        self.add_vc("yields", getattr(self.contract, "yield_label", "element-kind"), s2.pc, goal, note=note, loc=self.loc(n))
                    out.append((s, NONE))
                    continue
                s.yielded = s.yielded + list(items)
                for v in items:
                    if chk is not None and self.inline_depth == 0:
                        goal, note = chk(self, s, v)
                        self.add_vc("yields", getattr(self.contract, "yield_label", "element-kind"), s.pc, goal, note=note, loc=self.loc(n))
                out.append((s, NONE))
            return out
        return super().e_YieldFrom(n, st)

    def seq_view(self, st, it):
        # iterating a dict value of a well-typed field = iterating its keys (same model as PyDict.keys(), install_pydict)
        if isinstance(it, VExt) and it.sort == "PyDict":
            dlen = fun("dict_len", ext_sort("PyDict"), I)
            key_at = fun("dict_key_at", ext_sort("PyDict"), I, ext_sort("PyKey"))
            st.assume(dlen(it.t) >= 0)
            return dlen(it.t), (lambda k, t=it.t: VExt("PyKey", key_at(t, k)))
        return super().seq_view(st, it)

    # ---------------------------------------------- lists of rows in loops --
    def _is_row_value(self, st, v):
        if isinstance(v, VSeq) and not v.is_bytes:
            return True
        return isinstance(v, VRef) and st.heap.get(v.ref) is not None and st.obj(v.ref).kind in ("alist", "list") and \
            (st.obj(v.ref).kind == "alist" or st.obj(v.ref).data is not None)

    def _row_list_refs(self, st):
        """Heap lists whose every element is itself a list-like value (a table under construction: `rows = [headers]`)."""
        out = set()
        for ref, o in st.heap.items():
            if o.kind == "list" and o.data and all(self._is_row_value(st, x) for x in o.data):
                out.add(ref)
            elif o.kind == "list" and o.data == [] and getattr(self.contract, "row_lists", False) and self.inline_depth == 0:
                out.add(ref)          # the function under contract builds a table: an empty list is a table without rows yet
            elif o.kind == "alist" and o.data.ekind == "row":
                out.add(ref)
        return out

    def havoc_loop_state(self, st, body, spec, extra_names=()):
        """Round 7: a list of rows mutated by the loop is havocked to a fresh sequence of ROWS (symbolic length each), not to a
        sequence of unknown elements, so that a loop invariant can speak about the row lengths (XlsSheet.get_table)."""
        rows_before = self._row_list_refs(st)
        r = super().havoc_loop_state(st, body, spec, extra_names)
        for ref in rows_before:
            o = st.heap.get(ref)
            if o is not None and o.kind == "alist" and o.data.ekind == "unk":
                n = z3.Int(fresh_name("rows.len"))
                rl = z3.Const(fresh_name("rows.rowlen"), AI)
                st.assume(n >= 0)
                sq = VSeq(n, lambda k, rl=rl: VSeq(clamp(z3.Select(rl, k)), lambda j: VUnk("cell"), "unk", tag=("row", "havoc", "")), "row")
                st.heap[ref] = HeapObj("alist", sq, None, o.fresh)
        return r

    def alist_method(self, st, obj, name, args, kwargs, node):
        o = st.obj(obj.ref)
        if name == "append" and o.kind == "alist" and o.data.ekind == "row" and len(args) == 1:
            view = self._list_view(st, args[0])
            if view is not None:
                sq = o.data
                n0, old, ln = sq.length, sq.elem, view[0]

                def row(k, n0=n0, old=old, ln=ln):
                    prev = old(k)
                    pl = prev.length if isinstance(prev, VSeq) else z3.Int(fresh_name("rowlen"))
                    return VSeq(z3.If(k == n0, ln, pl), lambda j: VUnk("cell"), "unk", tag=("row", "append", ""))
                self.note_store(st, obj.ref, node)
                st.heap[obj.ref] = HeapObj("alist", VSeq(z3.simplify(n0 + 1), row, "row"), None, o.fresh)
                return [(st, NONE)]
        return super().alist_method(st, obj, name, args, kwargs, node)

    def _list_view(self, st, v):
        """(length term, elem(k)) of a list-like value (concrete list, abstract list, symbolic sequence), else None."""
        if isinstance(v, VRef):
            o = st.obj(v.ref)
            if o.kind == "alist":
                return o.data.length, o.data.elem
            if o.kind == "list" and o.data is not None:
                items = list(o.data)
                return z3.IntVal(len(items)), (lambda k, items=items: X._sel(items, k))
            return None
        if isinstance(v, VSeq) and not v.is_bytes:
            return v.length, v.elem
        return None

    def comp_value(self, st, v, node):
        """Round 8: a comprehension whose element expression is itself a list display / list comprehension builds one NEW list
        per element (nothing else refers to it): its value is the row as a pure sequence (length + cells), not an opaque
        reference -- `[[r.get(h) for h in headers] for r in records]` is a sequence of rows like the one a loop appends."""
        if isinstance(v, VRef) and isinstance(getattr(node, "elt", None), (ast.List, ast.ListComp)):
            view = self._list_view(st, v)
            if view is not None:
                return VSeq(view[0], view[1], "unk", tag=("row", "comp", ""))
        return super().comp_value(st, v, node)

    def _row_of(self, st, v):
        """a list-like element of a table as a pure row (length known, cells unknown), else None"""
        if isinstance(v, VSeq) and not v.is_bytes:
            return v
        if isinstance(v, VRef) and st.heap.get(v.ref) is not None and st.obj(v.ref).kind in ("alist", "list"):
            view = self._list_view(st, v)
            if view is not None:
                return VSeq(view[0], view[1], "unk", tag=("row", "view", ""))
        return None

    def binop(self, st, op, a, b, node, inplace=False):
        if op == "Add" and not inplace:
            va, vb = self._list_view(st, a), self._list_view(st, b)
            ca, cb = self.concrete_items(st, a), self.concrete_items(st, b)
            if va is not None and vb is not None and not (ca is not None and cb is not None):
                (na, ea), (nb, eb) = va, vb

                def el(k, na=na, ea=ea, eb=eb):
                    x, y = ea(k), eb(k - na)
                    m = X._ite_val(k < na, x, y)
                    if isinstance(m, VUnk):
                        # round 8: `[headers] + [<row> for r in records]`: rows on both sides -> a row whose length is the
                        # selected side's (the result of the concatenation is a new list; cells stay unknown)
                        rx, ry = self._row_of(st, x), self._row_of(st, y)
                        if rx is not None and ry is not None:
                            return VSeq(z3.If(k < na, rx.length, ry.length), lambda j: VUnk("cell"), "unk", tag=("row", "concat", ""))
                    return m
                sample = el(K)
                seq = VSeq(z3.simplify(na + nb), el, "row" if isinstance(sample, VSeq) and sample.tag == ("row", "concat", "") else "unk")
                return [(st, self.new_alist(st, seq))]
        fa = isinstance(a, VExt) and a.sort == "Float"
        fb = isinstance(b, VExt) and b.sort == "Float"
        if fa or fb:
            other = b if fa else a
            if isinstance(other, (VReal, VInt)) or (isinstance(other, VExt) and other.sort == "Float"):
                if op in ("Div", "FloorDiv", "Mod") and not (isinstance(other, VReal) and fa and z3.is_rational_value(other.t) and not z3.is_true(z3.simplify(other.t == 0))):
                    s2 = st.fork().assume(OVER)
                    self.raise_in(s2, self.mk_exc("ZeroDivisionError"))
                if op in ("Add", "Sub", "Mult", "Div"):
                    r = VExt("Float")
                    src = a if fa else b
                    pos_const = isinstance(other, VReal) and z3.is_rational_value(other.t) and z3.is_true(z3.simplify(other.t > 0))
                    if op in ("Mult", "Div") and pos_const and FLOAT_FACTS.get(src.t.get_id(), {}).get("nan") is False:
                        FLOAT_FACTS[r.t.get_id()] = {"nan": False}      # (finite or +inf) * / positive constant: never nan
                    return [(st, r)]
        return super().binop(st, op, a, b, node, inplace)

    # -------------------------------------------------------- constructors --
    def construct(self, st, t, args, kwargs, node):
        if t.name == "float" and len(args) == 1 and isinstance(args[0], VStr):
            r = VExt("Float")
            g = STR_GROUP.get(args[0].t.get_id())
            if g is not None and g.get("cls") in ("decimal", "dec", "udec"):
                FLOAT_FACTS[r.t.get_id()] = {"nan": False}     # float(<decimal numeral>) never raises; finite or +inf
            else:
                s2 = st.fork().assume(OVER)
                self.raise_in(s2, self.mk_exc("ValueError", site=f"float() of a non-numeric string at {self.loc(node)}"))
            return [(st, r)]
        if t.name in ("ImageMetadata", "TableDim") and t.name not in self.module.classes or t.name in ("ImageMetadata", "TableDim"):
            mod = self.class_module(t.name)
            if mod is not None:
                node_cls = mod.classes[t.name]
                fields = [(b.target.id, b.value) for b in node_cls.body if isinstance(b, ast.AnnAssign) and isinstance(b.target, ast.Name)]
                return self.construct_dataclass(st, t.name, fields, args, kwargs, node)
        return super().construct(st, t, args, kwargs, node)


def seqmax_of(seq: VSeq, default=0):
    """spec: max(len(row) for row in seq) with default."""
    lam = z3.Lambda([K], seq.elem(K).length)
    return SEQMAX(lam, seq.length, z3.IntVal(default))


# ------------------------------------------------------------- io.BytesIO --
def new_bytesio(ex, st, args, kwargs, node):
    """io.BytesIO([initial]) -- ASSUMED: fresh stream over a copy of the argument, positioned at 0."""
    b = VExt("BytesIO")
    if not args or isinstance(args[0], VNoneT):
        st.assume(CONTENT(b.t) == EMPTY)
    elif isinstance(args[0], VExt) and args[0].sort == "Bytes":
        st.assume(CONTENT(b.t) == args[0].t)
    else:
        raise Unsupported(f"{ex.loc(node)} io.BytesIO({args[0]!r})")
    st.assume(BLEN(CONTENT(b.t)) >= 0)
    st.ghost[common.pos_key(b)] = z3.IntVal(0)
    return [(st, b)]


REST = fun("bytes_from", BYTES, I, BYTES)          # b[p:] -- what read() returns from position p


def rest_facts(c, p):
    """Defining facts of b[p:] used by proofs AND counterexamples (quantifier free, instantiated at the one application):
    the whole buffer from 0, nothing from the end on, len(b) - p bytes in between."""
    r = REST(c, p)
    n = BLEN(c)
    return z3.And(z3.Implies(p <= 0, r == c), z3.Implies(p >= n, r == EMPTY), BLEN(r) == z3.If(p >= n, 0, n - z3.If(p < 0, 0, p)), BLEN(EMPTY) == 0)


def m_bio_read(ex, st, obj, args, kwargs, node):
    """BytesIO.read([size]) -- ASSUMED: without a size (None / negative) the bytes from the CURRENT position to the end; the stream is
    left at the end.  A stream that was not rewound yields a suffix, not the payload.  read(n): some bytes (as before)."""
    if kwargs or len(args) > 1 or (args and not (isinstance(args[0], VNoneT) or (isinstance(args[0], VInt) and z3.is_int_value(ops.int_term(args[0]))
                                                                                 and ops.int_term(args[0]).as_long() < 0))):
        return common.m_read(ex, st, obj, args, kwargs, node)
    pos = common.bytesio_pos(st, obj)
    c = CONTENT(obj.t)
    st.assume(BLEN(c) >= 0)
    st.assume(rest_facts(c, pos))
    out = VExt("Bytes", REST(c, pos))
    st.ghost[common.pos_key(obj)] = z3.If(pos >= BLEN(c), pos, BLEN(c))
    return [(st, out)]


def m_bio_getvalue(ex, st, obj, args, kwargs, node):
    """BytesIO.getvalue() -- ASSUMED: the whole buffer, position untouched."""
    st.assume(BLEN(CONTENT(obj.t)) >= 0)
    return [(st, VExt("Bytes", CONTENT(obj.t)))]


def install_pydict(reg):
    """dict values of well-typed fields (List[Dict[str, Any]]): keys()/values()/items()/get() are total."""
    D = ext_sort("PyDict")
    dlen = fun("dict_len", D, I)

    def keys(ex, st, o, args, kwargs, node):
        st.assume(dlen(o.t) >= 0)
        key_at = fun("dict_key_at", D, I, ext_sort("PyKey"))
        return [(st, VSeq(dlen(o.t), lambda k: VExt("PyKey", key_at(o.t, k)), ("obj", "PyKey")))]

    def values(ex, st, o, args, kwargs, node):
        st.assume(dlen(o.t) >= 0)
        return [(st, VSeq(dlen(o.t), lambda k: VUnk("dict-value"), "unk"))]

    def get(ex, st, o, args, kwargs, node):
        return [(st, VUnk("dict.get"))]
    reg.method_models[("PyDict", "keys")] = keys
    reg.method_models[("PyDict", "values")] = values
    reg.method_models[("PyDict", "items")] = values
    reg.method_models[("PyDict", "get")] = get


def install(reg):
    X.install(reg)
    register_refuter()
    install_pydict(reg)
    common.install_bytesio(reg)
    reg.method_models[("BytesIO", "read")] = m_bio_read              # pack-local refinement of common.m_read (content + position)
    reg.method_models[("BytesIO", "getvalue")] = m_bio_getvalue
    reg.ext_models["io.BytesIO"] = new_bytesio
    reg.ext_models[("new", "BytesIO")] = new_bytesio
    reg.ext_models[("new", "io.BytesIO")] = new_bytesio
