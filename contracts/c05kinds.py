"""Kind flow for C05 (round 5): which Python kinds an expression can evaluate to, decided from the code shape only.

Two consumers (contracts/C05.py):
 * `field_store_kinds`: every store `self.<field> = e` in a method of a registered dataclass keeps the field inside its declared
   hint (the serialiser and the type-directed decoder rely on the hint: a `str | None` field holding a pathlib.Path is not JSON);
 * `dict_key_kinds`: the keys of a mapping that reaches a `Dict[str, ...]` field are `str` objects (the serialiser writes
   `str(key)` and the decoder rebuilds values only, so a non-str key comes back as a different key).

Kinds: "str" "int" "float" "bool" "none" "bytes" "list" "dict" "tuple" "obj:<Name>" and "unknown".  Everything here is a
may-analysis over-approximated by "unknown": a shape that is not recognised yields "unknown", and the caller reports the
obligation `unknown` (definite=False), never a violation and never a proof.
ASSUMED library facts used: str methods listed in STR_METHODS return str; pathlib.Path(...).name / .suffix / .stem are str;
str()/repr()/format() return str; int()/len() int; float() float; bool() bool.
"""
import ast

STR_METHODS = {"strip", "lstrip", "rstrip", "lower", "upper", "casefold", "title", "capitalize", "replace", "format", "join", "removeprefix",
               "removesuffix", "zfill", "ljust", "rjust", "center", "expandtabs", "swapcase", "translate"}
PATH_STR_ATTRS = {"name", "suffix", "stem"}
BUILTIN_RESULT = {"str": "str", "repr": "str", "format": "str", "chr": "str", "int": "int", "len": "int", "ord": "int", "float": "float", "bool": "bool",
                  "bytes": "bytes", "list": "list", "sorted": "list", "dict": "dict", "tuple": "tuple"}
UNKNOWN = frozenset({"unknown"})
BOT = "bot"     # "nothing known yet" inside the round-based fixpoint (a use seen before the definition)


def ann_kinds(ann):
    """Annotation AST -> set of kinds a value of that annotation may have ({'unknown'} when not understood)."""
    if ann is None:
        return set(UNKNOWN)
    if isinstance(ann, ast.Constant):
        if ann.value is None:
            return {"none"}
        if isinstance(ann.value, str):
            try:
                return ann_kinds(ast.parse(ann.value, mode="eval").body)
            except SyntaxError:
                return set(UNKNOWN)
        return set(UNKNOWN)
    if isinstance(ann, ast.Name):
        if ann.id in ("str", "int", "float", "bool", "bytes"):
            return {ann.id}
        if ann.id in ("Any", "object"):
            return set(UNKNOWN)
        if ann.id in ("list", "List"):
            return {"list"}
        if ann.id in ("dict", "Dict"):
            return {"dict"}
        return {"obj:" + ann.id}
    if isinstance(ann, ast.Attribute):
        if ann.attr == "Any":
            return set(UNKNOWN)
        return {"obj:" + ann.attr}
    if isinstance(ann, ast.BinOp) and isinstance(ann.op, ast.BitOr):
        return ann_kinds(ann.left) | ann_kinds(ann.right)
    if isinstance(ann, ast.Subscript):
        base = ann.value.attr if isinstance(ann.value, ast.Attribute) else getattr(ann.value, "id", None)
        args = list(ann.slice.elts) if isinstance(ann.slice, ast.Tuple) else [ann.slice]
        if base == "Optional" and len(args) == 1:
            return ann_kinds(args[0]) | {"none"}
        if base == "Union":
            out = set()
            for a in args:
                out |= ann_kinds(a)
            return out
        if base in ("List", "list", "Sequence"):
            return {"list"}
        if base in ("Dict", "dict", "Mapping"):
            return {"dict"}
        if base in ("Tuple", "tuple"):
            return {"tuple"}
    return set(UNKNOWN)


def fits(kinds, allowed):
    """kinds that do not inhabit `allowed` (bool is an int, an int is accepted where a float is declared)."""
    al = set(allowed)
    if "float" in al:
        al |= {"int", "bool"}
    if "int" in al:
        al |= {"bool"}
    return sorted(k for k in kinds if k not in al)


class Kinds:
    """Flow-insensitive kind environment of one function.  `self_fields`: {field name: annotation AST} of the class whose method
    this is (reads of `self.f` have the declared kinds -- the invariant the store obligations maintain); `call_kinds(name, call)`
    -> kinds | None for calls of module-level functions (result kinds of a helper)."""

    def __init__(self, fn, self_fields=None, call_kinds=None, consts=None, self_name=None, call_parts=None, param_kinds=None,
                 owner=None, method_call=None, cls_name=None):
        self.fn, self.fields, self.call_kinds, self.call_parts = fn, self_fields or {}, call_kinds, call_parts
        # owner: name of the class whose method this is; cls_name: the first parameter of a classmethod;
        # method_call(owner, receiver, method, call, caller, what) -> kinds / tuple parts | None for `self.m(..)`, `cls.m(..)`, `Class.m(..)`
        self.owner, self.method_call, self.cls_name = owner, method_call, cls_name
        self.consts = dict(consts or {})                 # parameter name -> ast.Constant (call-site literal)
        a = fn.args
        params = a.posonlyargs + a.args + a.kwonlyargs
        self.self_name = self_name if self_name is not None else (params[0].arg if params and self.fields else None)
        self.env = {}
        pk = param_kinds or {}                            # parameter -> (kinds, element kinds) of the argument at the call site under analysis
        for p in params:
            if p.arg in self.consts:
                self.env[p.arg] = self.of(self.consts[p.arg])
            elif p.arg in pk:
                self.env[p.arg] = set(pk[p.arg][0]) or set(UNKNOWN)
            else:
                self.env[p.arg] = ann_kinds(p.annotation) if p.arg != self.self_name else {"obj:self"}
        for extra in (a.vararg, a.kwarg):
            if extra is not None:
                self.env[extra.arg] = set(UNKNOWN)
        self.elem = {p: set(v[1]) for p, v in pk.items() if p not in self.consts}     # name -> kinds of the elements of the list bound to it
        self._final = False
        self.parts, self.eparts = {}, {}                 # name -> component kinds of the tuple bound to it / of the tuples in the list bound to it
        self.locals = {n.id for n in ast.walk(fn) if isinstance(n, ast.Name) and isinstance(n.ctx, ast.Store)}
        for _ in range(6):
            before = repr((sorted((k, sorted(v)) for k, v in self.env.items()), sorted((k, sorted(v)) for k, v in self.elem.items()), self.parts, self.eparts))
            self._np, self._nep = {}, {}
            for n in ast.walk(fn):
                self.visit(n)
            self.parts, self.eparts = self._np, self._nep      # recomputed per round: a use seen before its definition settles in the next one
            if before == repr((sorted((k, sorted(v)) for k, v in self.env.items()), sorted((k, sorted(v)) for k, v in self.elem.items()), self.parts, self.eparts)):
                break
        for nm in self.locals:                           # a local none of whose bindings was understood
            if not self.env.get(nm):
                self.env[nm] = set(UNKNOWN)
        self._final = True
        self.overlay = {}                                # name -> kinds known at the program point under evaluation (isinstance / None tests)
        self.facts_at = {}                               # id(statement) -> overlay in force when it runs
        try:
            self._walk_facts(fn.body, {})
        except Exception:  # noqa  (narrowing is optional: without it the kinds are only less precise)
            self.facts_at = {}

    # -- bindings ------------------------------------------------------------------------------------------------------
    def add(self, name, kinds, elem=None):
        self.env.setdefault(name, set()).update(kinds)
        if elem is not None:
            self.elem.setdefault(name, set()).update(elem)

    @staticmethod
    def _jp(d, name, val):
        """Join component kinds into d[name]: val is a list of kind sets, None (not a known tuple) or BOT (nothing known yet)."""
        if val is BOT:
            return
        cur = d.get(name, BOT)
        if val is None or cur is False:
            d[name] = False
        elif cur is BOT:
            d[name] = [set(x) for x in val]
        elif len(cur) != len(val):
            d[name] = False
        else:
            d[name] = [a | b for a, b in zip(cur, val)]

    def bind(self, target, value_kinds, value_elem=None, tuple_parts=None):
        if isinstance(target, ast.Name):
            self.add(target.id, value_kinds, value_elem)
        elif isinstance(target, (ast.Tuple, ast.List)):
            if tuple_parts is not None and len(tuple_parts) == len(target.elts) and not any(isinstance(t, ast.Starred) for t in target.elts):
                for t, (k, e) in zip(target.elts, tuple_parts):
                    self.bind(t, k, e)
            else:
                for t in target.elts:
                    self.bind(t, value_elem if value_elem is not None else set(UNKNOWN))
        elif isinstance(target, ast.Starred):
            self.bind(target.value, {"list"}, set(UNKNOWN))

    def bind_value(self, target, value):
        """target = value (assignment, walrus)."""
        tp = self.tuple_parts(value)
        if isinstance(target, ast.Name):
            self._jp(self._np, target.id, tp)
            self._jp(self._nep, target.id, self.elem_tuple_parts(value))
        if tp is BOT and isinstance(target, (ast.Tuple, ast.List)):
            return                                           # nothing known yet about the right-hand side: next round
        self.bind(target, self.of(value), self.elem_of(value), [(k, None) for k in tp] if isinstance(tp, list) else None)

    def iter_parts(self, it):
        """Element description of an iterable expression: (kinds, elem-of-element, tuple parts or None)."""
        if isinstance(it, ast.Call) and isinstance(it.func, ast.Name):
            if it.func.id == "enumerate" and it.args:
                k, e, _tp = self.iter_parts(it.args[0])
                return {"tuple"}, None, [({"int"}, None), (k, e)]
            if it.func.id == "zip" and it.args:
                return {"tuple"}, None, [self.iter_parts(a)[:2] for a in it.args]
            if it.func.id == "range":
                return {"int"}, None, None
            if it.func.id in ("sorted", "list", "reversed", "tuple", "set") and len(it.args) >= 1:
                return self.iter_parts(it.args[0])
        ep = self.elem_tuple_parts(it)
        if isinstance(ep, list):
            return {"tuple"}, None, [(k, None) for k in ep]
        if ep is BOT:
            return set(), None, BOT
        return self.elem_of(it), None, None

    def bind_iter(self, target, it):
        k, e, tp = self.iter_parts(it)
        if tp is BOT:
            if isinstance(target, ast.Name):
                self.add(target.id, set())
            return
        if isinstance(target, ast.Name) and tp is not None:
            self._jp(self._np, target.id, [x[0] for x in tp])
        elif isinstance(target, ast.Name):
            self._jp(self._np, target.id, None)
        self.bind(target, k, e if tp is None else None, tp)

    def visit(self, n):
        if isinstance(n, ast.Assign):
            for t in n.targets:
                self.bind_value(t, n.value)
        elif isinstance(n, ast.AnnAssign) and n.value is not None:
            self.bind_value(n.target, n.value)
        elif isinstance(n, ast.AugAssign) and isinstance(n.target, ast.Name):
            self.add(n.target.id, self.of(ast.BinOp(left=ast.Name(id=n.target.id, ctx=ast.Load()), op=n.op, right=n.value)),
                     self.elem_of(n.value) if isinstance(n.op, ast.Add) else None)
            self._jp(self._np, n.target.id, None)
            self._jp(self._nep, n.target.id, self.elem_tuple_parts(n.value) if isinstance(n.op, ast.Add) else None)
        elif isinstance(n, ast.NamedExpr):
            self.bind_value(n.target, n.value)
        elif isinstance(n, (ast.For, ast.AsyncFor)):
            self.bind_iter(n.target, n.iter)
        elif isinstance(n, ast.comprehension):
            self.bind_iter(n.target, n.iter)
        elif isinstance(n, ast.Expr) and isinstance(n.value, ast.Call) and isinstance(n.value.func, ast.Attribute) \
                and isinstance(n.value.func.value, ast.Name):
            acc, m, args = n.value.func.value.id, n.value.func.attr, n.value.args
            if m == "append" and len(args) == 1:
                self.add(acc, set(), self.of(args[0]))
                self._jp(self._nep, acc, self.tuple_parts(args[0]))
            elif m == "insert" and len(args) == 2:
                self.add(acc, set(), self.of(args[1]))
                self._jp(self._nep, acc, self.tuple_parts(args[1]))
            elif m == "extend" and len(args) == 1:
                self.add(acc, set(), self.elem_of(args[0]))
                self._jp(self._nep, acc, self.elem_tuple_parts(args[0]))
            elif m not in ("sort", "reverse", "pop", "remove", "clear", "index", "count", "copy") and acc in self.locals:
                self.add(acc, set(), set(UNKNOWN))              # an unknown method may store anything into the container
                self._jp(self._nep, acc, None)
        elif isinstance(n, (ast.With, ast.AsyncWith)):
            for it in n.items:
                if it.optional_vars is not None:
                    self.bind(it.optional_vars, set(UNKNOWN), set(UNKNOWN))
        elif isinstance(n, ast.ExceptHandler) and n.name:
            self.add(n.name, {"obj:Exception"})
        elif isinstance(n, ast.Assign) is False and isinstance(n, ast.Subscript) and isinstance(n.ctx, ast.Store) and isinstance(n.value, ast.Name):
            self.add(n.value.id, set(), set(UNKNOWN))           # xs[i] = v: the element kinds are no longer known
            self._jp(self._nep, n.value.id, None)

    # -- narrowing by isinstance / None tests ------------------------------------------------------------------------------
    def test_facts(self, test):
        """(facts when the test holds, facts when it does not): {name: kinds}, for names that are never re-bound."""
        if isinstance(test, ast.UnaryOp) and isinstance(test.op, ast.Not):
            a, b = self.test_facts(test.operand)
            return b, a
        if isinstance(test, ast.BoolOp) and isinstance(test.op, ast.And):
            pos = {}
            for v in test.values:
                for k, ks in self.test_facts(v)[0].items():
                    pos[k] = (pos[k] & ks) if k in pos else ks
            return pos, {}
        if isinstance(test, ast.BoolOp) and isinstance(test.op, ast.Or):
            neg = {}
            for v in test.values:
                for k, ks in self.test_facts(v)[1].items():
                    neg[k] = (neg[k] & ks) if k in neg else ks
            return {}, neg
        name, kinds = None, None
        if isinstance(test, ast.Call) and isinstance(test.func, ast.Name) and test.func.id == "isinstance" and len(test.args) == 2 \
                and isinstance(test.args[0], ast.Name) and not test.keywords:
            name, kinds = test.args[0].id, set()
            for t in (test.args[1].elts if isinstance(test.args[1], ast.Tuple) else [test.args[1]]):
                kinds |= ann_kinds(t) if isinstance(t, (ast.Name, ast.Attribute)) else set(UNKNOWN)
            flip = False
        elif isinstance(test, ast.Compare) and len(test.ops) == 1 and isinstance(test.ops[0], (ast.Is, ast.IsNot)) and isinstance(test.left, ast.Name) \
                and isinstance(test.comparators[0], ast.Constant) and test.comparators[0].value is None:
            name, kinds, flip = test.left.id, {"none"}, isinstance(test.ops[0], ast.IsNot)
        if name is None or "unknown" in kinds or self.rebound(name):
            return {}, {}
        cur = self.of(ast.Name(id=name, ctx=ast.Load()))
        pos = {name: (cur & kinds) if "unknown" not in cur else set(kinds)}
        neg = {name: cur - kinds} if "unknown" not in cur else {}
        if "int" in kinds and "bool" in cur:                   # isinstance(True, int)
            pos[name] |= {"bool"}
            if name in neg:
                neg[name] -= {"bool"}
        return (neg, pos) if flip else (pos, neg)

    def _walk_facts(self, stmts, facts):
        facts = dict(facts)
        for st in stmts:
            self.facts_at[id(st)] = dict(facts)
            if isinstance(st, ast.If):
                self.overlay = facts
                try:
                    pos, neg = self.test_facts(st.test)
                finally:
                    self.overlay = {}
                self._walk_facts(st.body, dict(facts, **pos))
                self._walk_facts(st.orelse, dict(facts, **neg))
                if st.body and isinstance(st.body[-1], (ast.Return, ast.Raise)) and not st.orelse:
                    facts.update(neg)
            elif isinstance(st, (ast.For, ast.AsyncFor, ast.While)):
                self._walk_facts(st.body, facts)
                self._walk_facts(st.orelse, facts)
            elif isinstance(st, (ast.With, ast.AsyncWith)):
                self._walk_facts(st.body, facts)
            elif isinstance(st, ast.Try):
                self._walk_facts(st.body, facts)
                for h in st.handlers:
                    self._walk_facts(h.body, facts)
                self._walk_facts(st.orelse, facts)
                self._walk_facts(st.finalbody, facts)

    def of_stmt(self, stmt, e):
        """Kinds of an expression of statement `stmt`, with what the enclosing tests say about never-re-bound names."""
        self.overlay = self.facts_at.get(id(stmt), {})
        try:
            return self.of(e)
        finally:
            self.overlay = {}

    # -- tuples --------------------------------------------------------------------------------------------------------
    def tuple_parts(self, e):
        """Component kinds of a tuple-valued expression: list of kind sets | None (not understood) | BOT (nothing known yet)."""
        if isinstance(e, ast.Tuple):
            return None if any(isinstance(x, ast.Starred) for x in e.elts) else [self.of(x) for x in e.elts]
        if isinstance(e, ast.Name):
            v = self.parts.get(e.id, BOT)
            if v is BOT:
                return BOT if e.id in self.locals else None
            return v if v is not False else None
        if isinstance(e, ast.Call) and isinstance(e.func, ast.Name) and self.call_parts is not None and e.func.id not in self.env:
            return self.call_parts(e.func.id, e, self)
        if isinstance(e, ast.Call) and isinstance(e.func, ast.Attribute):
            r = self._method_result(e, "parts")
            if r is not None:
                return r
        if isinstance(e, ast.IfExp):
            a, b = self.tuple_parts(e.body), self.tuple_parts(e.orelse)
            if isinstance(a, list) and isinstance(b, list) and len(a) == len(b):
                return [x | y for x, y in zip(a, b)]
            return a if b is BOT else b if a is BOT else None
        if isinstance(e, ast.Subscript) and not isinstance(e.slice, ast.Slice):
            return self.elem_tuple_parts(e.value)
        return None

    def elem_tuple_parts(self, e):
        """Component kinds of the tuples a list-like expression holds (same answers as tuple_parts)."""
        if isinstance(e, (ast.ListComp, ast.GeneratorExp, ast.SetComp)):
            return self.tuple_parts(e.elt)
        if isinstance(e, (ast.List, ast.Tuple, ast.Set)) and e.elts:
            d = {}
            for x in e.elts:
                self._jp(d, "x", None if isinstance(x, ast.Starred) else self.tuple_parts(x))
            v = d.get("x", BOT)
            return None if v is False else v
        if isinstance(e, ast.Name):
            v = self.eparts.get(e.id, BOT)
            if v is BOT:
                return BOT if e.id in self.locals else None
            return v if v is not False else None
        if isinstance(e, ast.Call) and isinstance(e.func, ast.Name):
            if e.func.id in ("list", "sorted", "tuple", "reversed") and len(e.args) >= 1:
                return self.elem_tuple_parts(e.args[0])
            if e.func.id == "zip" and e.args:
                return [self.elem_of(a) or set(UNKNOWN) for a in e.args]
            if e.func.id == "enumerate" and e.args:
                return [{"int"}, self.elem_of(e.args[0]) or set(UNKNOWN)]
        if isinstance(e, ast.Subscript) and isinstance(e.slice, ast.Slice):
            return self.elem_tuple_parts(e.value)
        return None

    # -- expressions ---------------------------------------------------------------------------------------------------
    def elem_of(self, e):
        """Kinds of the elements of a list-like expression ({'unknown'} when not understood)."""
        if isinstance(e, (ast.List, ast.Tuple, ast.Set)):
            out = set()
            for x in e.elts:
                out |= self.elem_of(x.value) if isinstance(x, ast.Starred) else self.of(x)
            return out
        if isinstance(e, (ast.ListComp, ast.SetComp, ast.GeneratorExp)):
            return self.of(e.elt)
        if isinstance(e, ast.Name):
            if e.id in self.elem:
                return set(self.elem[e.id])
            return set() if e.id in self.locals and not self._final else set(UNKNOWN)
        if isinstance(e, ast.Subscript) and isinstance(e.slice, ast.Slice):
            return self.elem_of(e.value)
        if isinstance(e, ast.BinOp) and isinstance(e.op, ast.Add):
            return self.elem_of(e.left) | self.elem_of(e.right)
        if isinstance(e, ast.BinOp) and isinstance(e.op, ast.Mult):
            l, r = self.elem_of(e.left), self.elem_of(e.right)
            return l if l != UNKNOWN else r
        if isinstance(e, ast.IfExp):
            return self.elem_of(e.body) | self.elem_of(e.orelse)
        if isinstance(e, ast.Call) and isinstance(e.func, ast.Name) and e.func.id in ("list", "sorted", "tuple", "reversed", "set") and len(e.args) >= 1:
            return self.elem_of(e.args[0])
        if isinstance(e, ast.Call) and isinstance(e.func, ast.Attribute) and e.func.attr in ("split", "splitlines", "rsplit") \
                and self.of(e.func.value) == {"str"}:
            return {"str"}
        return set(UNKNOWN)

    def of(self, e):
        if e is None:
            return {"none"}
        if isinstance(e, ast.Constant):
            v = e.value
            return {"none" if v is None else "bool" if isinstance(v, bool) else "int" if isinstance(v, int) else "float" if isinstance(v, float)
                    else "str" if isinstance(v, str) else "bytes" if isinstance(v, bytes) else "unknown"}
        if isinstance(e, ast.JoinedStr):
            return {"str"}
        if isinstance(e, ast.Name):
            if self._final and e.id in self.overlay:
                return set(self.overlay[e.id])
            if e.id in self.env:
                return set(self.env[e.id]) if self.env[e.id] or not self._final else set(UNKNOWN)
            return set() if e.id in self.locals and not self._final else set(UNKNOWN)
        if isinstance(e, ast.IfExp):
            t = self.truth(e.test)
            if t is True:
                return self.of(e.body)
            if t is False:
                return self.of(e.orelse)
            if not self._final:
                return self.of(e.body) | self.of(e.orelse)
            pos, neg = self.test_facts(e.test)
            saved, out = self.overlay, set()
            for part, facts in ((e.body, pos), (e.orelse, neg)):
                self.overlay = dict(saved, **facts)
                try:
                    out |= self.of(part)
                finally:
                    self.overlay = saved
            return out
        if isinstance(e, ast.BoolOp):
            out = set()
            for v in e.values:
                out |= self.of(v)
            return out
        if isinstance(e, ast.Compare) or (isinstance(e, ast.UnaryOp) and isinstance(e.op, ast.Not)):
            return {"bool"}
        if isinstance(e, ast.UnaryOp):
            k = self.of(e.operand)
            return k if k <= {"int", "float"} else set(UNKNOWN)
        if isinstance(e, (ast.List, ast.ListComp)):
            return {"list"}
        if isinstance(e, (ast.Dict, ast.DictComp)):
            return {"dict"}
        if isinstance(e, ast.Tuple):
            return {"tuple"}
        if isinstance(e, ast.NamedExpr):
            return self.of(e.value)
        if isinstance(e, ast.BinOp):
            l, r = self.of(e.left), self.of(e.right)
            if isinstance(e.op, ast.Add) and l == r == {"str"}:
                return {"str"}
            if isinstance(e.op, ast.Mod) and l == {"str"}:
                return {"str"}
            if isinstance(e.op, ast.Mult) and (l, r) in (({"str"}, {"int"}), ({"int"}, {"str"})):
                return {"str"}
            if l <= {"int", "bool"} and r <= {"int", "bool"} and not isinstance(e.op, ast.Div):
                return {"int"}
            if l <= {"int", "bool", "float"} and r <= {"int", "bool", "float"}:
                return {"float"} if isinstance(e.op, ast.Div) or "float" in l | r else {"int"}
            return set(UNKNOWN)
        if isinstance(e, ast.Subscript):
            if isinstance(e.slice, ast.Slice):
                k = self.of(e.value)
                return k if k <= {"str", "list", "bytes", "tuple"} else set(UNKNOWN)
            if self.of(e.value) == {"str"}:
                return {"str"}
            tp = self.tuple_parts(e.value)
            if isinstance(tp, list):
                if isinstance(e.slice, ast.Constant) and isinstance(e.slice.value, int) and -len(tp) <= e.slice.value < len(tp):
                    return set(tp[e.slice.value])
                out = set()
                for x in tp:
                    out |= x
                return out
            if tp is BOT:
                return set()
            if isinstance(e.value, ast.Tuple) and isinstance(e.slice, ast.Constant) and isinstance(e.slice.value, int) and e.slice.value < len(e.value.elts):
                return self.of(e.value.elts[e.slice.value])
            return self.elem_of(e.value)
        if isinstance(e, ast.Attribute):
            base = self.of(e.value)
            if base == {"obj:self"} and e.attr in self.fields:
                return ann_kinds(self.fields[e.attr])
            if base == {"obj:Path"} and e.attr in PATH_STR_ATTRS:
                return {"str"}
            return set(UNKNOWN)
        if isinstance(e, ast.Call):
            f = e.func
            if isinstance(f, ast.Name):
                if f.id in BUILTIN_RESULT and f.id not in self.env:
                    return {BUILTIN_RESULT[f.id]}
                if self.call_kinds is not None:
                    k = self.call_kinds(f.id, e, self)
                    if k is not None:
                        return set(k)
                if f.id[:1].isupper() and f.id not in self.env:          # a class of the module / an imported class: an instance of it
                    return {"obj:" + f.id}
                return set(UNKNOWN)
            if isinstance(f, ast.Attribute):
                k = self._method_result(e, "kinds")
                if k is not None:
                    return set(k)
                base = self.of(f.value)
                if f.attr in STR_METHODS and (base == {"str"} or (isinstance(f.value, ast.Constant) and isinstance(f.value.value, str))):
                    return {"str"}
                if f.attr in ("isoformat", "strftime", "hex"):
                    return {"str"}
                if f.attr == "decode" and base == {"bytes"}:
                    return {"str"}
            return set(UNKNOWN)
        return set(UNKNOWN)

    def _method_result(self, call, what):
        """Result of `self.m(..)` / `cls.m(..)` (inside a method of the owner class) or `Class.m(..)`: decided by the module's
        method table (ModuleKinds.method_call); None when the receiver is anything else or the method is not understood."""
        f = call.func
        if self.method_call is None or not isinstance(f.value, ast.Name) or self.rebound(f.value.id):
            return None
        r = f.value.id
        if self.self_name and r == self.self_name and self.owner:
            recv = "self"
        elif self.cls_name and r == self.cls_name and self.owner:
            recv = "cls"
        elif r not in self.env and r not in self.locals:
            recv = "class:" + r
        else:
            return None
        try:
            return self.method_call(self.owner, recv, f.attr, call, self, what)
        except RecursionError:
            return None

    def truth(self, test):
        """True / False when the test is decided by a call-site literal of a parameter that is never re-bound, else None."""
        neg = False
        while isinstance(test, ast.UnaryOp) and isinstance(test.op, ast.Not):
            test, neg = test.operand, not neg
        if isinstance(test, ast.Name) and test.id in self.consts and not self.rebound(test.id):
            v = bool(self.consts[test.id].value)
            return (not v) if neg else v
        return None

    def rebound(self, name):
        for n in ast.walk(self.fn):
            if isinstance(n, ast.Name) and n.id == name and isinstance(n.ctx, (ast.Store, ast.Del)):
                return True
        return False

    # -- reachable returns under the call-site literals -------------------------------------------------------------------
    def returns(self):
        """Return expressions reachable when the parameters in `consts` have their literal values (an `if <param>:` whose
        taken branch always leaves the function hides what follows it).  None stands for `return` / falling off the end."""
        out = []

        def leaves(stmts):
            """-> True when the block always leaves (return / raise) on the paths that are kept."""
            for st in stmts:
                if isinstance(st, ast.Return):
                    out.append(st.value)
                    return True
                if isinstance(st, ast.Raise):
                    return True
                if isinstance(st, ast.If):
                    t = self.truth(st.test)
                    if t is True:
                        if leaves(st.body):
                            return True
                    elif t is False:
                        if leaves(st.orelse):
                            return True
                    else:
                        a, b = leaves(st.body), leaves(st.orelse)
                        if a and b:
                            return True
                elif isinstance(st, (ast.For, ast.AsyncFor, ast.While)):
                    leaves(st.body)
                    leaves(st.orelse)
                elif isinstance(st, (ast.With, ast.AsyncWith)):
                    if leaves(st.body):
                        return True
                elif isinstance(st, ast.Try):
                    a = leaves(st.body)
                    hs = [leaves(h.body) for h in st.handlers]
                    b = leaves(st.orelse) if st.orelse else False
                    if st.finalbody and leaves(st.finalbody):
                        return True
                    if (a or b) and all(hs):
                        return True
                elif isinstance(st, ast.Match):
                    for c in st.cases:
                        leaves(c.body)
            return False

        if not leaves(self.fn.body):
            out.append(None)
        return out


class ModuleKinds:
    """Result kinds of the module-level functions of one module, per call site (literal keyword / positional arguments of
    bool / None / str / int type are propagated into the callee: `f(x, as_string=True)`)."""

    def __init__(self, module):
        self.m = module
        self._busy = set()
        self._memo = {}

    def _callee(self, name, call, caller=None, skip=0):
        """(function node, {parameter: literal}, {parameter: (kinds, element kinds)}) or None when the call shape is not understood.
        skip: leading positional parameters bound by the receiver (self / cls), not by the call."""
        fn = self.m.functions.get(name)
        if fn is None or not isinstance(fn, (ast.FunctionDef,)):
            return None
        if any(isinstance(n, (ast.Yield, ast.YieldFrom)) for n in ast.walk(fn)):
            return None
        a = fn.args
        pos = [p.arg for p in a.posonlyargs + a.args]
        if len(pos) < skip:
            return None
        pos = pos[skip:]
        names = set(pos) | {p.arg for p in a.kwonlyargs}
        consts, pk = {}, {}
        if call is not None:
            if any(isinstance(x, ast.Starred) for x in call.args) or any(k.arg is None for k in call.keywords):
                return None
            bound = [(pos[i], x) for i, x in enumerate(call.args) if i < len(pos)] + [(k.arg, k.value) for k in call.keywords if k.arg in names]
            for prm, x in bound:
                if isinstance(x, ast.Constant):
                    consts[prm] = x
                elif caller is not None:                      # what the caller knows about the argument (kinds, element kinds)
                    pk[prm] = (frozenset(caller.of(x)), frozenset(caller.elem_of(x)))
            passed = set(pos[:len(call.args)]) | {k.arg for k in call.keywords}
            defaults = dict(zip(pos[len(pos) - len(a.defaults):], a.defaults)) if a.defaults else {}
            defaults.update({p.arg: d for p, d in zip(a.kwonlyargs, a.kw_defaults) if d is not None})
            for p, d in defaults.items():                    # defaults of parameters the call does not pass
                if p not in passed and isinstance(d, ast.Constant):
                    consts[p] = d
        return fn, consts, pk

    def _run(self, name, call, what, caller=None, skip=0, kinds_kw=None):
        got = self._callee(name, call, caller, skip)
        if got is None:
            return None
        fn, consts, pk = got
        key = (what, name, skip, tuple(sorted((k, repr(v.value)) for k, v in consts.items())), tuple(sorted((k, tuple(sorted(v[0])), tuple(sorted(v[1]))) for k, v in pk.items())))
        if key in self._memo:
            return self._memo[key]
        if key in self._busy:
            return set() if what == "kinds" else BOT
        self._busy.add(key)
        try:
            kw = dict(kinds_kw) if kinds_kw else dict(self_fields=None, self_name="")
            kk = Kinds(fn, kw.pop("self_fields"), self.call_kinds, consts, call_parts=self.call_parts, param_kinds=pk,
                       method_call=self.method_call, **kw)
            if what == "kinds":
                out = set()
                for r in kk.returns():
                    out |= kk.of(r)
            else:
                d = {}
                for r in kk.returns():
                    Kinds._jp(d, "r", None if r is None else kk.tuple_parts(r))
                out = d.get("r", None)
                out = None if out is False else out
        finally:
            self._busy.discard(key)
        self._memo[key] = out
        return out

    def call_kinds(self, name, call, caller=None):
        return self._run(name, call, "kinds", caller)

    def call_parts(self, name, call, caller=None):
        return self._run(name, call, "parts", caller)

    # -- methods of the module's classes -------------------------------------------------------------------------------------
    def _classes(self):
        if not hasattr(self, "_top"):
            self._top = {n.name: n for n in self.m.tree.body if isinstance(n, ast.ClassDef)}
        return self._top

    def _bases(self, cname):
        return [getattr(b, "id", None) or getattr(b, "attr", None) for b in self._classes()[cname].bases]

    def _defines(self, cname, meth):
        """The statement(s) binding `meth` in the body of class cname (any statement kind)."""
        out = []
        for b in self._classes()[cname].body:
            if isinstance(b, (ast.FunctionDef, ast.AsyncFunctionDef, ast.ClassDef)) and b.name == meth:
                out.append(b)
            elif isinstance(b, (ast.Assign, ast.AnnAssign, ast.AugAssign)):
                tg = b.targets if isinstance(b, ast.Assign) else [b.target]
                if any(isinstance(t, ast.Name) and t.id == meth for t in tg):
                    out.append(b)
            elif not isinstance(b, (ast.Expr, ast.Pass)) and any(isinstance(x, ast.Name) and x.id == meth and isinstance(x.ctx, ast.Store) for x in ast.walk(b)):
                out.append(b)
        return out

    def _resolve(self, cname, meth, seen=()):
        """-> (defining class, node) of the first definition along the bases (depth first, left to right), "?" when a base is
        not a class of this module (it may define the method), None when no class defines it."""
        top = self._classes()
        if cname not in top or cname in seen:
            return "?"
        d = self._defines(cname, meth)
        if d:
            return (cname, d[-1]) if len(d) == 1 else "?"
        unknown_base = False
        for b in self._bases(cname):
            if b in ("object", "dict", "list", "Protocol", "Generic", "ABC"):
                continue                                 # define none of the module's own method names that are looked up here
            r = self._resolve(b, meth, seen + (cname,)) if b in top else "?"
            if r == "?":
                unknown_base = True
            elif r is not None:
                return "?" if unknown_base else r
        return "?" if unknown_base else None

    def _descendants(self, cname):
        top, out, grew = self._classes(), set(), True
        while grew:
            grew = False
            for n in top:
                if n not in out and n != cname and any(b == cname or b in out for b in self._bases(n)):
                    out.add(n)
                    grew = True
        return out

    def _field_anns(self, cname, seen=()):
        top, out = self._classes(), {}
        for b in self._bases(cname):
            if b in top and b not in seen:
                out.update(self._field_anns(b, seen + (cname,)))
        for b in top[cname].body:
            if isinstance(b, ast.AnnAssign) and isinstance(b.target, ast.Name):
                out[b.target.id] = b.annotation
        return out

    def method_call(self, owner, recv, meth, call, caller=None, what="kinds"):
        """Result kinds (what="kinds") / tuple parts of `self.meth(..)`, `cls.meth(..)` inside a method of class `owner`, or of
        `Class.meth(..)`.  A call through self / cls dispatches on the run-time class: the answer joins the definition the owner
        inherits with every override in the module's subclasses of the owner.  Plain functions (instance methods), staticmethods and
        classmethods are understood; any other decorator, a non-function binding, a base class outside the module, or a call shape
        `_callee` does not understand give None (unknown)."""
        top = self._classes()
        if recv.startswith("class:"):
            start, dynamic = recv[6:], False
        else:
            start, dynamic = owner, True
        if start not in top:
            return None
        cands = []
        r = self._resolve(start, meth)
        if r == "?" or r is None:
            return None
        cands.append(r)
        if dynamic:
            for sub in sorted(self._descendants(start)):
                d = self._defines(sub, meth)
                if len(d) > 1:
                    return None
                if d:
                    cands.append((sub, d[0]))
        out = None
        for cname, node in cands:
            if not isinstance(node, ast.FunctionDef):
                return None
            decs = [getattr(dec, "id", None) for dec in node.decorator_list]
            if decs == ["staticmethod"]:
                skip, kw = 0, dict(self_fields=None, self_name="", owner=cname)
            elif decs == ["classmethod"]:
                a = node.args.posonlyargs + node.args.args
                if not a:
                    return None
                skip, kw = 1, dict(self_fields=None, self_name="", owner=cname, cls_name=a[0].arg)
            elif not decs:
                if recv.startswith("class:"):
                    return None                          # Class.m(obj, ..): explicit receiver, not followed
                skip, kw = 1, dict(self_fields=self._field_anns(cname), self_name=None, owner=cname)
            else:
                return None
            got = self._run(f"{cname}.{meth}", call, what, caller, skip=skip, kinds_kw=kw)
            if got is None:
                return None
            if what == "kinds":
                out = set(got) if out is None else out | set(got)
            else:
                if out is None:
                    out = got
                elif out != got:
                    return None
        return out
