"""Assumed models of library objects shared by several packs (each use is
listed in the evidence as an assumed contract)."""
import z3

from pyvc.values import NONE, VBool, VExt, VFunc, VInt, VSeq, VStr, VUnk, ext_sort, fresh_name
from pyvc import ops


# ------------------------------------------------------------------ BytesIO --
def pos_key(obj):
    return ("pos", obj.t.get_id())


def bytesio_pos(st, obj):
    k = pos_key(obj)
    if k not in st.ghost:
        t = z3.Int(fresh_name("pos"))
        st.assume(t >= 0)
        st.ghost[k] = t
    return st.ghost[k]


def m_tell(ex, st, obj, args, kwargs, node):
    return [(st, VInt(bytesio_pos(st, obj)))]


def m_seek(ex, st, obj, args, kwargs, node):
    n = ops.int_term(args[0])
    st2 = ex.fork_raise(st, n < 0, "ValueError")
    if st2 is None:
        return []
    st2.ghost[pos_key(obj)] = n
    return [(st2, VInt(n))]


def m_read(ex, st, obj, args, kwargs, node):
    t = z3.Int(fresh_name("pos"))
    st.assume(t >= bytesio_pos(st, obj))
    st.ghost[pos_key(obj)] = t
    return [(st, VUnk("bytes"))]


def havoc_pos(ex, st, obj):
    t = z3.Int(fresh_name("pos"))
    st.assume(t >= 0)
    st.ghost[pos_key(obj)] = t


def install_bytesio(reg):
    reg.ext_models[("havoc", "BytesIO")] = havoc_pos
    reg.method_models[("BytesIO", "tell")] = m_tell
    reg.method_models[("BytesIO", "seek")] = m_seek
    reg.method_models[("BytesIO", "read")] = m_read


# ---------------------------------------------------------------- total clock --
def m_perf_counter(ex, st, args, kwargs, node):
    """time.perf_counter()/time.time(): ASSUMED total, returns some float (nondeterministic)."""
    from pyvc.values import VReal
    st.ghost["nondet"] = st.ghost.get("nondet", ()) + (f"{ex.loc(node)} clock",)
    return [(st, VReal(z3.Real(fresh_name("clock"))))]


def install_clock(reg):
    reg.ext_models["time.perf_counter"] = m_perf_counter
    reg.ext_models["time.time"] = m_perf_counter
    reg.ext_models["time.monotonic"] = m_perf_counter
