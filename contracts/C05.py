"""C05 -- to_json is JSON-serialisable and from_json restores the same object.

Structure (DESIGN §3 C05, Appendix B):
 (a) the real `_serialize_for_json` / `_deserialize_value` / `_deserialize_dataclass` (and their helpers) are
     symbolically executed over the value universe of contracts/c05spec.py and shown to compute the spec
     functions SER / DESER (one alternative per value kind; recursion through the function's own contract;
     comprehensions element-wise; the loops by induction);
 (b) lemmas by induction over that universe (contracts/c05lemmas.py): json_ok(SER(v)); the round trip
     SER(DESER(SER(v),H)) == SER(v) with the same type name; binary exclusion nulls exactly the binary leaves;
 (c) the registry of dataclasses is re-derived from the AST of data_types.py on every run, every field hint
     is classified into a hint shape and must be a shape the lemmas cover (EXTRA `registry`);
 (d) cli._serialize_results / _serialize_unit_results: an object for one result, an array otherwise;
 (e) Any-typed fields: only JSON-able kinds are stored (xlsx._get_cell_value, xls._get_cell_values, ods).
Known finding F6 (marker keys in document content) is excluded from the round-trip lemma through
known_findings.json only; the unrestricted obligation is generated, fails, and is replayed on every run.
"""
import ast
import json
import os
import subprocess

import z3

from pyvc import loader, ops
from pyvc.contracts import FnContract, LoopSpec, Raises
from pyvc.flow import ground_obligation
from pyvc.values import NONE, VBool, VInt, VRef, VSeq, VStr, VTuple, VType, VUnk, fresh_name
from pyvc.verify import Maker, p_bool, p_int, p_str
from contracts import c05spec as sp
from contracts import c05lemmas as lem
from contracts.c05exec import PH, PTok, PV, SerExecutor, DICTSUB, hname, istype, BUILTIN_CLASS_NAMES

SER_PY = "sharepoint2text/parsing/extractors/serialization.py"
DT_PY = "sharepoint2text/parsing/extractors/data_types.py"
CLI_PY = "sharepoint2text/cli.py"
XLSX_PY = "sharepoint2text/parsing/extractors/ms_modern/xlsx_extractor.py"
XLS_PY = "sharepoint2text/parsing/extractors/ms_legacy/xls_extractor.py"
ODS_PY = "sharepoint2text/parsing/extractors/open_office/ods_extractor.py"

V, VL, KV, SL, H = sp.V, sp.VL, sp.KV, sp.SL, sp.H
sv = sp.sv
T, F = z3.BoolVal(True), z3.BoolVal(False)

EXECUTOR = SerExecutor
EXECUTOR_KW = {}


# ------------------------------------------------------------ param makers --
def value_shapes(name, only=None):
    f = lambda s, srt: z3.Const(f"{name}.{s}", srt)
    shapes = [("None", V.Non), ("Bool", V.Bool(f("b", sp.B))), ("Int", V.Int(f("i", sp.I))), ("Float", V.Float(f("r", sp.R))),
              ("Str", V.Str(f("s", sp.S))), ("Bytes", V.Bytes(f("bytes", sp.Bin))), ("BytesIO", V.BytesIO(f("stream", sp.Bin))),
              ("List", V.List(f("items", VL))), ("Tuple", V.Tuple(f("titems", VL))), ("Set", V.Set(f("sitems", VL))),
              ("Dict", V.Dict(f("ents", KV))), ("DC", V.DC(f("cls", sp.S), f("flds", KV))), ("Other", V.Other(f("kind", sp.I)))]
    return [(n, t) for n, t in shapes if only is None or n in only]


def p_pv(only=None):
    """A Python value, one alternative per kind (explicit constructor term with fresh components)."""
    return Maker(lambda ex, st, name: [(None, PV(t)) for _n, t in value_shapes(name, only)], desc="any Python value (by kind)")


def p_hint():
    return Maker(lambda ex, st, name: [(None, PH(z3.Const(name, H)))], desc="type hint")


def pvt(c, name):
    return c.args[name].t


# ------------------------------------------------- assumed library models --
def m_is_dataclass(ex, st, args, kwargs, node):
    v = args[0]
    if isinstance(v, PV):
        return [(st, VBool(sp.norm(V.is_DC(v.t))))]
    if isinstance(v, PTok) and v.what == "cls":
        return [(st, VBool(True))]
    return ex.havoc_call(st, "is_dataclass", args, node)


def m_fields(ex, st, args, kwargs, node):
    v = args[0]
    if isinstance(v, PV):
        s2 = ex.fork_raise(st, sp.norm(z3.Not(V.is_DC(v.t))), "TypeError")
        return [] if s2 is None else [(s2, PTok("fields", sp.norm(V.flds(v.t))))]
    if isinstance(v, PTok) and v.what == "cls":
        return [(st, PTok("clsfields", v.a))]
    return ex.havoc_call(st, "fields", args, node)


def m_b64encode(ex, st, args, kwargs, node):
    v = args[0]
    if isinstance(v, PTok) and v.what == "bin":
        return [(st, PTok("b64", v.a))]
    return ex.havoc_call(st, "b64encode", args, node)


def m_b64decode(ex, st, args, kwargs, node):
    v = args[0]
    if isinstance(v, PTok) and v.what == "enc":
        ex.exc_any(st.fork(), f"{ex.loc(node)} base64.b64decode (binascii.Error)")
        return [(st, PTok("bin", sp.UNB64(v.a)))]
    return ex.havoc_call(st, "b64decode", args, node)


def m_new_bytesio(ex, st, args, kwargs, node):
    v = args[0] if args else None
    if isinstance(v, PTok) and v.what == "bin":
        return [(st, PV(V.BytesIO(v.a)))]
    return ex.havoc_call(st, "io.BytesIO", args, node)


def m_get_origin(ex, st, args, kwargs, node):
    h = ex.to_ph(st, args[0])
    if h is None:
        return ex.havoc_call(st, "typing.get_origin", args, node)
    return [(st, PTok("origin", h))]


def m_get_args(ex, st, args, kwargs, node):
    h = ex.to_ph(st, args[0])
    if h is None:
        return ex.havoc_call(st, "typing.get_args", args, node)
    if z3.is_true(sp.norm(H.is_HOpt(h))):
        return [(st, VTuple([PH(sp.norm(H.oarg(h))), VType("NoneType")]))]
    return [(st, PTok("args", h))]


def m_get_type_hints(ex, st, args, kwargs, node):
    v = args[0]
    if isinstance(v, PTok) and v.what == "cls":
        ex.exc_any(st.fork(), f"{ex.loc(node)} typing.get_type_hints (NameError on an unresolvable annotation)")
        return [(st, PTok("hints", v.a))]
    return ex.havoc_call(st, "typing.get_type_hints", args, node)


def install_models(reg):
    reg.ext_models["dataclasses.is_dataclass"] = m_is_dataclass
    reg.ext_models["dataclasses.fields"] = m_fields
    reg.ext_models["base64.b64encode"] = m_b64encode
    reg.ext_models["base64.b64decode"] = m_b64decode
    reg.ext_models["typing.get_origin"] = m_get_origin
    reg.ext_models["typing.get_args"] = m_get_args
    reg.ext_models["typing.get_type_hints"] = m_get_type_hints
    reg.ext_models[("const", "io.BytesIO")] = VType("io.BytesIO")
    reg.ext_models[("new", "io.BytesIO")] = m_new_bytesio
    reg.ext_models[("const", "typing.Any")] = VType("typing.Any")
    reg.ext_models[("const", "typing.Union")] = VType("typing.Union")


# --------------------------------------------------------------- contracts --
def ser_loop_inv(lc):
    """for item in fields(value): result == {_type: class name} + the encoded processed prefix."""
    v = lc.entry.lookup("value").t
    b = lc.entry.lookup("include_binary").t
    res = lc.ex.to_pv(lc.st, lc["result"])
    if res is None:
        return F
    return res == V.Dict(KV.kcons(sv("_type"), V.Str(V.cls(v)), sp.SERKV(lc.extra["done"], b)))


def ser_loop_facts(ex, st, entry, step):
    """Instances of proved list lemmas (c05lemmas.L_lists / L_keys) at the current field."""
    done, fk, fv, rest = step
    b = entry.lookup("include_binary").t
    one = KV.kcons(fk, fv, KV.knil)
    xv = sp.SER(fv, b)
    sub = lambda e, *pairs: z3.substitute(e, *pairs)
    L = lem
    inst = [
        sub(L.DA(L.xk, L.k0, L.y, L.rk), (L.xk, done), (L.k0, fk), (L.y, fv), (L.rk, rest)),
        sub(L.HA(L.xk, L.rk, L.k0), (L.xk, done), (L.rk, KV.kcons(fk, fv, rest)), (L.k0, sv("_type"))),
        sub(L.SA(L.xk, L.k0, L.y, L.rk), (L.xk, done), (L.k0, fk), (L.y, fv), (L.rk, rest)),
        sub(L.HK(L.xk, L.k0), (L.xk, done), (L.k0, fk), (L.b, b)),
        sub(L.DS(L.xk, L.k0, L.y), (L.xk, sp.SERKV(done, b)), (L.k0, fk), (L.y, xv)),
        sub(L.MA(L.xk, L.rk), (L.xk, done), (L.rk, one), (L.b, b)),
    ]
    return inst


def ser_comp_specs(ex, st, n, kind, what):
    b = st.lookup("include_binary").t
    if what == "list":
        return {"elem": lambda e: sp.SER(e, b), "map": lambda l: sp.SERL(l, b),
                "facts": [lambda e, l: z3.substitute(lem.ME(lem.xl, lem.y), (lem.xl, l), (lem.y, e))], "mem": lambda e, l: sp.MEMV(l, e)}
    if what == "kv":
        return {"elem": lambda e: sp.SER(e, b), "key": lambda k: k, "map": lambda kv: sp.SERKV(kv, b),
                "facts": [lambda k, e, kv: z3.substitute(lem.MK(lem.xk, lem.k0, lem.y), (lem.xk, kv), (lem.k0, k), (lem.y, e))],
                "mem": lambda k, e, kv: sp.MEMKV(kv, k, e)}
    return None


def contracts(reg):
    install_models(reg)
    out = []

    # ---- base64 helpers (library: base64 / utf-8 are ASSUMED inverse pairs; see c05lemmas.AXIOMS)
    out.append(FnContract(
        target=f"{SER_PY}::_bytes_to_base64", params=[("data", p_pv(only=("Bytes",)))],
        returns=lambda c: VStr(sp.B64(V.bp(pvt(c, "data")))), note="base64 text of the payload"))

    def pos_restored(c):
        key = ("bytesio_pos", pvt(c, "buffer").get_id())
        a, b_ = c.entry.ghost.get(key), c.st.ghost.get(key)
        return z3.BoolVal(True) if a is None and b_ is None else (a == b_ if a is not None and b_ is not None else F)

    def materialise_pos(c):
        key = ("bytesio_pos", pvt(c, "buffer").get_id())
        if key not in c.st.ghost:
            p0 = z3.Int(fresh_name("pos0"))
            c.st.ghost[key] = p0
            c.entry.ghost[key] = p0
        return c.st.ghost[key] >= 0

    out.append(FnContract(
        target=f"{SER_PY}::_bytesio_to_base64", params=[("buffer", p_pv(only=("BytesIO",)))],
        hyps=materialise_pos,      # a stream position is a non-negative integer (library fact)
        returns=lambda c: VStr(sp.B64(V.iop(pvt(c, "buffer")))),
        ensures=[("stream-position-restored", pos_restored)],
        note="whole payload regardless of the current position; position restored"))
    out.append(FnContract(
        target=f"{SER_PY}::_base64_to_bytes", params=[("data", p_pv())],
        returns=lambda c: PV(V.Bytes(sp.UNB64(sp.STROF(pvt(c, "data"))))),
        raises=[Raises("Exception", sub=True, label="not base64 text")]))
    out.append(FnContract(
        target=f"{SER_PY}::_base64_to_bytesio", params=[("data", p_pv())],
        returns=lambda c: PV(V.BytesIO(sp.UNB64(sp.STROF(pvt(c, "data"))))),
        raises=[Raises("Exception", sub=True, label="not base64 text")]))

    # ---- the encoder
    c = FnContract(
        target=f"{SER_PY}::_serialize_for_json",
        params=[("value", p_pv()), ("include_binary", p_bool())],
        requires=lambda c: sp.SEROK(pvt(c, "value")),
        returns=lambda c: PV(sp.SER(pvt(c, "value"), c.args["include_binary"].t)),
        loops={0: LoopSpec(inv=ser_loop_inv, label="fields")},
        note="computes SER(value, include_binary): markers _type/_bytes/_bytesio, binary -> null when excluded")
    c.comp_specs = ser_comp_specs
    c.loop_facts = ser_loop_facts
    out.append(c)
    out.append(FnContract(
        target=f"{SER_PY}::serialize_extraction",
        params=[("value", p_pv()), ("include_binary", p_bool())],
        requires=lambda c: sp.SEROK(pvt(c, "value")),
        returns=lambda c: PV(sp.SX(pvt(c, "value"), c.args["include_binary"].t)),
        ensures=[("always-a-json-object", lambda c: V.is_Dict(c.ex.to_pv(c.st, c.result)) if c.ex.to_pv(c.st, c.result) is not None else F)],
        note="SER(value) if that is an object, else {'value': SER(value)}"))
    return out


def lemmas():
    return lem.all_lemmas()


TRUSTED = ["contracts/c05spec.norm (definitional rewriting of the spec functions)"]
ASSUMED_MODELS = ["dataclasses.is_dataclass / fields (instance: declared fields in order; class: field names)",
                  "base64.b64encode/b64decode and str.encode/bytes.decode('utf-8') are inverse pairs on base64 text",
                  "io.BytesIO tell/seek/read (ghost position; read() from position 0 returns the whole payload)"]
ASSUMPTIONS = ["PY-FLOAT-REAL: floats in V are finite reals (NaN/inf not modelled)",
               "mappings in V have string keys (registry obligation: every Dict hint has str keys); str(key) == key",
               "a set is encoded in its iteration order, which is fixed within a process (PY-HASHSEED)",
               "class objects are not values of V (isinstance(value, type) is False)"]
