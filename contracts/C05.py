"""C05 -- to_json is JSON-serialisable and from_json restores the same object.

Structure (DESIGN §3 C05, Appendix B):
 (a) the real `_serialize_for_json` / `_deserialize_value` / `_deserialize_dataclass` (and their helpers) are
     symbolically executed over the value universe of contracts/c05spec.py and shown to compute the spec
     functions SER / DESER (one alternative per value kind; recursion through the function's own contract;
     comprehensions element-wise; the loops by induction);
 (b) lemmas by induction over that universe (contracts/c05lemmas.py): json_ok(SER(v)); the round trip
     SER(DESER(SER(v),H)) == SER(v) with the same type name; binary exclusion nulls exactly the binary leaves;
 (c) the registry of dataclasses is re-derived from the AST of data_types.py on every run, every field hint
     is classified into a hint shape and must be a shape the lemmas cover (EXTRA `registry`);
 (d) cli._serialize_results / _serialize_unit_results: an object for one result, an array otherwise;
 (e) Any-typed fields: only JSON-able kinds are stored (xlsx._get_cell_value, xls._get_cell_values, ods).
Known finding F6 (marker keys in document content) is excluded from the round-trip lemma through
known_findings.json only; the unrestricted obligation is generated, fails, and is replayed on every run.
Round 7 (contracts/c05reflect.py): verified instead of assumed / syntactic / bounded-only --
 (f) `_get_type_registry` on its real body (processed-set induction over dir(data_types); module invariant "registry empty or complete");
 (g) `cli._build_parser` (--json / --json-unit / --binary are store_true switches under the attribute names main reads);
 (h) every concrete `to_json` (== SX(self, True), default of the real signature) and `ExtractionInterface.from_json` (== DESERDC(data));
 (i) `FileMetadataInterface.populate_from_path` (str into the four path fields), `__post_init__` idempotence, `_get_field_types`.
"""
import ast
import json
import os
import subprocess

import z3

from pyvc import loader, ops
from pyvc.contracts import FnContract, LoopSpec, Raises
from pyvc.flow import ground_obligation
from pyvc.values import NONE, VBool, VInt, VRef, VSeq, VStr, VTuple, VType, VUnk, fresh_name
from pyvc.verify import Maker, p_bool, p_int, p_str
from contracts import c05spec as sp
from contracts import c05lemmas as lem
from contracts.c05exec import marker, PH, PTok, PV, SerExecutor, DICTSUB, hname, istype, cls_name, tname, BUILTIN_CLASS_NAMES

SER_PY = "sharepoint2text/parsing/extractors/serialization.py"
DT_PY = "sharepoint2text/parsing/extractors/data_types.py"
CLI_PY = "sharepoint2text/cli.py"
XLSX_PY = "sharepoint2text/parsing/extractors/ms_modern/xlsx_extractor.py"
XLS_PY = "sharepoint2text/parsing/extractors/ms_legacy/xls_extractor.py"
ODS_PY = "sharepoint2text/parsing/extractors/open_office/ods_extractor.py"

V, VL, KV, SL, H = sp.V, sp.VL, sp.KV, sp.SL, sp.H
sv = sp.sv
T, F = z3.BoolVal(True), z3.BoolVal(False)

from contracts import c05reflect as rf


class C05Executor(rf.ReflectMixin, SerExecutor):
    """SerExecutor + the reflection rules of round 7 (dir / getattr over a repository module, the module-level registry)."""


EXECUTOR = C05Executor
EXECUTOR_KW = {}


# ------------------------------------------------------------ param makers --
def value_shapes(name, only=None):
    f = lambda s, srt: z3.Const(f"{name}.{s}", srt)
    shapes = [("None", V.Non), ("Bool", V.Bool(f("b", sp.B))), ("Int", V.Int(f("i", sp.I))), ("Float", V.Float(f("r", sp.R))),
              ("Str", V.Str(f("s", sp.S))), ("Bytes", V.Bytes(f("bytes", sp.Bin))), ("BytesIO", V.BytesIO(f("stream", sp.Bin))),
              ("List", V.List(f("items", VL))), ("Tuple", V.Tuple(f("titems", VL))), ("Set", V.Set(f("sitems", VL))),
              ("Dict", V.Dict(f("ents", KV))), ("DC", V.DC(f("cls", sp.S), f("flds", KV))), ("Other", V.Other(f("kind", sp.I)))]
    return [(n, t) for n, t in shapes if only is None or n in only]


def describe(model, t):
    """Readable rendering of a (small) value term under a model, for witnesses."""
    try:
        v = model.eval(t, model_completion=True)
        s_ = v.sexpr()
        return s_ if len(s_) < 400 else s_[:400] + "..."
    except Exception as e:  # noqa
        return f"<{e}>"


def p_pv(only=None, other_kinds=None):
    """A Python value, one alternative per kind (explicit constructor term with fresh components).
    other_kinds: the foreign object kinds (c05spec.K_*) that may occur."""
    def mk(ex, st, name):
        alts = []
        for n, t in value_shapes(name, only):
            cond = None
            if n == "Other" and other_kinds is not None:
                cond = z3.Or([V.kind(t) == k for k in other_kinds])
            alts.append((cond, PV(t)))
            if n == "Other":
                ex.witness_terms[name + ".kind-if-foreign-object"] = V.kind(t)
        return alts
    return Maker(mk, desc="any Python value (by kind)")


def static_ph(v):
    """Hint term of a class object / typing construct passed where a hint is expected."""
    if isinstance(v, PH):
        return v
    return PH(SerExecutor.to_ph(None, None, v)) if SerExecutor.to_ph(None, None, v) is not None else v


def p_hint(alts=None):
    def mk(ex, st, name):
        h = z3.Const(name, H)
        if alts == "optional-or-not":
            g = z3.Const(name + ".arg", H)
            return [(None, PH(H.HOpt(g))), (z3.Not(H.is_HOpt(h)), PH(h))]
        return [(None, PH(h))]
    return Maker(mk, desc="type hint", coerce=lambda v: (static_ph(v), None))


def p_cls_or_none():
    def mk(ex, st, name):
        return [(None, NONE), (None, PH(H.HCls(z3.String(name + ".name"))))]
    return Maker(mk, desc="Optional[class]", default=lambda ex, st: NONE, coerce=lambda v: (static_ph(v), None))


def pvt(c, name):
    return c.args[name].t


# ------------------------------------------------- assumed library models --
def m_is_dataclass(ex, st, args, kwargs, node):
    v = args[0]
    if isinstance(v, PV):
        return [(st, VBool(sp.norm(V.is_DC(v.t))))]
    if isinstance(v, PTok) and v.what == "cls":
        return [(st, VBool(True))]
    if isinstance(v, PTok) and v.what == "modattr":
        return [(st, VBool(rf.ISDC(v.b)))]
    return ex.havoc_call(st, "is_dataclass", args, node)


def m_fields(ex, st, args, kwargs, node):
    v = args[0]
    if isinstance(v, PV):
        s2 = ex.fork_raise(st, sp.norm(z3.Not(V.is_DC(v.t))), "TypeError")
        return [] if s2 is None else [(s2, PTok("fields", sp.norm(V.flds(v.t)), v.t))]
    if cls_name(v) is not None:
        return [(st, PTok("clsfields", cls_name(v)))]
    return ex.havoc_call(st, "fields", args, node)


def m_b64encode(ex, st, args, kwargs, node):
    v = args[0]
    b_ = ex.as_bin(st, v)
    if b_ is not None:                                                    # a bytes object in either representation
        return [(st, PTok("b64", b_))]
    return ex.havoc_call(st, "b64encode", args, node)


def m_b64decode(ex, st, args, kwargs, node):
    v = args[0]
    if isinstance(v, PV) and not kwargs:                                   # ASCII text is accepted as it is
        s2 = ex.fork_raise(st, sp.norm(z3.Not(V.is_Str(v.t))), "TypeError")
        if s2 is None:
            return []
        st, v = s2, PTok("enc", sp.norm(V.s(v.t)))
    elif isinstance(v, VStr) and not kwargs:
        v = PTok("enc", v.t)
    if isinstance(v, PTok) and v.what == "enc":
        ex.exc_any(st.fork(), f"{ex.loc(node)} base64.b64decode (binascii.Error)")
        return [(st, PTok("bin", sp.UNB64(v.a)))]
    return ex.havoc_call(st, "b64decode", args, node)


def m_new_bytesio(ex, st, args, kwargs, node):
    v = args[0] if args else None
    b_ = ex.as_bin(st, v) if v is not None else None
    if b_ is not None:
        return [(st, PV(V.BytesIO(b_)))]
    return ex.havoc_call(st, "io.BytesIO", args, node)


def m_get_origin(ex, st, args, kwargs, node):
    h = ex.to_ph(st, args[0])
    if h is None:
        return ex.havoc_call(st, "typing.get_origin", args, node)
    return [(st, PTok("origin", h))]


def m_get_args(ex, st, args, kwargs, node):
    h = ex.to_ph(st, args[0])
    if h is None:
        return ex.havoc_call(st, "typing.get_args", args, node)
    if z3.is_true(sp.norm(H.is_HOpt(h))):
        return [(st, VTuple([PH(sp.norm(H.oarg(h))), VType("NoneType")]))]
    return [(st, PTok("args", h))]


def m_get_type_hints(ex, st, args, kwargs, node):
    v = args[0]
    if cls_name(v) is not None:
        ex.exc_any(st.fork(), f"{ex.loc(node)} typing.get_type_hints (NameError on an unresolvable annotation)")
        return [(st, PTok("hints", cls_name(v)))]
    return ex.havoc_call(st, "typing.get_type_hints", args, node)


def registry_state_names():
    """Module-level names of serialization.py that start as an empty dict and are used by `_get_type_registry` (found by role)."""
    try:
        m = loader.module(SER_PY)
        fn = m.functions.get("_get_type_registry")
        used = {x.id for x in ast.walk(fn) if isinstance(x, ast.Name)} if fn is not None else set()
        out = []
        for nm_, e in m.assigns.items():
            empty = (isinstance(e, ast.Dict) and not e.keys) or (isinstance(e, ast.Call) and isinstance(e.func, ast.Name) and e.func.id == "dict"
                                                                    and not e.args and not e.keywords)
            if empty and nm_ in used:
                out.append(nm_)
        return out
    except Exception:  # noqa
        return []


def install_models(reg):
    install_cli_models(reg)
    rf.install_argparse(reg)
    for nm_ in registry_state_names():
        reg.module_consts[(SER_PY, nm_)] = PTok("typereg")
    reg.ext_models["dataclasses.is_dataclass"] = m_is_dataclass
    reg.ext_models["dataclasses.fields"] = m_fields
    reg.ext_models["base64.b64encode"] = m_b64encode
    reg.ext_models["base64.standard_b64encode"] = m_b64encode
    reg.ext_models["base64.b64decode"] = m_b64decode
    reg.ext_models["base64.standard_b64decode"] = m_b64decode
    reg.ext_models["typing.get_origin"] = m_get_origin
    reg.ext_models["typing.get_args"] = m_get_args
    reg.ext_models["typing.get_type_hints"] = m_get_type_hints
    for nm_ in ("binascii.a2b_base64",):
        reg.ext_models[nm_] = m_b64decode
    reg.ext_models["binascii.b2a_base64"] = lambda ex, st, args, kwargs, node: (
        m_b64encode(ex, st, args, {}, node) if isinstance(kwargs.get("newline"), VBool) and kwargs["newline"].const() is False
        else ex.havoc_call(st, "binascii.b2a_base64", args, node))
    from contracts.c05exec import TEMPORAL_CTORS

    def temporal(kind):
        def mk(ex, st, args, kwargs, node):
            ex.exc_any(st.fork(), f"{ex.loc(node)} temporal constructor")
            return [(st, PV(V.Other(z3.IntVal(kind))))]
        return mk
    for nm_, k_ in TEMPORAL_CTORS.items():
        reg.ext_models[nm_] = temporal(k_)
        reg.ext_models[("new", nm_)] = temporal(k_)
        reg.ext_models[("new", nm_.split(".")[-1])] = temporal(k_)
    reg.attr_models[("Elem", "attrib")] = lambda ex, st, o: PTok("attrib", o)
    reg.ext_models[("const", "io.BytesIO")] = VType("io.BytesIO")
    reg.ext_models[("new", "io.BytesIO")] = m_new_bytesio
    reg.ext_models[("const", "typing.Any")] = VType("typing.Any")
    reg.ext_models[("const", "typing.Union")] = VType("typing.Union")


# --------------------------------------------------------------- contracts --
def local_refs(lc, kinds):
    out = []
    for name, val in lc.st.frame.env.items():
        if isinstance(val, VRef) and lc.st.obj(val.ref).kind in kinds and not any(val.ref == o.ref for o in out):
            out.append(val)
    return out


ROLE_BY_FN = {}      # function name -> {role name used in this pack: the parameter's name in the real signature}


def fuc_param(st, name):
    """Current value of a parameter of the function under contract (frame 0), from inside a helper executed in place."""
    fr = st.frames[0]
    real = ROLE_BY_FN.get(getattr(fr.fnode, "name", None), {}).get(name, name)
    return fr.env[real]


class _Ctx:
    """Clause view of a CallCtx in which the parameters are also reachable under the role names this pack uses."""

    def __init__(self, c, roles):
        object.__setattr__(self, "_c", c)
        object.__setattr__(self, "_roles", roles)

    def __getattr__(self, k):
        c = object.__getattribute__(self, "_c")
        if k == "args":
            d = dict(c.args)
            for role, real in object.__getattribute__(self, "_roles").items():
                if real in d:
                    d[role] = d[real]
            return d
        return getattr(c, k)

    def __setattr__(self, k, v):
        setattr(object.__getattribute__(self, "_c"), k, v)

    def __getitem__(self, name):
        return self.args[name]


def _guard(fn, roles):
    """Pack callbacks never crash the check on an unexpected code shape: the function is reported out of the verified subset
    (-> native replay -> UNDECIDED), and they see renamed parameters under their role names."""
    from pyvc.ops import Unsupported
    if fn is None:
        return None

    def wrapped(c, *rest):
        try:
            return fn(_Ctx(c, roles) if roles and hasattr(c, "args") else c, *rest)
        except Unsupported:
            raise
        except Exception as e:  # noqa
            raise Unsupported(f"contract clause not applicable to this code shape ({type(e).__name__}: {e})")
    return wrapped


def bind_roles(contracts_):
    """Parameters are bound BY POSITION to the real signature: renaming a parameter of a function under contract keeps it verified."""
    for c in contracts_:
        roles = {}
        if "::" in c.target and not c.assumed:
            rel, qual = c.target.split("::")
            try:
                fn = loader.module(rel).functions.get(qual)
            except (OSError, SyntaxError):
                fn = None
            if fn is not None:
                real = [a.arg for a in fn.args.posonlyargs + fn.args.args + fn.args.kwonlyargs]
                mine = [p[0] for p in c.params]
                if len(real) == len(mine) and real != mine:
                    roles = {m_: r_ for m_, r_ in zip(mine, real) if m_ != r_}
                    c.params = [(r_, mk) for r_, (_m, mk) in zip(real, c.params)]
                    ROLE_BY_FN[fn.name] = roles
        c.requires, c.hyps, c.returns = _guard(c.requires, roles), _guard(c.hyps, roles), _guard(c.returns, roles)
        c.ensures = [(lbl, _guard(f, roles)) for lbl, f in c.ensures]
        for r in c.raises:
            r.when = _guard(r.when, roles)
        if c.result_maker is not None:
            rm = c.result_maker
            c.result_maker = (lambda rm_, roles_: lambda ex, st, ctx: rm_(ex, st, _Ctx(ctx, roles_) if roles_ else ctx))(rm, roles)
    return contracts_


def ser_loop_inv(lc):
    """for item in fields(value): result == {_type: class name} + the encoded processed prefix."""
    v = lc.extra["obj"]                              # the instance whose fields are iterated
    b = fuc_param(lc.st, "include_binary").t        # the flag of the function under contract (helpers must pass it on)
    acc = local_refs(lc, ("dict", "pvkv"))          # the accumulator: the one mapping this activation built (whatever its name)
    res = lc.ex.to_pv(lc.st, acc[0]) if len(acc) == 1 else None
    if res is None:
        return F
    return res == V.Dict(KV.kcons(sv("_type"), V.Str(V.cls(v)), sp.SERKV(lc.extra["done"], b)))


def ser_loop_facts(ex, st, entry, step):
    """Instances of proved list lemmas (c05lemmas.L_lists / L_keys) at the current field."""
    done, fk, fv, rest = step
    b = fuc_param(st, "include_binary").t
    one = KV.kcons(fk, fv, KV.knil)
    xv = sp.SER(fv, b)
    sub = lambda e, *pairs: z3.substitute(e, *pairs)
    L = lem
    inst = [
        sub(L.DA(L.xk, L.k0, L.y, L.rk), (L.xk, done), (L.k0, fk), (L.y, fv), (L.rk, rest)),
        sub(L.HA(L.xk, L.rk, L.k0), (L.xk, done), (L.rk, KV.kcons(fk, fv, rest)), (L.k0, sv("_type"))),
        sub(L.SA(L.xk, L.k0, L.y, L.rk), (L.xk, done), (L.k0, fk), (L.y, fv), (L.rk, rest)),
        sub(L.HK(L.xk, L.k0), (L.xk, done), (L.k0, fk), (L.b, b)),
        sub(L.DS(L.xk, L.k0, L.y), (L.xk, sp.SERKV(done, b)), (L.k0, fk), (L.y, xv)),
        sub(L.MA(L.xk, L.rk), (L.xk, done), (L.rk, one), (L.b, b)),
    ]
    return inst


def ser_comp_specs(ex, st, n, kind, what):
    b = fuc_param(st, "include_binary").t
    if what == "list":
        return {"elem": lambda e: sp.SER(e, b), "map": lambda l: sp.SERL(l, b),
                "facts": [lambda e, l: z3.substitute(lem.ME(lem.xl, lem.y), (lem.xl, l), (lem.y, e))], "mem": lambda e, l: sp.MEMV(l, e)}
    if what == "kv":
        return {"elem": lambda e: sp.SER(e, b), "key": lambda k: k, "map": lambda kv: sp.SERKV(kv, b),
                "facts": [lambda k, e, kv: z3.substitute(lem.MK(lem.xk, lem.k0, lem.y), (lem.xk, kv), (lem.k0, k), (lem.y, e))],
                "mem": lambda k, e, kv: sp.MEMKV(kv, k, e)}
    return None


# helpers whose contract exists only while the helper does (inlining a helper into its caller is a harmless edit: the caller's own
# contract then covers the inlined code)
OPTIONAL_HELPERS = {f"{SER_PY}::_get_field_types", f"{CLI_PY}::_build_parser"}


def post_report(c, rep):
    """Obligations that exist only while an optional helper does (its own, and the call-site preconditions of its contract in the
    callers) follow the code: checked and counted like any other, but not locked (`volatile`) -- inlining the helper is a harmless edit,
    and the caller's own locked obligations are the vacuity guard."""
    names = [t.split("::")[1] for t in OPTIONAL_HELPERS]
    for o in rep.obligations:
        if any(n in o.get("id", "") for n in names):
            o["volatile"] = True


def _exists(target):
    try:
        rel, qual = target.split("::")
        return loader.module(rel).functions.get(qual) is not None
    except Exception:  # noqa
        return True


def _b64_target(canon):
    """(target, oid_name) of one of the four base64 helpers: located by its role in the wire format (contracts/c05roles.py), so that a
    renamed private helper stays under its contract and keeps its obligation ids."""
    actual = canon
    try:
        from contracts.c05roles import b64_roles
        actual = b64_roles(loader.module(SER_PY).source).get(canon) or canon
    except Exception:  # noqa
        actual = canon
    return f"{SER_PY}::{actual}", (canon if actual != canon else None)


def contracts(reg):
    install_models(reg)
    out = []

    # ---- base64 helpers (library: base64 / utf-8 are ASSUMED inverse pairs; see c05lemmas.AXIOMS)
    out.append(FnContract(
        target=_b64_target("_bytes_to_base64")[0], oid_name=_b64_target("_bytes_to_base64")[1], params=[("data", p_pv(only=("Bytes",)))],
        returns=lambda c: VStr(sp.B64(V.bp(pvt(c, "data")))), note="base64 text of the payload"))

    def pos_restored(c):
        key = ("bytesio_pos", pvt(c, "buffer").get_id())
        a, b_ = c.entry.ghost.get(key), c.st.ghost.get(key)
        return z3.BoolVal(True) if a is None and b_ is None else (a == b_ if a is not None and b_ is not None else F)

    def materialise_pos(c):
        key = ("bytesio_pos", pvt(c, "buffer").get_id())
        if key not in c.st.ghost:
            p0 = z3.Int(fresh_name("pos0"))
            c.st.ghost[key] = p0
            c.entry.ghost[key] = p0
        return c.st.ghost[key] >= 0

    out.append(FnContract(
        target=_b64_target("_bytesio_to_base64")[0], oid_name=_b64_target("_bytesio_to_base64")[1], params=[("buffer", p_pv(only=("BytesIO",)))],
        hyps=materialise_pos,      # a stream position is a non-negative integer (library fact)
        returns=lambda c: VStr(sp.B64(V.iop(pvt(c, "buffer")))),
        ensures=[("stream-position-restored", pos_restored)],
        note="whole payload regardless of the current position; position restored"))
    out.append(FnContract(
        target=_b64_target("_base64_to_bytes")[0], oid_name=_b64_target("_base64_to_bytes")[1], params=[("data", p_pv())],
        returns=lambda c: PV(V.Bytes(sp.UNB64(sp.STROF(pvt(c, "data"))))),
        raises=[Raises("Exception", sub=True, label="not base64 text")]))
    out.append(FnContract(
        target=_b64_target("_base64_to_bytesio")[0], oid_name=_b64_target("_base64_to_bytesio")[1], params=[("data", p_pv())],
        returns=lambda c: PV(V.BytesIO(sp.UNB64(sp.STROF(pvt(c, "data"))))),
        raises=[Raises("Exception", sub=True, label="not base64 text")]))

    # ---- the encoder
    c = FnContract(
        target=f"{SER_PY}::_serialize_for_json",
        params=[("value", p_pv()), ("include_binary", p_bool())],
        requires=lambda c: sp.SEROK(pvt(c, "value")),
        returns=lambda c: PV(sp.SER(pvt(c, "value"), c.args["include_binary"].t)),
        note="computes SER(value, include_binary): markers _type/_bytes/_bytesio, binary -> null when excluded")
    c.comp_specs = ser_comp_specs
    c.loop_facts = ser_loop_facts
    c.fields_loop = LoopSpec(inv=ser_loop_inv, label="fields")      # whichever loop iterates fields(<instance>)
    out.append(c)
    out.append(FnContract(
        target=f"{SER_PY}::serialize_extraction",
        params=[("value", p_pv()), ("include_binary", p_bool_sig(SER_PY, "serialize_extraction", 1))],
        requires=lambda c: sp.SEROK(pvt(c, "value")),
        returns=lambda c: PV(sp.SX(pvt(c, "value"), c.args["include_binary"].t)),
        ensures=[("always-a-json-object", lambda c: V.is_Dict(c.ex.to_pv(c.st, c.result)) if c.ex.to_pv(c.st, c.result) is not None else F)],
        note="SER(value) if that is an object, else {'value': SER(value)}"))
    out.extend(decoder_contracts())
    out.extend(method_contracts())
    try:
        rf.install_pathlib(reg)
        pf = f"{DT_PY}::FileMetadataInterface.populate_from_path"
        if _exists(pf):
            out.append(rf.populate_contract(pf, Maker, FnContract, Raises))
    except Exception:  # noqa  (the pack's contracts() never lets an exception escape)
        pass
    try:
        rf.install_strip(reg)
        out.extend(rf.post_init_contracts(loader.module(DT_PY), DT_PY, Maker, FnContract, Raises))
    except Exception:  # noqa
        pass
    out.extend(cli_contracts())
    out.extend(store_site_contracts(reg))
    out = [c_ for c_ in out if not (c_.target in OPTIONAL_HELPERS and not _exists(c_.target))]
    return bind_roles(out)


def p_bool_sig(rel, qual, pos):
    """A Boolean parameter whose call-site default is the one the REAL signature declares (read off the AST on every run: a changed
    default changes what callers that omit the argument get).  No literal Boolean default -> no default (callers must pass it)."""
    mk = p_bool()
    try:
        fn = loader.module(rel).functions.get(qual)
        a = fn.args
        params = a.posonlyargs + a.args
        defaults = [None] * (len(params) - len(a.defaults)) + list(a.defaults)
        allp = list(zip(params, defaults)) + list(zip(a.kwonlyargs, a.kw_defaults))
        d = allp[pos][1]
        if isinstance(d, ast.Constant) and isinstance(d.value, bool):
            val = d.value
            return Maker(mk.fn, desc=f"bool (default {val} from the signature)", default=lambda ex, st: VBool(val))
    except Exception:  # noqa
        pass
    return mk


def method_contracts():
    """Round 7: the public methods themselves under contract (before: a syntactic `glue` pattern).  Every concrete `to_json` of
    data_types.py returns SX(self, True) -- the full encoding, binary payloads included -- and `ExtractionInterface.from_json`
    is DESERDC of its argument; both verified on their real bodies through the contracts of serialize_extraction /
    deserialize_extraction (argument defaults are those of the real signatures)."""
    from pyvc.verify import p_unk
    out = []
    try:
        m = loader.module(DT_PY)
    except (OSError, SyntaxError):
        return out
    for q, fn in m.functions.items():
        if "<locals>" in q or "." not in q:
            continue
        body = [b for b in fn.body if not (isinstance(b, ast.Expr) and isinstance(b.value, ast.Constant))]
        nparams = len(fn.args.posonlyargs + fn.args.args)
        if q.endswith(".to_json") and body and nparams == 1 and not fn.args.kwonlyargs:
            out.append(FnContract(
                target=f"{DT_PY}::{q}", params=[("self", p_pv(only=("DC",)))],
                requires=lambda c: sp.SEROK(pvt(c, "self")),
                returns=lambda c: PV(sp.SX(pvt(c, "self"), T)),
                note="to_json() == SX(self, include_binary=True): the complete encoding of the instance"))
        if q.endswith(".from_json") and body and nparams == 2:
            out.append(FnContract(
                target=f"{DT_PY}::{q}", params=[("cls", p_unk()), ("data", p_pv())],
                requires=lambda c: sp.JOK(pvt(c, "data")),
                returns=lambda c: PV(sp.DESERDC(V.ents(pvt(c, "data")), sp.NOCLS)),
                raises=[Raises("ValueError", when=lambda c: z3.Or(z3.Not(V.is_Dict(pvt(c, "data"))), z3.Not(sp.HASKEY(V.ents(pvt(c, "data")), sv("_type")))),
                               label="not an object with a _type marker"),
                        Raises("Exception", sub=True, when=lambda c: z3.And(V.is_Dict(pvt(c, "data")), sp.HASKEY(V.ents(pvt(c, "data")), sv("_type"))),
                               label="malformed encoding")],
                note="from_json(data) == DESERDC(data): the class named by _type, every declared field decoded by its hint"))
    return out


# ------------------------------------------------------------- the decoder --
def registry_env():
    """Facts about the reflective registry that the decoder relies on.  Each is an obligation of the registry
    section (EXTRA `registry`, re-derived from data_types.py on every run):
    no registered dataclass is named like a builtin class; every declared field hint is a covered shape."""
    cq, fq = z3.String("c!env"), z3.String("f!env")
    return [z3.Not(sp.REG(sv(n))) for n in BUILTIN_CLASS_NAMES + ("",)] + \
           [z3.ForAll([cq, fq], sp.COV(sp.FH(cq, fq)), patterns=[sp.FH(cq, fq)])]


def cov_defs(h):
    """Definition of COV at a symbolic hint and at the argument of an outer Optional / union."""
    return [sp.defn(sp.COV(h)), sp.defn(sp.COV(H.oarg(h))), sp.defn(sp.COV(H.uarg(h)))]


def hint_argument(ex, st, expr):
    """The hint the element expression passes to the recursive decoder call (whatever the local is called)."""
    calls = [x for x in ast.walk(expr) if isinstance(x, ast.Call) and len(x.args) == 2]
    if len(calls) != 1:
        return None
    r = ex.ev(calls[0].args[1], st.fork())
    return ex.to_ph(st, r[0][1]) if len(r) == 1 else None


def dv_comp_specs(ex, st, n, kind, what):
    if what == "list":
        it = hint_argument(ex, st, n.elt)
        if it is None:
            return None
        return {"elem": lambda e: sp.DESER(e, it), "map": lambda l: sp.DESERL(l, it)}
    if what == "kv":
        vt = hint_argument(ex, st, n.value)
        if vt is None:
            return None
        return {"elem": lambda e: sp.DESER(e, vt), "key": lambda k: k, "map": lambda kv: sp.DESERKV(kv, vt)}
    return None


def exp_name(c):
    e = c.args["expected_class"]
    return sp.NOCLS if e is NONE or not isinstance(e, PH) else sp.norm(hname(e.t))


def kw_invariant(seen, has, val, j, cn):
    """kwargs holds exactly the decoded entries of the processed field names that occur in the data."""
    return lem._kwinv(seen, has, val, j, cn)


def all_seen(seen, cn):
    return lem._allseen(seen, cn)


def dd_loop_inv(lc):
    kws = local_refs(lc, ("pvmap",))                 # the keyword dictionary filled by the loop (whatever its name)
    if len(kws) != 1:
        return F
    has, val = lc.st.obj(kws[0].ref).data
    data = lc["data"]
    cn = lc.extra["cls"]
    if not isinstance(data, PV):
        return F
    lc.st.ghost["kw_loop"] = (lc.extra["seen"], has, val, V.ents(data.t), cn)
    return kw_invariant(lc.extra["seen"], has, val, V.ents(data.t), cn)


def dd_construct_facts(ex, st, cn, has, val):
    """Instance of lemma `constructor-from-keywords` (c05lemmas.L_build) at the keyword map of the loop."""
    g = st.ghost.get("kw_loop")
    if g is None:
        return []
    seen, has0, val0, j, cn0 = g
    return [lem.BM_all(seen, has, val, j, cn)]


def dd_nameset_comp(ex, st, cn, nm, cond, vt, has, val):
    """The keyword map written as a comprehension: when filter and value are `name in data` / the decoded entry, it is exactly
    the map the field loop builds (the loop's exit invariant), so the same lemma instance applies."""
    if not (z3.is_app(cond) and cond.decl().name() == "HASKEY" and cond.num_args() == 2 and cond.arg(1).eq(nm)):
        return False
    j = cond.arg(0)
    if not vt.eq(sp.norm(sp.DESER(sp.GET(j, nm), sp.FH(cn, nm)))):
        return False
    seen = z3.Const(fresh_name("allseen"), z3.ArraySort(sp.S, sp.B))
    st.assume(all_seen(seen, cn))
    st.assume(kw_invariant(seen, has, val, j, cn))
    st.ghost["kw_loop"] = (seen, has, val, j, cn)
    return True


def decoder_contracts():
    out = []
    site = lambda f: (lambda c: T if getattr(c, "at_call_site", False) else f(c))
    c = FnContract(
        target=f"{SER_PY}::_get_type_registry", params=[],
        hyps=site(rf.entry_state),
        ensures=[("result-is-exactly-the-dataclass-classes-of-data_types", site(rf.result_complete)),
                 ("published-registry-is-complete", site(rf.published_complete))],
        result_maker=lambda ex, st, ctx: PTok("registry"),
        note="VERIFIED (round 7; was assumed): for every name q, q is a key iff REG(q) := q in dir(data_types) and the attribute is a class and "
             "a dataclass, and the value is the object bound to q; the module-level registry is left complete (module invariant: empty or "
             "complete, so later calls return it as it is).  Call sites see the token `registry` (q in registry == REG(q), registry[q] = the "
             "class bound to q), which this postcondition implies.  Still assumed: dir / getattr / isinstance(type) / is_dataclass as "
             "predicates INDIR / ISCLS / ISDC on names (contracts/c05reflect.py); content cross-checked natively on every run")
    c.dirnames_loop = LoopSpec(inv=rf.dirnames_inv, label="dir")
    out.append(c)
    out.append(FnContract(
        target=f"{SER_PY}::_get_field_types", params=[("cls", p_hint())],
        requires=lambda c: z3.And(H.is_HCls(pvt(c, "cls")), sp.REG(H.cname(pvt(c, "cls")))),
        returns=lambda c: PTok("hints", cls_name(c.args["cls"])),
        raises=[Raises("Exception", sub=True, label="typing.get_type_hints: unresolvable annotation")],
        note="the resolved annotations of the class, nothing else (relative to the assumed typing.get_type_hints)"))
    out.append(FnContract(
        target=f"{SER_PY}::_unwrap_optional", params=[("tp", p_hint("optional-or-not"))],
        returns=lambda c: VTuple([PH(z3.If(H.is_HOpt(pvt(c, "tp")), H.oarg(pvt(c, "tp")), pvt(c, "tp"))), VBool(H.is_HOpt(pvt(c, "tp")))]),
        note="Optional[X] -> (X, True); anything else (including X | None on Python < 3.14) -> (tp, False)"))
    c = FnContract(
        target=f"{SER_PY}::_deserialize_value",
        params=[("value", p_pv()), ("expected_type", p_hint())],
        requires=lambda c: sp.COV(pvt(c, "expected_type")),
        hyps=lambda c: z3.And([lem.COVH(pvt(c, "expected_type"))] + cov_defs(pvt(c, "expected_type")) + registry_env()),
        returns=lambda c: PV(sp.DESER(pvt(c, "value"), pvt(c, "expected_type"))),
        raises=[Raises("Exception", sub=True, label="malformed encoding (not produced by to_json)")],
        note="computes DESER(value, expected_type) on normal return")
    c.comp_specs = dv_comp_specs
    out.append(c)
    c = FnContract(
        target=f"{SER_PY}::_deserialize_dataclass",
        params=[("data", p_pv(only=("Dict",))), ("expected_class", p_cls_or_none())],
        requires=lambda c: T if c.args["expected_class"] is NONE else z3.And(H.is_HCls(pvt(c, "expected_class")), sp.REG(H.cname(pvt(c, "expected_class")))),
        hyps=lambda c: z3.And(registry_env()),
        returns=lambda c: PV(sp.DESERDC(V.ents(pvt(c, "data")), exp_name(c))),
        raises=[Raises("Exception", sub=True, label="malformed encoding (not produced by to_json)")],
        note="the class named by _type (if registered) else the expected class, every declared field decoded by its hint")
    c.construct_facts = dd_construct_facts
    c.nameset_comp = dd_nameset_comp
    c.nameset_loop = LoopSpec(inv=dd_loop_inv, label="fields")    # whichever loop iterates the set of field names
    out.append(c)
    out.append(FnContract(
        target=f"{SER_PY}::deserialize_extraction", params=[("data", p_pv())],
        requires=lambda c: sp.JOK(pvt(c, "data")),       # the argument of from_json is a parsed JSON document
        returns=lambda c: PV(sp.DESERDC(V.ents(pvt(c, "data")), sp.NOCLS)),
        raises=[Raises("ValueError", when=lambda c: z3.Or(z3.Not(V.is_Dict(pvt(c, "data"))), z3.Not(sp.HASKEY(V.ents(pvt(c, "data")), sv("_type")))),
                       label="not an object with a _type marker"),
                Raises("Exception", sub=True, when=lambda c: z3.And(V.is_Dict(pvt(c, "data")), sp.HASKEY(V.ents(pvt(c, "data")), sv("_type"))),
                       label="malformed encoding")],
        note="from_json: objects carrying _type only"))
    return out


# ------------------------------------------------------------------- CLI --
RES = z3.Function("RESULT", sp.I, V)


def p_results():
    def mk(ex, st, name):
        n = z3.Int(name + ".len")
        return [(n >= 0, VSeq(n, lambda i: PV(RES(i)), "result"))]
    return Maker(mk, desc="list of extraction results (symbolic length)")


def results_encodable(c):
    i = z3.Int("i!res")
    return z3.ForAll([i], sp.SEROK(RES(i)), patterns=[RES(i)])


from pyvc.values import VExt, ext_sort
ARGS = ext_sort("CliArgs")
A_JSON, A_UNIT, A_BIN = (z3.Function(n_, ARGS, z3.BoolSort()) for n_ in ("args_json", "args_json_unit", "args_binary"))


def main_contract(res_spec, unit_spec):
    """cli.main, JSON modes: what is written to stdout is json.dumps(<shaped payload>) with the standard encoder's defaults,
    then a newline; the payload is that of _serialize_unit_results (--json-unit) / _serialize_results (--json) with
    include_binary == --binary.  Executed in abstract mode (argument parsing, file system, extraction are EXC-ANY models);
    private helpers of cli.py are executed in place."""
    from pyvc.verify import p_unk

    def read_file_result(ex, st, ctx):
        n = z3.Int(fresh_name("n_results"))
        st.assume(n >= 0)
        i = z3.Int("i!res")
        st.assume(z3.ForAll([i], sp.SEROK(RES(i)), patterns=[RES(i)]))
        st.ghost["cli_results_n"] = n
        return VSeq(n, lambda k: PV(RES(k)), "result")

    def stdout_is_shaped_json(c):
        g = c.st.ghost
        code = c.result.const() if hasattr(c.result, "const") else None
        if code != 0:
            return T                                        # failures: C01's business
        a = g.get("cli_args")
        # print(x) to stdout (no file= / file=sys.stdout, default sep and end) is write(x); write("\n")
        events = list(g.get("stdout_events", []))
        for pargs, pfile in g.get("prints", ()):
            if pfile is None or (hasattr(pfile, "a") and getattr(pfile, "a", None) == "sys.stdout"):
                events.append(("print", pargs[0] if len(pargs) == 1 else NONE))
        g2 = dict(g, stdout_events=events)
        writes = stdout_pieces(c.ex, c.st, g2)
        if a is None:
            c.note = "arguments were not parsed on this path"
            return F
        jsonmode = z3.Or(A_JSON(a), A_UNIT(a))
        dumped = g.get("json_dumped", {})
        if writes is not None and len(writes) == 2 and writes[0].get_id() in dumped and z3.is_string_value(writes[1]) and writes[1].as_string() == "\n":
            val, kws = dumped[writes[0].get_id()]
            if kws:
                c.note = f"json.dumps called with {sorted(kws)}: not the standard encoder's defaults (ensure_ascii etc.)"
                return z3.And(z3.Not(jsonmode), marker(UNMODELLED))
            n = g.get("cli_results_n")
            if n is None:
                return F
            b = A_BIN(a)
            eq = lambda spec: z3.And([z3.Implies(cond, c.ex._eqv(c.st, val, want)) for cond, want in spec])
            return z3.Implies(jsonmode, z3.If(A_UNIT(a), eq(unit_spec(n, b)), eq(res_spec(n, b))))
        c.note = f"{len(writes) if writes is not None else '?'} piece(s) written to stdout that are not `json.dumps(payload)` + newline"
        return z3.Not(jsonmode)

    out = [FnContract(target="sharepoint2text/__init__.py::read_file", params=[("path", p_unk())], assumed=True,
                      result_maker=read_file_result, may_raise_any=True,
                      note="yields the extraction results (a finite sequence of encodable dataclass instances) or raises"),
           FnContract(target=f"{CLI_PY}::_build_parser", params=[], result_maker=lambda ex, st, ctx: VExt("CliParser"),
                      ensures=[("json-json_unit-binary-are-store_true-switches",
                                lambda c: T if getattr(c, "at_call_site", False) else rf.parser_flags(c, CLI_FLAGS))],
                      note="VERIFIED (round 7; was assumed): every add_argument call of the real body is recorded; --json / --json-unit / "
                           "--binary are declared once each as store_true switches stored under json / json_unit / binary (what main reads), "
                           "which is what the call-site view (parser whose namespace has these three Booleans) needs.  argparse itself "
                           "stays an assumed library (contracts/c05reflect.install_argparse)"),
           FnContract(target=f"{CLI_PY}::main", params=[("argv", p_unk())],
                      ensures=[("stdout-is-json-dumps-of-the-shaped-payload", stdout_is_shaped_json)],
                      raises=[Raises("Exception", sub=True), Raises("SystemExit")],
                      note="--json / --json-unit (--binary): stdout == json.dumps(payload) + newline, payload shaped as specified")]
    EXECUTOR_KW[f"{CLI_PY}::main"] = {"abstract": True, "inline_calls": False, "inline_local": True}
    return out


CLI_FLAGS = {"--json": "json", "--json-unit": "json_unit", "--binary": "binary"}
JSON_DUMPS_DEFAULTS = {"skipkeys": False, "ensure_ascii": True, "check_circular": True, "allow_nan": True, "cls": None, "indent": None,
                       "separators": None, "default": None, "sort_keys": False}


def non_default_dumps_kwargs(kwargs):
    """Keyword arguments of json.dumps that differ (or may differ) from the standard encoder's defaults."""
    out = {}
    for k, v in kwargs.items():
        if k == "obj":
            continue
        if k in JSON_DUMPS_DEFAULTS:
            want = JSON_DUMPS_DEFAULTS[k]
            if want is None and v is NONE:
                continue
            if isinstance(want, bool) and isinstance(v, VBool) and v.const() is want:
                continue
        out[k] = v
    return out


def stdout_pieces(ex, st, g):
    """What reached stdout on this path, as a flat list of string pieces: sys.stdout.write(a + b) == write(a); write(b);
    print(x) == write(x); write('\\n') (file omitted / sys.stdout, default sep / end)."""
    events = list(g.get("stdout_events", []))
    pieces = []

    def flat(t):
        if z3.is_app(t) and t.decl().kind() == z3.Z3_OP_SEQ_CONCAT:
            for ch in t.children():
                flat(ch)
        else:
            pieces.append(t)
    for kind, val in events:
        if not isinstance(val, VStr):
            return None
        flat(val.t)
        if kind == "print":
            pieces.append(z3.StringVal("\n"))
    return pieces


def install_cli_models(reg):
    def m_parse(ex, st, obj, args, kwargs, node):
        ex.raise_in(ex.mark(st.fork()), ex.mk_exc("SystemExit"))
        a = VExt("CliArgs")
        st.ghost["cli_args"] = a.t
        n = z3.Int(fresh_name("n_unknown"))
        st.assume(n >= 0)
        return [(st, VTuple([a, VSeq(n, lambda i: VUnk("arg"), "str")]))]

    def m_write(ex, st, args, kwargs, node):
        ex.exc_any(st.fork(), f"{ex.loc(node)} sys.stdout.write")
        st.ghost["stdout_events"] = st.ghost.get("stdout_events", []) + [("write", args[0] if args else NONE)]
        return [(st, VUnk("n"))]

    def m_dumps(ex, st, args, kwargs, node):
        ex.exc_any(st.fork(), f"{ex.loc(node)} json.dumps")
        t = VStr(z3.String(fresh_name("json_text")))
        d = dict(st.ghost.get("json_dumped", {}))
        d[t.t.get_id()] = (args[0] if args else kwargs.get("obj", NONE), non_default_dumps_kwargs(kwargs))
        st.ghost["json_dumped"] = d
        st.ghost.setdefault("_keep", []).append(t.t)
        return [(st, t)]

    reg.method_models[("CliParser", "parse_known_args")] = m_parse
    reg.method_models[("CliParser", "parse_args")] = lambda ex, st, obj, args, kwargs, node: [(s_, v.items[0]) for s_, v in m_parse(ex, st, obj, args, kwargs, node)]
    reg.attr_models[("CliArgs", "json")] = lambda ex, st, o: VBool(A_JSON(o.t))
    reg.attr_models[("CliArgs", "json_unit")] = lambda ex, st, o: VBool(A_UNIT(o.t))
    reg.attr_models[("CliArgs", "binary")] = lambda ex, st, o: VBool(A_BIN(o.t))
    reg.ext_models["sys.stdout.write"] = m_write
    reg.ext_models["json.dumps"] = m_dumps


def cli_contracts():
    from contracts.c05exec import UNIT, UNITS_N
    n_of = lambda c: c.args["results"].length
    b_of = lambda c: c.args["include_binary"].t
    out = []
    out.append(FnContract(
        target=f"{CLI_PY}::_serialize_results", params=[("results", p_results()), ("include_binary", p_bool())],
        requires=results_encodable,
        returns=lambda c: [(n_of(c) == 1, PV(sp.SX(RES(z3.IntVal(0)), b_of(c)))),
                           (n_of(c) != 1, VSeq(n_of(c), lambda i, c=c: PV(sp.SX(RES(i), b_of(c))), "object"))],
        ensures=[("one-result-is-an-object", lambda c: z3.Implies(n_of(c) == 1, z3.BoolVal(isinstance(c.result, PV)) if not isinstance(c.result, PV)
                                                                  else V.is_Dict(c.result.t)))],
        note="--json: the to_json object for exactly one result, otherwise the array of the to_json objects, in order"))
    units = lambda c, r: VSeq(UNITS_N(r), lambda i, c=c, r=r: PV(sp.SX(UNIT(r, i), b_of(c))), "unit object")
    res_spec = lambda n, b: [(n == 1, PV(sp.SX(RES(z3.IntVal(0)), b))), (n != 1, VSeq(n, lambda i, b=b: PV(sp.SX(RES(i), b)), "object"))]
    units_b = lambda b, r: VSeq(UNITS_N(r), lambda i, b=b, r=r: PV(sp.SX(UNIT(r, i), b)), "unit object")
    unit_spec = lambda n, b: [(n == 1, units_b(b, RES(z3.IntVal(0)))), (n != 1, VSeq(n, lambda j, b=b: units_b(b, RES(j)), "array of unit objects"))]
    out.extend(main_contract(res_spec, unit_spec))
    out.append(FnContract(
        target=f"{CLI_PY}::_serialize_unit_results", params=[("results", p_results()), ("include_binary", p_bool())],
        requires=results_encodable,
        returns=lambda c: [(n_of(c) == 1, units(c, RES(z3.IntVal(0)))),
                           (n_of(c) != 1, VSeq(n_of(c), lambda j, c=c: units(c, RES(j)), "array of unit objects"))],
        raises=[Raises("Exception", sub=True, label="iterate_units() of a result failed (outside C05)")],
        note="--json-unit: the array of unit objects for one result, otherwise one such array per result"))
    return out


# ------------------------------------------------- Any-typed store sites --
UNMODELLED = "c05!value-of-unmodelled-kind"


def _untrusted(pc, goal):
    """Policy of this pack: a `sat` answer never becomes a VIOLATION by itself.  The VCs mention spec functions that stay
    folded on symbolic arguments, values of unmodelled calls and marks of over-approximated paths, so a model may be an
    artefact of the encoding (measured: behaviour-preserving refactorings gave such models).  Every non-proved obligation is
    `unknown`; the native replayer (function-level differential against the executable SER/DESER contract, directed
    document / CLI scopes) then either produces a failing input on the real code (VIOLATION with replay) or the obligation
    is UNDECIDED.  Proofs (`unsat`) are unaffected."""
    return True


from pyvc import solve as _solve
if _untrusted not in _solve.SAT_UNTRUSTED:
    _solve.SAT_UNTRUSTED.append(_untrusted)


def result_scalar(c, idx=None):
    r = c.result
    if idx is not None:
        if not isinstance(r, VTuple) or len(r.items) <= idx:
            return F
        r = r.items[idx]
    t = c.ex.to_pv(c.st, r)
    if t is None and isinstance(r, VUnk):
        c.note = f"the stored value comes from an unmodelled call ({r.tag})"
        return marker(UNMODELLED)
    return sp.scalar_ok(t) if t is not None else F


def m_xldate_as_tuple(ex, st, args, kwargs, node):
    ex.exc_any(st.fork(), f"{ex.loc(node)} xlrd.xldate_as_tuple (XLDateError)")
    return [(st, VTuple([VInt(z3.Int(fresh_name("dt"))) for _ in range(6)]))]


XLRD_CTYPES = {"XL_CELL_EMPTY": 0, "XL_CELL_TEXT": 1, "XL_CELL_NUMBER": 2, "XL_CELL_DATE": 3, "XL_CELL_BOOLEAN": 4, "XL_CELL_ERROR": 5, "XL_CELL_BLANK": 6}


def p_xlrd_cell():
    """xlrd.sheet.Cell (ASSUMED library contract): ctype in 0..6; value is '' (empty/blank), str (text), float (number, date),
    int (boolean 0/1, error code)."""
    from pyvc.state import HeapObj

    def mk(ex, st, name):
        out = []
        for ctype, shape in ((0, "Str"), (6, "Str"), (1, "Str"), (2, "Float"), (3, "Float"), (4, "Int"), (5, "Int")):
            t = dict(value_shapes(f"{name}.value"))[shape]
            ref = st.alloc(HeapObj("obj", {"ctype": VInt(ctype), "value": PV(t)}, "Cell", fresh=False), ex.refs)
            out.append((None, VRef(ref)))
        return out
    return Maker(mk, desc="xlrd Cell")


def store_site_contracts(reg):
    from pyvc.verify import p_unk
    for k, v in XLRD_CTYPES.items():
        reg.ext_models[("const", f"xlrd.{k}")] = VInt(v)
    reg.ext_models["xlrd.xldate_as_tuple"] = m_xldate_as_tuple
    out = []
    out.append(FnContract(
        target=f"{XLSX_PY}::_get_cell_value",
        params=[("cell_value", p_pv(only=("None", "Bool", "Int", "Float", "Str", "Other"),
                                    other_kinds=(sp.K_DATETIME, sp.K_DATE, sp.K_TIME, sp.K_TIMEDELTA)))],
        ensures=[("json-able-scalar-into-Any-field", lambda c: result_scalar(c))],
        raises=[Raises("Exception", sub=True, label="failures of the normaliser are C01's business")],
        note="what XlsxSheet.data (List[List[Any]] / TableData.data) receives: None/bool/int/float/str only. Input kinds: the value "
             "types openpyxl's reader produces (None, bool, int, float, str, datetime, date, time, timedelta)"))
    out.append(FnContract(
        target=f"{XLS_PY}::_get_cell_values",
        params=[("cell", p_xlrd_cell()), ("workbook", p_unk())],
        ensures=[("json-able-scalar-into-Any-field", lambda c: result_scalar(c, 0))],
        raises=[Raises("Exception", sub=True, label="failures of the normaliser are C01's business")],
        note="what XlsSheet.data (List[Dict[str, Any]]) receives as value: None/bool/int/float/str only"))
    from contracts import etree_model
    from contracts.c02_etree_model import p_elem
    etree_model.install(reg)
    out.append(FnContract(
        target=f"{ODS_PY}::_extract_cell_value", params=[("cell", p_elem())],
        ensures=[("json-able-scalar-into-Any-field", lambda c: result_scalar(c, 0))],
        raises=[Raises("Exception", sub=True, label="malformed attribute values (OverflowError of int(inf) etc.): outside C05")],
        note="what OdsSheet.data (List[List[Any]]) receives: the first component is None/bool/int/float/str on every path "
             "(the cell is an abstract xml element: every value-type / attribute text)"))
    EXECUTOR_KW[f"{ODS_PY}::_extract_cell_value"] = {"inline_calls": False, "abstract": True, "inline_local": True}
    return out


# ----------------------------------------------------------- the registry --
def hint_term(shape):
    k = shape[0]
    if k == "any":
        return H.HAny
    if k == "prim":
        return H.HPrim(shape[1])
    if k == "bytes":
        return H.HBytes
    if k == "bytearray":
        return H.HBytearray
    if k == "bytesio":
        return H.HBytesIO
    if k == "opt":
        return H.HOpt(hint_term(shape[1]))
    if k == "u604":
        return H.H604(hint_term(shape[1]))
    if k == "list":
        return H.HList(hint_term(shape[1]))
    if k == "listbare":
        return H.HListBare
    if k == "dict":
        return H.HDict(hint_term(shape[1]), hint_term(shape[2]))
    if k == "dictbare":
        return H.HDictBare
    if k == "cls":
        return H.HCls(sv(shape[1]))
    return None


def shape_problems(shape, known_classes):
    """Reasons why a hint shape is outside what the lemmas cover ([] = covered), second: definite?"""
    from contracts import c05registry as R
    t = hint_term(shape)

    def others(s_):
        if s_[0] in ("other", "none", "classvar"):
            return [s_]
        return [x for sub in s_[1:] if isinstance(sub, tuple) for x in others(sub)]

    def clss(s_):
        if s_[0] == "cls":
            return [s_[1]]
        return [x for sub in s_[1:] if isinstance(sub, tuple) for x in clss(sub)]
    bad = others(shape)
    if bad:
        return [f"annotation outside the modelled hint shapes: {R.shape_text(b)}" for b in bad], False
    unknown = [c for c in clss(shape) if c not in known_classes and c not in ("list", "dict", "tuple", "set", "object")]
    if unknown:
        return [f"class {c} is not defined in data_types.py" for c in unknown], False
    if not z3.is_true(sp.norm(sp.COV(t))):
        return [f"hint shape {R.shape_text(shape)} is not decoded as DESER specifies (COV fails: e.g. `X | None` around a non-primitive, "
                f"nested Optional, non-str dict key)"], True
    return [], True


def registry(repo, tier):
    from contracts import c05registry as R
    obls, und = [], []
    d = R.derive(repo)
    classes = d["classes"]
    known = set(d["all_classes"])
    short = "data_types.py"
    for name, info in sorted(classes.items()):
        probs, definite = [], True
        names = [f[0] for f in info["fields"]]
        if len(set(names)) != len(names):
            probs.append("duplicate field names")
        for fname, shape, _hasdef in info["fields"]:
            if fname in R.MARKERS:
                probs.append(f"field `{fname}` has the name of an encoding marker")
            ps, df = shape_problems(shape, known)
            probs.extend(f"{fname}: {p}" for p in ps)
            definite = definite and (df or not ps)
        obls.append(ground_obligation(f"C05/{short}::{name}/registry#field-hints-covered", not probs,
                                      "; ".join(probs) or f"{len(names)} field(s): " + ", ".join(f"{n}:{R.shape_text(s_)}" for n, s_, _ in info["fields"])[:300],
                                      f"{DT_PY}:{info['lineno']}", kind="registry", backend="ground", definite=definite))
    # environment facts used by the decoder contracts / lemmas
    clash = sorted(set(classes) & set(BUILTIN_CLASS_NAMES + ("",)))
    obls.append(ground_obligation(f"C05/{short}::registry/registry#no-dataclass-named-like-a-builtin", not clash, ", ".join(clash) or f"{len(classes)} classes",
                                  DT_PY, kind="registry", backend="ground"))
    im = classes.get("ImageMetadata")
    ok = im is not None and all(f in [x[0] for x in im["fields"]] for f in lem.SHIM_FIELDS)
    obls.append(ground_obligation(f"C05/{short}::ImageMetadata/registry#compat-shim-targets-are-fields", ok,
                                  "ImageMetadata fields: " + (", ".join(x[0] for x in im["fields"]) if im else "class missing"), DT_PY, kind="registry", backend="ground"))
    # imported names cannot smuggle foreign dataclasses into dir(data_types)
    allowed_origins = ("io", "logging", "re", "typing", "abc.", "dataclasses.", "pathlib.", "typing.", "sharepoint2text.parsing.extractors.serialization.")
    top_imports = {}
    for node in d["module"].tree.body:        # only module-level imports become attributes of the module
        if isinstance(node, ast.Import):
            for a in node.names:
                top_imports[a.asname or a.name.split(".")[0]] = a.name
        elif isinstance(node, ast.ImportFrom) and node.module:
            for a in node.names:
                top_imports[a.asname or a.name] = f"{node.module}.{a.name}"
    allowed_origins = allowed_origins + ("__future__.",)
    foreign = sorted(n for n, o in top_imports.items() if not (o in allowed_origins or o.startswith(allowed_origins)))
    obls.append(ground_obligation(f"C05/{short}::registry/registry#imports-bring-no-foreign-dataclass", not foreign,
                                  "imports from: " + ", ".join(foreign) if foreign else f"{len(top_imports)} module-level imported names, none a dataclass type",
                                  DT_PY, kind="registry", backend="ground", definite=False))
    # __post_init__ only normalises its own fields idempotently (strip / dict mirror)
    bad = []
    try:
        verified_pi = {c_.target.split("::")[1].split(".")[0] for c_ in rf.post_init_contracts(d["module"], DT_PY, Maker, FnContract, Raises)}
    except Exception:  # noqa
        verified_pi = set()
    for name, info in classes.items():
        if not info["post_init"] or name in verified_pi:       # round 7: under a verified idempotence contract of its own
            continue
        cn = d["module"].classes[name]
        fn = [b for b in cn.body if isinstance(b, ast.FunctionDef) and b.name == "__post_init__"][0]
        for st_ in fn.body:
            txt = ast.unparse(st_)
            ok_ = (isinstance(st_, ast.Assign) and len(st_.targets) == 1 and isinstance(st_.value, ast.Call)
                   and ast.unparse(st_.value) == ast.unparse(st_.targets[0]) + ".strip()") or txt.startswith("dict.__init__(self")
            if not ok_:
                bad.append(f"{name}.__post_init__: {txt[:80]}")
    obls.append(ground_obligation(f"C05/{short}::registry/registry#post-init-is-idempotent-normalisation", not bad, "; ".join(bad) or "x = x.strip() / dict mirror only",
                                  DT_PY, kind="registry", backend="ground", definite=False))
    # cross-check against the real reflective registry (native, real typing objects)
    import tempfile
    expect = {n: [(f, R.shape_text(s_)) for f, s_, _ in info["fields"]] for n, info in classes.items()}
    try:
        pr = subprocess.run(["/venv/bin/python", os.path.join(os.path.dirname(os.path.dirname(os.path.abspath(__file__))), "replay", "C05.py"), "--registry-dump"],
                            capture_output=True, text=True, timeout=300, env=dict(os.environ, VERIF_REPO=repo))
        real = json.loads(pr.stdout.strip().splitlines()[-1])
        real = {k: [tuple(x) for x in v] for k, v in real.items()}
        diff = []
        for n in sorted(set(real) | set(expect)):
            if n not in real:
                diff.append(f"{n}: in the AST registry only")
            elif n not in expect:
                diff.append(f"{n}: in the reflective registry only")
            elif real[n] != expect[n]:
                diff.append(f"{n}: fields/hints differ: AST {expect[n][:3]} vs real {real[n][:3]}")
        obls.append(ground_obligation(f"C05/{short}::registry/registry#matches-reflective-registry", not diff, "; ".join(diff[:6]) or f"{len(real)} classes, fields and hint shapes identical",
                                      DT_PY, kind="registry", backend="native"))
    except Exception as e:  # noqa
        obls.append(ground_obligation(f"C05/{short}::registry/registry#matches-reflective-registry", False, f"native cross-check failed to run: {e}; {pr.stderr[-300:] if 'pr' in dir() else ''}",
                                      DT_PY, kind="registry", backend="native", definite=False))
    m = d["module"]
    fns = [{"function": f"{DT_PY}::<dataclass registry>", "lines": [1, len(m.source.splitlines())], "file_sha256": m.sha256, "segment_sha256": m.sha256,
            "obligations": len(obls)}]
    return {"obligations": obls, "functions": fns, "undecided": und}


def ods_cell_kinds(repo, tier):
    from contracts import c05registry as R
    m = loader.module(ODS_PY, repo)
    fn = m.functions.get("_extract_cell_value")
    oid = "C05/ods_extractor.py::_extract_cell_value/kind-flow#json-able-scalar-into-Any-field"
    if fn is None:
        return {"obligations": [], "undecided": [{"obligation": oid, "why": "contract-target-missing"}]}
    rets = R.first_component_kinds(fn, {"cell": {"xml-element"}})
    bad = [(ln, sorted(k)) for ln, k in rets if not k <= R.JSON_KINDS]
    definite = all("unknown" not in k for _ln, k in bad)
    ob = ground_obligation(oid, bool(rets) and not bad, "; ".join(f"line {ln}: {k}" for ln, k in bad) or
                           f"{len(rets)} return sites, first components: " + ", ".join(sorted({x for _l, k in rets for x in k})), f"{ODS_PY}:{fn.lineno}",
                           kind="kind-flow", backend="dataflow", definite=definite)
    return {"obligations": [ob], "functions": [dict(m.fn_info("_extract_cell_value"), obligations=1)]}


def covers(repo, tier):
    """Vacuity guards: the premises of the round-trip lemma are satisfiable for the interesting constructors."""
    L = lem
    obls = []
    for name, t in (("Dict", V.Dict(L.xk)), ("DC", V.DC(L.cn, L.xk)), ("List", V.List(L.xl)), ("Bytes", V.Bytes(L.bn))):
        s_ = z3.Solver()
        s_.set("timeout", 10000)
        s_.add(sp.norm(z3.And(sp.WF(t), sp.NOMARK(t), sp.INH(t, L.h), sp.COV(L.h))))
        if name == "DC":
            s_.add(L.xk == KV.kcons(sv("a"), V.Str(sv("_type")), KV.knil), sp.FIELDS(L.cn) == SL.scons(sv("a"), SL.snil))
        r = s_.check()
        obls.append(ground_obligation(f"C05/serialization.py::spec/cover#roundtrip-premises-satisfiable.{name}", r == z3.sat, str(r), "spec", kind="cover", backend="z3",
                                      definite=False))
    return {"obligations": obls}


def returns_serialize_of_self(body):
    """`return serialize_extraction(self[, include_binary=True])`, possibly through single-assignment temporaries."""
    temps = {}
    for st_ in body[:-1]:
        if isinstance(st_, ast.Assign) and len(st_.targets) == 1 and isinstance(st_.targets[0], ast.Name) and st_.targets[0].id not in temps:
            temps[st_.targets[0].id] = st_.value
        elif not (isinstance(st_, ast.Expr) and isinstance(st_.value, ast.Call) and ast.unparse(st_.value.func).startswith(("logger.", "logging."))):
            return False
    if not body or not isinstance(body[-1], ast.Return):
        return False
    e = body[-1].value
    seen = 0
    while isinstance(e, ast.Name) and e.id in temps and seen < 5:
        e, seen = temps[e.id], seen + 1
    if not (isinstance(e, ast.Call) and ast.unparse(e.func) in ("serialize_extraction", "serialization.serialize_extraction")):
        return False
    args = [ast.unparse(a) for a in e.args]
    kws = {k.arg: ast.unparse(k.value) for k in e.keywords}
    pos_ok = args == ["self"] or (args == [] and kws.get("value") == "self")
    return pos_ok and all(k in ("value", "include_binary") for k in kws) and kws.get("include_binary", "True") == "True"


def glue(repo, tier):
    """The public methods are thin wrappers of the functions under contract.  Round 7: every concrete to_json / from_json has a VERIFIED
    contract of its own (method_contracts); what remains here is the coverage guard: a to_json / from_json method that is not under
    such a contract must at least match the syntactic wrapper pattern, else UNDECIDED."""
    obls = []
    m = loader.module(DT_PY, repo)
    try:
        verified = {c.target.split("::")[1] for c in method_contracts()}
    except Exception:  # noqa
        verified = set()
    bad, n = [], 0
    for q, fn in m.functions.items():
        if q.endswith(".to_json") and "<locals>" not in q:
            body = [b for b in fn.body if not (isinstance(b, ast.Expr) and isinstance(b.value, ast.Constant))]
            if not body and q.split(".")[0] in ("ExtractionInterface", "UnitInterface"):
                continue      # abstract declaration
            n += 1
            if q not in verified and not returns_serialize_of_self(body):
                bad.append(f"{q}: {ast.unparse(body[-1])[:60] if body else 'empty'}")
    obls.append(ground_obligation("C05/data_types.py::to_json/glue#every-to_json-is-serialize_extraction-of-self", n >= 30 and not bad,
                                  "; ".join(bad) or f"{n} to_json methods, {len([q for q in verified if q.endswith('.to_json')])} under a verified contract",
                                  DT_PY, kind="glue", backend="ground", definite=False))
    fj = m.functions.get("ExtractionInterface.from_json")
    ok = fj is not None and ("ExtractionInterface.from_json" in verified or
                             [ast.unparse(b) for b in fj.body if not (isinstance(b, ast.Expr) and isinstance(b.value, ast.Constant))] == ["return deserialize_extraction(data)"])
    obls.append(ground_obligation("C05/data_types.py::ExtractionInterface.from_json/glue#from_json-is-deserialize_extraction", ok,
                                  "under a verified contract" if "ExtractionInterface.from_json" in verified else "", DT_PY, kind="glue", backend="ground", definite=False))
    # module invariant behind the verified contract of _get_type_registry: its state starts empty and nobody else touches it
    try:
        sm = loader.module(SER_PY, repo)
        names = registry_state_names()
        acc = sm.functions.get("_get_type_registry")
        outside = []
        for q_, fn_ in sm.functions.items():
            if fn_ is acc or "<locals>" in q_:
                continue
            outside += [f"{q_}:{x.lineno}" for x in ast.walk(fn_) if isinstance(x, ast.Name) and x.id in names]
        if acc is not None:
            obls.append(ground_obligation("C05/serialization.py::_get_type_registry/state#registry-state-starts-empty-and-is-private-to-its-accessor",
                                          bool(names) and not outside, "; ".join(outside) or f"{names}: empty dict at import, used by _get_type_registry only",
                                          SER_PY, kind="glue", backend="ground", definite=False))
    except Exception as e:  # noqa
        obls.append(ground_obligation("C05/serialization.py::_get_type_registry/state#registry-state-starts-empty-and-is-private-to-its-accessor", False, str(e),
                                      SER_PY, kind="glue", backend="ground", definite=False))
    imp_ok = m.imports.get("serialize_extraction", "").endswith("serialization.serialize_extraction") and m.imports.get("deserialize_extraction", "").endswith("serialization.deserialize_extraction")
    obls.append(ground_obligation("C05/data_types.py::imports/glue#names-bound-to-serialization-module", imp_ok, str({k: m.imports.get(k) for k in ("serialize_extraction", "deserialize_extraction")}),
                                  DT_PY, kind="glue", backend="ground", definite=False))
    return {"obligations": obls, "functions": []}



def store_site_coverage(repo, tier):
    """Call-site coverage of the cell normalisers: what reaches XlsxSheet.data / XlsSheet.data / OdsSheet.data is built only from
    results of `_get_cell_value` / `_get_cell_values` / `_extract_cell_value` (first component) and scalars built in place (header
    strings, None padding).  Provenance by abstract interpretation of the row-building function (c05registry.Provenance: follows
    comprehensions, loops, enumerate/zip, appends, item stores, unpacking, slices -- independent of local names and statement
    shapes); a value of unknown provenance makes the obligation `unknown` (the native cell-kind scopes then decide)."""
    from contracts import c05registry as R
    obls, fns = [], []
    pair = ("tuple", ("n", "n"))
    sites = [(XLSX_PY, "xlsx_extractor.py", "_read_sheet_data", {"_get_cell_value": "n"}, ("return", None, None), "sheet-data-only-from-_get_cell_value"),
             (XLS_PY, "xls_extractor.py", None, {"_get_cell_values": pair}, ("kwarg", "XlsSheet", "data"), "sheet-data-only-from-_get_cell_values"),
             (ODS_PY, "ods_extractor.py", None, {"_extract_cell_value": pair}, ("attr", "data", None), "sheet-data-only-from-_extract_cell_value")]
    flows = {}
    for rel, short, fname, norm, sink, label in sites:
        m = loader.module(rel, repo)
        cands = [(fname, m.functions.get(fname))] if fname else list(m.functions.items())
        found, why = [], []
        for q, fn in cands:
            if fn is None:
                continue
            try:
                mf_ = flows.get(rel)
                if mf_ is None:
                    mf_ = flows[rel] = R.ModuleFlow(m, norm)        # helpers of the module are summarised by what they return
                pv_ = R.Provenance(fn, norm, None, mf_.ret_shape)
                got = pv_.sinks(*sink)
            except Exception as e:  # noqa  (a shape the interpreter does not know: undecided, never an engine error)
                why.append(f"{q}: provenance analysis failed ({type(e).__name__})")
                continue
            for ln, shape in got:
                found.append((q, ln, shape))
                if not R.sok(shape):
                    why.append(f"{q}:{ln} stores {R.stext(shape)} (a `raw` part did not come from {', '.join(norm)})")
            if got:
                fns.append(dict(m.fn_info(q), obligations=1))
        qn = fname or "<row builder>"
        oid = f"C05/{short}::{qn}/store-sites#{label}"
        def mentions_norm(fn_, seen):
            """The normaliser is named in the function or in a module-level helper it names (call, `map(norm, ..)`, transitively)."""
            for n in ast.walk(fn_):
                if isinstance(n, ast.Name) and isinstance(n.ctx, ast.Load):
                    if n.id in norm:
                        return True
                    h = m.functions.get(n.id)
                    if h is not None and n.id not in seen and len(seen) < 40:
                        seen.add(n.id)
                        if mentions_norm(h, seen):
                            return True
            return False
        uses_norm = any(mentions_norm(m.functions[q], {q}) for q, _l, _s in found)
        ok = bool(found) and not why and uses_norm
        if found and not uses_norm and not why:
            why.append("the row builder never calls the cell normaliser")
        obls.append(ground_obligation(oid, ok, "; ".join(why) or "; ".join(f"{q}:{ln} {R.stext(sh)}" for q, ln, sh in found)[:300] or "no store site found",
                                      rel, kind="store-sites", backend="dataflow", definite=False))
    return {"obligations": obls, "functions": fns}


def dict_field_keys(repo, tier):
    """Document content can never be mistaken for the encoding's markers: every mapping-typed field of a registered dataclass
    (a Dict anywhere in its hint) is either filled only with mappings whose keys are string literals of the code that are not
    markers (provenance over the constructing module: dict displays / dict(...) / item stores, through attributes and helper
    functions), or it is a recorded site of known finding F6.  Keys of unknown origin make the obligation `unknown`; the
    native marker-slot documents then decide."""
    from contracts import c05registry as R
    obls = []
    d = R.derive(repo)
    recorded = {s_ for f in recorded_exclusions() for s_ in f.get("sites", [])}
    files = loader.all_package_files(repo)
    mods = {}
    for name, info in sorted(d["classes"].items()):
        for fname, shape, _hasdef in info["fields"]:
            if not R.shape_has_dict(shape):
                continue
            oid = f"C05/data_types.py::{name}.{fname}/dict-keys#keys-are-code-constants"
            kc, sites, why = "bot", 0, []
            try:
                for rel in files:
                    if rel.endswith("data_types.py"):
                        continue
                    m = mods.get(rel) or loader.module(rel, repo)
                    mods[rel] = m
                    if name not in m.source:
                        continue
                    calls = [n for n in ast.walk(m.tree) if isinstance(n, ast.Call) and (getattr(n.func, "id", None) == name or getattr(n.func, "attr", None) == name)]
                    if not calls:
                        continue
                    mf = R.ModuleFlow(m)
                    cls_fields = [x[0] for x in info["fields"]]
                    for c in calls:
                        exprs = [k.value for k in c.keywords if k.arg == fname]
                        if not exprs and fname in cls_fields and cls_fields.index(fname) < len(c.args):
                            exprs = [c.args[cls_fields.index(fname)]]
                        if any(k.arg is None for k in c.keywords):
                            why.append(f"{rel}:{c.lineno} **kwargs constructor call")
                            kc = R.kjoin(kc, "raw")
                        for e in exprs:
                            sites += 1
                            k_ = R.key_classes(mf.shape_at(e))
                            if mf.shape_at(e) == "raw":
                                k_ = "raw"
                            if k_ not in ("bot", "lit"):
                                why.append(f"{rel}:{c.lineno} {fname}={ast.unparse(e)[:40]}: keys {k_}")
                            kc = R.kjoin(kc, k_)
                    if fname in mf.attr_env:                 # later stores through the attribute (obj.field[...] = / .append)
                        k_ = R.key_classes(mf.attr_env[fname])
                        if k_ not in ("bot", "lit"):
                            why.append(f"{rel}: stores through .{fname}: keys {k_}")
                        kc = R.kjoin(kc, k_)
            except Exception as e:  # noqa  (unexpected shape: undecided, never an engine error)
                kc, why = "raw", why + [f"analysis failed: {type(e).__name__}: {e}"]
            key = f"{name}.{fname}"
            if R.shape_has_str_keyed_dict(shape):
                # the serialiser writes str(key) and the decoder rebuilds values only: a key that is not a str object comes back as a
                # different key (1 -> '1'), so the restored mapping differs although to_json() is the same
                soid = f"C05/data_types.py::{name}.{fname}/dict-keys#keys-are-str"
                if kc in ("bot", "lit", "str", "marker"):
                    obls.append(ground_obligation(soid, True, f"{sites} construction site(s); every key is a string literal or an expression of kind str (c05kinds)",
                                                  DT_PY, kind="dict-keys", backend="dataflow"))
                else:
                    obls.append(ground_obligation(soid, False, f"a key stored into {key} (declared Dict[str, ...]) is not shown to be a str object: " + "; ".join(why)[:300],
                                                  DT_PY, kind="dict-keys", backend="dataflow", definite=False))
            if kc in ("bot", "lit"):
                obls.append(ground_obligation(oid, True, f"{sites} construction site(s); keys: {'string literals of the code' if kc == 'lit' else 'no mapping is ever stored'}",
                                              DT_PY, kind="dict-keys", backend="dataflow"))
            elif key in recorded:
                obls.append(ground_obligation(oid, True, f"keys are document content: recorded site of known finding F6 (exclusion has_marker_key); {'; '.join(why)[:200]}",
                                              DT_PY, kind="dict-keys", backend="dataflow"))
            else:
                obls.append(ground_obligation(oid, False, f"mapping keys of {key} are not shown to be code constants and the field is not a recorded F6 site: "
                                              + "; ".join(why)[:300], DT_PY, kind="dict-keys", backend="dataflow", definite=False))
    # Any-typed slots: each must be one whose stored values are under a store-site obligation (cell normalisers) -- a new Any-typed
    # field joins the serialised registry silently, with nothing known about the kinds stored into it
    covered_any = {"XlsSheet.data", "XlsxSheet.data", "OdsSheet.data", "TableData.data"}

    def has_any(sh):
        return sh == ("any",) or any(has_any(x) for x in sh[1:] if isinstance(x, tuple))
    extra = sorted(f"{n}.{f}" for n, info in d["classes"].items() for f, sh, _ in info["fields"] if has_any(sh) and f"{n}.{f}" not in covered_any)
    obls.append(ground_obligation("C05/data_types.py::registry/registry#any-typed-fields-have-store-site-obligations", not extra,
                                  ("Any-typed field(s) without a store-site obligation: " + ", ".join(extra)) if extra else
                                  "Any-typed fields: " + ", ".join(sorted(covered_any)) + " (TableData.data receives sheet rows / str tables: BOUNDED by the native cell-kind scopes)",
                                  DT_PY, kind="registry", backend="ground", definite=False))
    return {"obligations": obls}


def field_store_kinds(repo, tier):
    """Stores into declared fields after construction keep the field inside its hint: for every method of a registered dataclass,
    every `self.<field> = e` has kinds(e) within the kinds of the field's annotation (c05kinds: constants, str()/f-strings/str methods,
    annotated parameters, other fields of self, pathlib name/suffix, conditional expressions; helper results per call site).
    The type-directed lemmas quantify over instances whose fields inhabit their hints; a method that stores a pathlib.Path into a
    `str | None` field leaves that universe (to_json() is then not JSON).  A kind that is not recognised, or one outside the hint,
    makes the obligation `unknown`; the native path / instance scopes then decide."""
    from contracts import c05registry as R
    from contracts import c05kinds as K
    obls, fns = [], []
    try:
        d = R.derive(repo)
        m = d["module"]
        mk = K.ModuleKinds(m)
        top = {n.name: n for n in m.tree.body if isinstance(n, ast.ClassDef)}

        def field_anns(cn, seen=()):
            out = {}
            for b in cn.bases:
                bn = getattr(b, "id", None)
                if bn in top and bn not in seen:
                    out.update(field_anns(top[bn], seen + (cn.name,)))
            for b in cn.body:
                if isinstance(b, ast.AnnAssign) and isinstance(b.target, ast.Name):
                    out[b.target.id] = b.annotation
            return out
        for cname in sorted(d["classes"]):
            cn = top[cname]
            anns = field_anns(cn)
            for fn in cn.body:
                if not isinstance(fn, (ast.FunctionDef, ast.AsyncFunctionDef)) or not (fn.args.posonlyargs + fn.args.args):
                    continue
                if any(getattr(dec, "id", None) in ("staticmethod", "classmethod") for dec in fn.decorator_list):
                    continue
                me = (fn.args.posonlyargs + fn.args.args)[0].arg
                stores = []
                for n in ast.walk(fn):
                    tg = n.targets if isinstance(n, ast.Assign) else [n.target] if isinstance(n, (ast.AnnAssign, ast.AugAssign)) and getattr(n, "value", None) is not None else []
                    for t in tg:
                        for t1 in (t.elts if isinstance(t, (ast.Tuple, ast.List)) else [t]):
                            if isinstance(t1, ast.Attribute) and isinstance(t1.value, ast.Name) and t1.value.id == me and t1.attr in anns:
                                stores.append((n, t1, isinstance(t, (ast.Tuple, ast.List))))
                if not stores:
                    continue
                kk = K.Kinds(fn, anns, mk.call_kinds, call_parts=mk.call_parts, owner=cname, method_call=mk.method_call)
                why = []
                for n, t1, unpacked in stores:
                    allowed = K.ann_kinds(anns[t1.attr])
                    if "unknown" in allowed:
                        continue                                            # Any / unparsed hint: nothing to keep
                    if unpacked:
                        kinds = {"unknown"}
                    elif isinstance(n, ast.AugAssign):
                        kinds = kk.of(ast.BinOp(left=ast.Attribute(value=ast.Name(id=me, ctx=ast.Load()), attr=t1.attr, ctx=ast.Load()), op=n.op, right=n.value))
                    else:
                        kinds = kk.of_stmt(n, n.value) or {"unknown"}
                    bad = K.fits(kinds, allowed)
                    if bad:
                        why.append(f"line {n.lineno}: self.{t1.attr} (declared {ast.unparse(anns[t1.attr])}) = {ast.unparse(n.value)[:60]} may be {', '.join(bad)}")
                q = f"{cname}.{fn.name}"
                obls.append(ground_obligation(f"C05/data_types.py::{q}/field-stores#stored-values-inhabit-the-declared-hint", not why,
                                              "; ".join(why)[:400] or f"{len(stores)} store(s) into declared fields, each within its hint", DT_PY,
                                              kind="field-stores", backend="dataflow", definite=False))
                try:
                    fns.append(dict(m.fn_info(q), obligations=1))
                except Exception:  # noqa
                    pass
    except Exception as e:  # noqa  (unexpected shape: undecided, never an engine error)
        obls.append(ground_obligation("C05/data_types.py::registry/field-stores#analysis-ran", False, f"kind flow failed: {type(e).__name__}: {e}", DT_PY,
                                      kind="field-stores", backend="dataflow", definite=False))
    return {"obligations": obls, "functions": fns}


def native_scope(repo, tier):
    """BOUNDED stand-ins (DESIGN 2.8), one obligation per construct, run on the real code on every check (replay/C05.py):
    a mismatch is a concrete failing input (violation); finding nothing proves nothing (`bounded-ok`, never discharged).
    They stand in for what the contracts do not decide: that from_json raises nothing on to_json output; that base64 /
    json library behaviour is as assumed at block-size boundaries; that __post_init__ normalisations are idempotent;
    what openpyxl / the ODF parser hand to the cell normalisers; what cli.main writes to an encoded stdout."""
    root = os.path.dirname(os.path.dirname(os.path.abspath(__file__)))
    pfx = "C05/replay::native-scope/bounded#"
    req = {"property": "C05", "obligation": pfx + "all", "all_scopes": True, "repo": repo}
    try:
        p = subprocess.run(["/venv/bin/python", os.path.join(root, "replay", "run.py")], input=json.dumps(req), capture_output=True, text=True,
                           timeout=900, env=dict(os.environ, VERIF_REPO=repo))
        lines = [l for l in p.stdout.splitlines() if l.startswith("{")]
        res = json.loads(lines[-1]) if lines else {"error": (p.stderr or p.stdout)[-500:]}
    except Exception as e:  # noqa
        res = {"error": str(e)}
    if "scopes" not in res:
        return {"obligations": [], "undecided": [{"obligation": pfx + "all", "why": "native scope could not run: " + str(res.get("error", res.get("note")))[:300]}]}
    obls, und = [], []
    for name, r in res["scopes"].items():
        oid = f"{pfx}{name}.BOUNDED"
        if "error" in r:
            und.append({"obligation": oid, "why": "native scope crashed: " + r["error"][-300:]})
            continue
        f = r.get("failure")
        o = ground_obligation(oid, not f, "" if not f else f"{f.get('target')}: {json.dumps(f.get('inputs'), default=repr)[:300]} -> {str(f.get('observed'))[:300]}",
                              "replay/C05.py", kind="bounded", backend="native-replay")
        o["bounded"] = True
        o["bound"] = r.get("bound", "")
        obls.append(o)
    return {"obligations": obls, "undecided": und}


EXTRA = [registry, covers, glue, store_site_coverage, dict_field_keys, field_store_kinds, native_scope]


def recorded_exclusions():
    root = os.path.dirname(os.path.dirname(os.path.abspath(__file__)))
    try:
        kf = json.load(open(os.path.join(root, "known_findings.json")))
    except FileNotFoundError:
        return []
    return [f for f in kf.get("findings", []) if f.get("property") == "C05" and f.get("exclusion")]


def lemmas():
    lem.EXCLUDE_MARKER_KEYS = any(f["exclusion"].replace(" ", "") == "has_marker_key(v)" for f in recorded_exclusions())
    return lem.all_lemmas()


def known_findings(kf, violations, repo, tier):
    """Recorded findings: replay the witness on the real code; a finding that still fails prints KNOWN-FINDING and covers
    exactly its own (unrestricted) obligation.  The restricted theorem is a separate, ordinary obligation family."""
    out = []
    vio_ids = {v["id"] for v in violations}
    root = os.path.dirname(os.path.dirname(os.path.abspath(__file__)))
    for f in kf:
        req = {"property": "C05", "obligation": f["obligation"], "known_finding": f["id"], "witness": f.get("witness"), "repo": repo}
        try:
            p = subprocess.run(["/venv/bin/python", os.path.join(root, "replay", "run.py")], input=json.dumps(req), capture_output=True, text=True,
                               timeout=600, env=dict(os.environ, VERIF_REPO=repo))
            lines = [l for l in p.stdout.splitlines() if l.startswith("{")]
            res = json.loads(lines[-1]) if lines else {"reproduced": False, "note": p.stderr[-300:]}
        except Exception as e:  # noqa
            res = {"reproduced": False, "note": str(e)}
        still = bool(res.get("reproduced"))
        covers_ = [o for o in f.get("covers", [f["obligation"]]) if o in vio_ids] if still else []
        out.append({"finding": f["id"], "still_fails": still, "line": f"{f['id']}: {f['what']}", "covers": covers_, "exclusion": f.get("exclusion"),
                    "proved_under_exclusion": f.get("proved_under_exclusion"), "witness_replay": res.get("observed", res.get("note", ""))})
    return out


TRUSTED = ["contracts/c05spec.norm (definitional rewriting of the spec functions; the solver sees quantifier-free formulas)",
           "contracts/c05exec.SerExecutor (pack-local rules: element-wise comprehensions, prefix induction over dataclass fields, "
           "processed-set induction over a set of field names, insertion-ordered dict stores)",
           "json.dumps / json.loads are inverse on JSON values (None, bool, int, finite float, str, list, object with str keys)"]
ASSUMED_MODELS = ["dataclasses.is_dataclass / fields (instance: declared fields in order; class: field names); @dataclass __init__ from keywords",
                  "base64.b64encode/b64decode and str.encode/bytes.decode('utf-8') are inverse pairs on base64 text",
                  "io.BytesIO tell/seek/read (ghost position; read() from position 0 returns the whole payload)",
                  "typing.get_origin / get_args / get_type_hints on the hint shapes of c05spec.H (Python < 3.14: `X | None` has origin types.UnionType)",
                  "language-level reflection over the module data_types, as predicates on names (contracts/c05reflect.py): dir() lists every attribute "
                  "name once and getattr of a listed name succeeds; isinstance(obj, type) / is_dataclass(obj) are pure (the body of _get_type_registry "
                  "is VERIFIED against them since round 7; its content is still cross-checked natively against the AST-derived registry on every run)",
                  "argparse: an option declared with action='store_true' yields a bool attribute (False unless given) named by dest, else by the first "
                  "long option string with '-' -> '_' (cli._build_parser is VERIFIED against this since round 7)",
                  "str.strip() without arguments is idempotent: strip(strip(x)) == strip(x) (the only library fact behind the verified __post_init__ "
                  "idempotence contracts; validated natively by scope post-init-idempotent)",
                  "pathlib (as in pack C04): Path(str | Path) total; name / suffix are str; parent a Path; exists() / resolve() may raise OSError / "
                  "RuntimeError; str(path) is a str (populate_from_path is VERIFIED against this since round 7)",
                  "xlrd.sheet.Cell: ctype in 0..6 and the value kind per ctype; xlrd.xldate_as_tuple returns six ints or raises",
                  "openpyxl reader cell values: None, bool, int, float, str, datetime, date, time, timedelta",
                  "xml Element.get(name, default) returns a str or the default (ODS kind flow)",
                  "extraction results' iterate_units() yields a finite sequence of dataclass instances"]
BOUNDED = [{"what": "from_json(json.loads(json.dumps(to_json(x)))) raises nothing (the decoder contracts are partial-correctness: 'returns DESER on normal "
                    "return'; exceptions on malformed encodings are allowed and not characterised); base64/json library behaviour at block-size boundaries; "
                    "idempotence of __post_init__ normalisations; value kinds that openpyxl / xlrd / the ODF parser hand to the cell normalisers; what "
                    "cli.main writes to an encoded stdout",
            "bound": "the BOUNDED obligations C05/replay::native-scope/bounded#<construct>.BOUNDED (replay/C05.py scopes, run on the real code on every check); "
                     "each lists its own bound"}]
ASSUMPTIONS = ["PY-FLOAT-REAL: floats in V are finite reals (NaN/inf not modelled)",
               "mappings in V have string keys (registry obligation: every Dict hint has str keys); str(key) == key; keys are unique",
               "a set is encoded in its iteration order, which is fixed within a process (PY-HASHSEED)",
               "class objects are not values of V (isinstance(value, type) is False)",
               "dataclass instances are as their constructor leaves them (__post_init__ normalisations are idempotent: registry obligation, syntactic)",
               "instances of registered dataclasses hold, in each field, a value inhabiting the declared hint (generously: None anywhere, any scalar under a "
               "primitive hint, subclasses under a class hint, tuples/sets in list slots) -- this is the quantifier of the property",
               "EXC-ANY for library calls inside the decoder; recorded exclusion F6 (has_marker_key) via known_findings.json only"]

REPLAY_UNKNOWN = True    # undecided / out-of-subset items are searched natively (replay) before being reported UNDECIDED
