"""C12 round 7 -- library functions the C12 contracts lean on, VERIFIED in the C12 run instead of assumed.

Two groups of functions are used by the C12 obligations through a contract that another pack owns:

* the four router functions (`_file_type_from_extension`, `_get_extractor`, `is_supported_file`, `get_extractor`): `read_file` calls
  `get_extractor(path)` before / around the size check, and its C12 contract (`size > max_file_size > 0 <=> TooLarge before open()`) is
  proved over the C07 routing contract of that call (what it returns, what it raises).  Up to round 6 that contract was ASSUMED here
  ("verified by the C07 pack").  Now each of the four is executed on the tree under check, with C07's executor, against the SAME contract
  object the call site in `read_file` applies (`C07.contracts(reg)`): the verified contract is the call-site view, so it implies it
  trivially.  One EXTRA task per function (they run in parallel with the other C12 tasks).
* `zip_bomb.validate_zipfile` (+ `_is_directory`): the property quantifies over inputs "that pass the size and bomb guards"; what passing
  the bomb guard MEANS for cost is C11's specification `not spec_reject(zf, limits)`: at most `max_entries` entries, every non-directory
  entry within the single-entry size and ratio limits, total uncompressed size and total ratio within theirs, i.e. for an accepted
  container `uncompressed <= max_total_compression_ratio * compressed` -- the "fixed multiple of the input size" of the C12 statement for
  every ZIP-based format.  Round 4 had only an AST policy for it (`only-directories-are-exempt-from-the-bomb-accounting`) and a BOUNDED
  native scope (`zip-bomb-classes`).  Now the real body is verified (loop invariant over the running totals = C11's `make_loop_inv`,
  quantified spec, z3) in the C12 run, together with the two induction lemmas the invariant uses as a hypothesis.

Verdicts.  Every obligation keeps its own id (`C12/router.py::get_extractor/returns`, `C12/zip_bomb.py::validate_zipfile/ensures#...`).
An obligation that is not proved keeps the verdict the owning pack's machinery gives it
(C07's `post_report` demotes models of over-approximated paths to `unknown`; a definite model is `refuted`: the C12 proof of `read_file`
would rest on a contract the router does not meet), and the function then STAYS on the assumed list.  Replays: limit probe over every
routed extension (router), `zip_bomb_classes` (guard).
`verified_assumed` (read by `pyvc/check.py`) names the call-site contracts of this run that were discharged in it: only those leave the
`assumed_contracts` list of the evidence.
"""
from pyvc import loader
from pyvc.flow import ground_obligation

ROUTER = "sharepoint2text/parsing/router.py"
ZB = "sharepoint2text/parsing/extractors/util/zip_bomb.py"
ROUTER_FNS = ("_file_type_from_extension", "_get_extractor", "is_supported_file", "get_extractor")
GUARD_FNS = ("_is_directory", "validate_zipfile")


def _unknown(oid, why, loc, fn=""):
    """The whole function could not be put under its contract in this run: reported like the engine reports a function outside the
    subset (`unknown`; the locked obligations of that function are excused by the id, the native replayer decides)."""
    o = ground_obligation(oid, False, "OUT-OF-SUBSET " + why[:500], loc, kind="out-of-subset", definite=False)
    o["function"] = fn
    o["vcs"] = 0
    return o


def _run(pack, target, repo, tier):
    """-> (FnReport | None, note).  The contract `target` of `pack`, executed on the tree under check with that pack's executor."""
    from pyvc import verify
    from pyvc.contracts import Registry
    from pyvc.exctypes import Universe
    reg = Registry()
    cs = pack.contracts(reg)
    for c in cs:
        reg.add(c)
    c = next((c for c in cs if c.target == target and not c.assumed), None)
    if c is None:
        return None, "no contract for this function in the owning pack"
    rep = verify.run_contract("C12", c, reg, Universe(repo or loader.REPO), repo=repo, timeout_ms=60000 if tier == "thorough" else None,
                              executor_cls=getattr(pack, "EXECUTOR", verify.Executor), executor_kw=getattr(pack, "EXECUTOR_KW", {}).get(target))
    hook = getattr(pack, "post_report", None)
    if hook is not None and not (rep.error or rep.out_of_subset):
        hook(c, rep)
    return rep, ""


def _fn_info(rep):
    return dict(rep.info, paths=rep.paths, gen_seconds=round(rep.gen_seconds, 3), obligations=len(rep.obligations))


def router_fn(q):
    target = f"{ROUTER}::{q}"
    whole = f"C12/router.py::{q}/out-of-subset"

    def run(repo, tier):
        try:
            from contracts import C07
            rep, note = _run(C07, target, repo, tier)
            if rep is None or rep.error or rep.out_of_subset or not rep.obligations:
                why = note or (rep.error or rep.out_of_subset or "no obligation generated (vacuity)")
                return {"obligations": [_unknown(whole, f"{q} is not verified against the routing contract in this run, it stays ASSUMED: {why}", ROUTER, target)]}
            obls, ok = [], True
            for o in rep.obligations:
                o["function"] = target
                if o["status"] != "proved":
                    ok = False       # verdict kept as pack C07 gives it (its post_report hook demotes over-approximated models to `unknown`)
                obls.append(o)
            return {"obligations": obls, "functions": [_fn_info(rep)], "verified_assumed": [target] if ok else []}
        except Exception as e:  # noqa  pack code on a changed tree: an unrecognised shape is `unknown`, never a crash
            return {"obligations": [_unknown(whole, f"routing conformance does not cover this shape ({type(e).__name__}: {e})", ROUTER, target)]}
    run.__name__ = f"conform[router.py::{q}]"
    return run


def bomb_guard(repo, tier):
    """`validate_zipfile` and `_is_directory` against C11's specification of the bomb guard, plus the induction lemmas of the invariant."""
    whole = "C12/zip_bomb.py::validate_zipfile/out-of-subset"
    try:
        from pyvc import solve
        from contracts import C11
        obls, fns, notes = [], [], []
        for q in GUARD_FNS:
            target = f"{ZB}::{q}"
            rep, note = _run(C11, target, repo, tier)
            if rep is None or rep.error or rep.out_of_subset or not rep.obligations:
                notes.append(f"{q}: {note or rep.error or rep.out_of_subset or 'no obligation generated (vacuity)'}"[:200])
                obls.append(_unknown(f"C12/zip_bomb.py::{q}/out-of-subset", notes[-1], ZB, target))
                continue
            fns.append(_fn_info(rep))
            for o in rep.obligations:
                o["function"] = target
                obls.append(o)
                if o["status"] != "proved":
                    notes.append(f"{o['id'].split('::')[-1]}: {o['status']}")
        for lem in C11.lemmas():
            oid, hyps, goal = lem[0], lem[1], lem[2]
            r = solve.check_vc(hyps, goal, 60000 if tier == "thorough" else None, want_model=False)
            obls.append({"id": "C12/" + oid.split("/", 1)[1], "kind": "lemma", "status": r.status, "vcs": 1, "seconds": round(r.seconds, 4), "backends": {r.backend: 1},
                         "witness": None, "reason": r.reason or "", "loc": "spec", "function": f"{ZB}::validate_zipfile"})
            if r.status != "proved":
                notes.append(f"{oid.split('::')[-1]}: {r.status}")
        return {"obligations": obls, "functions": fns}
    except Exception as e:  # noqa
        return {"obligations": [_unknown(whole, f"bomb-guard conformance does not cover this shape ({type(e).__name__}: {e})", ZB, f"{ZB}::validate_zipfile")]}


bomb_guard.__name__ = "conform[zip_bomb.py::validate_zipfile]"


def extras():
    return [router_fn(q) for q in ROUTER_FNS] + [bomb_guard]
