"""C14 round 7 -- the OBSERVATION ACCESSORS of the image classes under a contract.

The statement of C14 is about what `iterate_images()` hands out *as observed through* `i.get_bytes().read()`, `i.get_content_type()` and
`dict(i.get_metadata())`.  Rounds 1-6 proved what the extractors STORE in the image objects (payload, content type, number, unit, size) and
that the iterators hand the stored objects out; the accessors between the stored fields and the observation had no contract at all.  Here
each accessor of each image class of the formats the property quantifies over is executed symbolically on an abstract instance (every field
an uninterpreted function of `self`, Optional fields forked on `is None`) and must satisfy:

  get_metadata()      image_number == self.<number field>; content_type is the stored one (verbatim or stripped like get_content_type());
                      unit_number == self.<unit field> (None exactly when the stored unit is None; a class without unit field reports None;
                      XlsxImage: None or sheet_index + 1 -- never a wrong unit); width / height == the stored value when it is a positive
                      number, else None (ODF: the stored length converted by `_odf_length_to_px`, seen through its functional view PX);
  get_content_type()  the stored content type, verbatim or stripped;
  get_bytes()         a stream that holds exactly the stored payload (the stored stream itself, or io.BytesIO(stored bytes); the empty
                      stream when nothing is stored) AND is positioned at offset 0 -- so that `.read()` returns the whole payload, also on
                      the second call.

Stream model (pack-local, `AccessExecutor`): a stored `io.BytesIO` field is an opaque value S with an uninterpreted content CONTENT(S) and a
ghost position; `io.BytesIO(b)` allocates a stream object {content: b, pos: 0}; `seek(n)` sets the position.  Any other stream operation is
outside the model -> `unknown`, decided by the native replay.  Still assumed (stdlib): `str.strip` as a function STRIP; io.BytesIO semantics
(content / position); `ImageMetadata.__post_init__` mirroring the fields into the dict view (validated natively by replay/C14.py).
"""
import ast

import z3

from pyvc import loader, ops, verify
from pyvc.contracts import FnContract, Registry
from pyvc.exctypes import Universe
from pyvc.flow import ground_obligation
from pyvc.values import NONE, VBool, VBytes, VExt, VFunc, VInt, VNoneT, VRef, VStr, ext_sort
from pyvc.verify import p_ext

from contracts.c03_exec import class_schema, fld, fun
from contracts.c14_exec import C14Executor

DT = "sharepoint2text/parsing/extractors/data_types.py"
S, I, B = z3.StringSort(), z3.IntSort(), z3.BoolSort()
STREAM, PAYLOAD = "C14.stream", "C14.payload"
CONTENT = z3.Function("C14.stream.content", ext_sort(STREAM), ext_sort(PAYLOAD))      # what a stored stream holds
EMPTY = z3.Const("C14.payload.empty", ext_sort(PAYLOAD))
STRIP = z3.Function("str.strip", S, S)
PX = z3.Function("odf_length_to_px.value", B, S, I)             # functional view of _odf_length_to_px: (argument is None, argument) -> result
PX_NONE = z3.Function("odf_length_to_px.is_none", B, S, B)

# class -> (number field, unit: None (the class has no unit) | field | (field, offset) "None or field + offset")
CLASSES = {
    "DocxImage": ("image_index", None),
    "PptxImage": ("image_index", "slide_number"),
    "XlsxImage": ("image_index", ("sheet_index", 1)),
    "OpenDocumentImage": ("image_index", "unit_name"),
    "EpubImage": ("image_index", "unit_index"),
    "PdfImage": ("index", "unit_name"),
    # legacy formats (outside the property's quantifier, but their document views are under contract (e) and the accessors are the same code shape):
    "DocImage": ("image_number", "unit_number"),
    "PptImage": ("image_index", ("slide_number", 0)),       # "None or the stored slide" (a slide number 0 means unknown)
    "XlsImage": ("image_index", None),
    "RtfImage": ("image_index", "page_number"),     # stores the KIND of the picture (\\pngblip, \\jpegblip ...), not a content type; sizes are twips
}
KIND_TABLE = {"png": "image/png", "jpeg": "image/jpeg", "jpg": "image/jpeg"}       # raster kinds of the property -> the matching content type
LOWER = z3.Function("str.lower", S, S)
METHODS = ("get_metadata", "get_content_type", "get_bytes")
LABELS = {
    "get_metadata": ("image-number-is-the-stored-number", "content-type-is-the-stored-one", "unit-is-the-stored-unit",
                     "pixel-size-is-the-stored-positive-size-or-none"),
    "get_content_type": ("the-stored-content-type",),
    "get_bytes": ("stream-holds-exactly-the-stored-payload", "stream-is-positioned-at-the-start"),
}


def _ann(mod, cls, f):
    node = mod.classes.get(cls)
    if node is None:
        return None
    for b in node.body:
        if isinstance(b, ast.AnnAssign) and isinstance(b.target, ast.Name) and b.target.id == f:
            return ast.unparse(b.annotation)
    return None


def payload_field(mod, cls):
    """(field, 'stream' | 'bytes', optional) of the payload of an image class: the field annotated io.BytesIO / bytes."""
    node = mod.classes.get(cls)
    out = []
    for b in (node.body if node is not None else ()):
        if isinstance(b, ast.AnnAssign) and isinstance(b.target, ast.Name):
            a = ast.unparse(b.annotation)
            if "BytesIO" in a:
                out.append((b.target.id, "stream", "Optional" in a or "None" in a))
            elif "bytes" in a.replace("size_bytes", ""):
                out.append((b.target.id, "bytes", "Optional" in a or "None" in a))
    return out[0] if len(out) == 1 else None


def _spos(st, term):
    return st.ghost.get("C14.spos", {}).get(term.sexpr())


class AccessExecutor(C14Executor):
    """+ stream / payload fields, io.BytesIO, seek."""

    def field_values(self, st, obj, f, kind):
        if isinstance(obj, VExt) and obj.sort in CLASSES:
            pf = payload_field(self.class_module(obj.sort), obj.sort)
            if pf is not None and pf[0] == f:
                sort = STREAM if pf[1] == "stream" else PAYLOAD
                val = VExt(sort, fld(obj.sort, f, ext_sort(sort))(obj.t))
                if not pf[2]:
                    return [(st, val)]
                isnone = fld(obj.sort, f + ".is_none", B)(obj.t)
                out = []
                if self.feasible(st.pc, isnone):
                    out.append((st.fork().assume(isnone), NONE))
                if self.feasible(st.pc, z3.Not(isnone)):
                    out.append((st.assume(z3.Not(isnone)), val))
                return out
        return super().field_values(st, obj, f, kind)

    def get_attr(self, st, base, attr, node):
        if isinstance(base, VExt) and base.sort == STREAM:
            return [(st, VFunc("bound", base, attr))]
        if isinstance(base, VExt) and base.sort in CLASSES:
            cn = self.class_module(base.sort).classes.get(base.sort)
            for b in (cn.body if cn is not None else ()):       # a class-level constant table (typing.ClassVar) read through the instance
                if isinstance(b, ast.AnnAssign) and isinstance(b.target, ast.Name) and b.target.id == attr and "ClassVar" in ast.unparse(b.annotation) \
                        and b.value is not None:
                    return self.ev(b.value, st)
        return super().get_attr(st, base, attr, node)

    def e_Call(self, n, st):
        """`dict.__init__(self, k=v, ...)` in a method of a dict subclass: the dict view of the instance (ghost), one entry per keyword."""
        if isinstance(n.func, ast.Attribute) and ast.unparse(n.func) == "dict.__init__" and len(n.args) == 1 and all(k.arg for k in n.keywords):
            out = []
            for (s, objs) in self.ev_list(n.args, st):
                for (s2, vals) in self.ev_list([k.value for k in n.keywords], s):
                    if not isinstance(objs[0], VRef):
                        raise ops.Unsupported(f"{self.loc(n)} dict.__init__ of something that is not an instance")
                    s2.ghost["C14.dictview"] = dict(s2.ghost.get("C14.dictview", {}), **{str(objs[0].ref): {k.arg: v for k, v in zip(n.keywords, vals)}})
                    out.append((s2, NONE))
            return out
        return super().e_Call(n, st)

    def call_method(self, st, obj, name, args, kwargs, node):
        if isinstance(obj, VExt) and obj.sort == STREAM:
            if name == "seek" and len(args) == 1 and not kwargs and isinstance(args[0], (VInt, VBool)):
                st.ghost["C14.spos"] = dict(st.ghost.get("C14.spos", {}), **{obj.t.sexpr(): ops.int_term(args[0])})
                return [(st, args[0])]
            raise ops.Unsupported(f"{self.loc(node)} {name} on a stored stream (outside the stream model)")
        if isinstance(obj, VRef):
            o = st.obj(obj.ref)
            if o.kind == "obj" and o.cls == "BytesIO":
                if name == "seek" and len(args) == 1 and not kwargs and isinstance(args[0], (VInt, VBool)):
                    st.wobj(obj.ref).data = dict(o.data, pos=VInt(ops.int_term(args[0])))
                    return [(st, args[0])]
                raise ops.Unsupported(f"{self.loc(node)} {name} on a new stream (outside the stream model)")
        return super().call_method(st, obj, name, args, kwargs, node)


def _m_bytesio(ex, st, args, kwargs, node):
    if kwargs or len(args) > 1:
        raise ops.Unsupported(f"{ex.loc(node)} io.BytesIO with keyword / several arguments")
    if not args or isinstance(args[0], VNoneT) or (isinstance(args[0], VBytes) and not args[0].items):
        content = VExt(PAYLOAD, EMPTY)
    elif isinstance(args[0], VExt) and args[0].sort == PAYLOAD:
        content = args[0]
    else:
        raise ops.Unsupported(f"{ex.loc(node)} io.BytesIO of something that is not the stored payload")
    return [(st, ex.new_obj(st, "BytesIO", {"content": content, "pos": VInt(0)}))]


def _m_lower(ex, st, args, kwargs, node):
    if len(args) != 1 or kwargs:
        raise ops.Unsupported(f"{ex.loc(node)} lower(args)")
    return [(st, VStr(LOWER(args[0].t)))]


def labels_of(m, sch):
    """A class that stores the picture kind instead of a content type and no pixel size (RtfImage: twips) gets no pixel-size clause."""
    if m == "get_metadata" and "content_type" not in sch:
        return LABELS[m][:3]
    return LABELS[m]


def _m_strip(ex, st, args, kwargs, node):
    if len(args) != 1 or kwargs:
        raise ops.Unsupported(f"{ex.loc(node)} strip(chars)")
    return [(st, VStr(STRIP(args[0].t)))]


def _px_view():
    """Call-site view of `_odf_length_to_px`: None for a None argument (a consequence of the contract verified on the body by C14.odf_length),
    result == PX(argument) for a str -- what any deterministic function satisfies.  The view does not weaken the verified contract."""
    def returns(c):
        a = c.args["length"]
        if isinstance(a, VNoneT):
            return NONE           # implied by the contract verified on the body (C14.odf_length, parameter `str | None`): no length -> None
        elif isinstance(a, VStr):
            n, s = z3.BoolVal(False), a.t
        else:
            raise ops.Unsupported("_odf_length_to_px of a value that is neither None nor a str")
        return [(PX_NONE(n, s), NONE), (z3.Not(PX_NONE(n, s)), VInt(PX(n, s)))]
    from pyvc.verify import p_unk
    return FnContract(target=f"{DT}::_odf_length_to_px", params=[("length", p_unk())], returns=returns, raises=[], assumed=True,
                      note="functional view (determinism); the conversion itself is verified by C14.odf_length")


# ------------------------------------------------------------------------------------------------------------------
# specification side: the stored fields of the abstract instance
# ------------------------------------------------------------------------------------------------------------------
def _opt_int(sch, cls, f, me):
    """(is_none, value) of an int / Optional[int] field; None when the field has another kind."""
    k = sch.get(f)
    if k == "int":
        return z3.BoolVal(False), fld(cls, f, I)(me)
    if k == ("opt", "int"):
        return fld(cls, f + ".is_none", B)(me), fld(cls, f, I)(me)
    return None


def _size(sch, cls, f, me):
    """(is_none, value) of the stored pixel size: the int field, or the ODF length field seen through PX."""
    r = _opt_int(sch, cls, f, me)
    if r is not None:
        return r
    k = sch.get(f)
    if k in ("str", ("opt", "str")):
        n = fld(cls, f + ".is_none", B)(me) if k != "str" else z3.BoolVal(False)
        s = fld(cls, f, S)(me)
        return z3.Or(n, PX_NONE(z3.BoolVal(False), s)), PX(z3.BoolVal(False), s)      # nothing stored -> nothing reported
    return None


def _is_opt(item, none, val):
    if isinstance(item, VNoneT):
        return none
    if isinstance(item, (VInt, VBool)):
        return z3.And(z3.Not(none), ops.int_term(item) == val)
    return z3.BoolVal(False)


def _meta(c):
    r = c.result
    if not isinstance(r, VRef):
        return None
    o = c.st.obj(r.ref)
    if o.kind != "obj" or o.cls != "ImageMetadata" or not isinstance(o.data, dict):
        return None
    return o.data


def specs(cls, sch):
    num, unit = CLASSES[cls]

    def me(c):
        return c.args["self"].t

    def stored_ct(c, item):
        if isinstance(item, VStr) and "content_type" not in sch and sch.get("image_type") == "str":
            k = LOWER(fld(cls, "image_type", S)(me(c)))
            return z3.And([z3.Implies(k == z3.StringVal(a), item.t == z3.StringVal(b)) for a, b in KIND_TABLE.items()])
        if not isinstance(item, VStr) or sch.get("content_type") != "str":
            return z3.BoolVal(False)
        f = fld(cls, "content_type", S)(me(c))
        return z3.Or(item.t == f, item.t == STRIP(f))

    def e_num(c):
        m = _meta(c)
        if m is None or sch.get(num) != "int" or not isinstance(m.get("image_number"), (VInt, VBool)):
            return z3.BoolVal(False)
        return ops.int_term(m["image_number"]) == fld(cls, num, I)(me(c))

    def e_ct(c):
        m = _meta(c)
        return z3.BoolVal(False) if m is None else stored_ct(c, m.get("content_type"))

    def e_unit(c):
        m = _meta(c)
        if m is None:
            return z3.BoolVal(False)
        u = m.get("unit_number")
        if unit is None:
            return z3.BoolVal(isinstance(u, VNoneT))
        if isinstance(unit, tuple):
            if isinstance(u, VNoneT):
                return z3.BoolVal(True)
            st_ = _opt_int(sch, cls, unit[0], me(c))
            return z3.BoolVal(False) if st_ is None else _is_opt(u, st_[0], st_[1] + unit[1])
        st_ = _opt_int(sch, cls, unit, me(c))
        return z3.BoolVal(False) if st_ is None else _is_opt(u, st_[0], st_[1])

    def e_size(c):
        m = _meta(c)
        if m is None:
            return z3.BoolVal(False)
        cs = []
        for f in ("width", "height"):
            st_ = _size(sch, cls, f, me(c))
            if st_ is None:
                return z3.BoolVal(False)
            cs.append(_is_opt(m.get(f), z3.Or(st_[0], st_[1] <= 0), st_[1]))
        return z3.And(cs)

    def e_gct(c):
        return stored_ct(c, c.result)

    def stream(c):
        """(content term, position term | None) of the returned stream; None when the result is not a stream of the model."""
        r = c.result
        if isinstance(r, VExt) and r.sort == STREAM:
            return CONTENT(r.t), _spos(c.st, r.t)
        if isinstance(r, VRef):
            o = c.st.obj(r.ref)
            if o.kind == "obj" and o.cls == "BytesIO" and isinstance(o.data.get("content"), VExt):
                return o.data["content"].t, ops.int_term(o.data["pos"])
        return None

    def stored_payload(c):
        pf = payload_field(c.ex.class_module(cls), cls)
        if pf is None:
            return None
        f, how, opt = pf
        t = fld(cls, f, ext_sort(STREAM if how == "stream" else PAYLOAD))(me(c))
        t = CONTENT(t) if how == "stream" else t
        return z3.If(fld(cls, f + ".is_none", B)(me(c)), EMPTY, t) if opt else t

    def e_payload(c):
        s_, p_ = stream(c), stored_payload(c)
        return z3.BoolVal(False) if s_ is None or p_ is None else s_[0] == p_

    def e_pos(c):
        s_ = stream(c)
        return z3.BoolVal(False) if s_ is None or s_[1] is None else s_[1] == 0

    return {"get_metadata": [e_num, e_ct, e_unit, e_size], "get_content_type": [e_gct], "get_bytes": [e_payload, e_pos]}


def run(repo, tier, contracts_of):
    """EXTRA body (never raises): obligations `C14/data_types.py::<Class>.<accessor>/ensures#<label>` + `/raises`."""
    obls, fns = [], []
    try:
        mod = loader.module(DT, repo)
        reg = Registry()
        for c in contracts_of(reg):
            reg.add(c)
        reg.add(_px_view())
        reg.ext_models["io.BytesIO"] = _m_bytesio
        reg.ext_models["str.strip"] = _m_strip
        reg.ext_models["str.lower"] = _m_lower
        uni = Universe(repo)
    except Exception as e:  # noqa
        return {"obligations": [ground_obligation(f"C14/data_types.py::{cls}.{m}/ensures#{lab}", False, f"not executable: {type(e).__name__}: {e}"[:300],
                                                  DT, kind="ensures", definite=False)
                                for cls in CLASSES for m in METHODS for lab in LABELS[m]
                                if not (cls == "RtfImage" and lab == LABELS["get_metadata"][3])], "functions": []}
    for cls in CLASSES:
        sch = class_schema(mod, cls) or {}
        sp = specs(cls, sch)
        for m in METHODS:
            qn, base = f"{cls}.{m}", f"C14/data_types.py::{cls}.{m}"
            labs = labels_of(m, sch) if sch else (LABELS[m][:3] if (cls == "RtfImage" and m == "get_metadata") else LABELS[m])
            try:
                fn = mod.functions.get(qn)
                if fn is None:
                    raise ops.Unsupported("the accessor is not defined in the class")
                c = FnContract(target=f"{DT}::{qn}", params=[("self", p_ext(cls))], ensures=list(zip(labs, sp[m])), raises=[], total=True,
                               note="observation accessor: what the caller sees is what the extractor stored")
                ex = AccessExecutor(mod, reg, uni)
                ex.contract = c
                ex.oid_prefix = base
                got, _cov = verify.generate(ex, c, mod, fn)
                ds = []
                for _k, ob in got.items():
                    d = verify.discharge(ob, None, getattr(ex, "witness_terms", {}))
                    d.update(function=f"{DT}::{qn}")
                    ds.append(d)
                want = {f"{base}/ensures#{lab}" for lab in labs}
                if not want <= {d["id"] for d in ds}:
                    raise ops.Unsupported("no normal outcome")
                obls.extend(ds)
                fns.append(dict(mod.fn_info(qn), obligations=len(ds)))
            except Exception as e:  # noqa -- outside the subset: undecided, the native replay decides
                for lab in labs:
                    g = ground_obligation(f"{base}/ensures#{lab}", False, f"not executable: {type(e).__name__}: {e}"[:300], DT, kind="ensures", definite=False)
                    g["function"] = f"{DT}::{qn}"
                    obls.append(g)
    return {"obligations": obls, "functions": fns}


# ==================================================================================================================
# content-type helpers of the library under a contract (round 7): xlsx `_get_content_type(filename)`, ODF `guess_content_type(path)`
# ==================================================================================================================
XLSX = "sharepoint2text/parsing/extractors/ms_modern/xlsx_extractor.py"
ODF_SHARED = "sharepoint2text/parsing/extractors/open_office/_shared.py"
RASTER_CT = {"png": "image/png", "jpg": "image/jpeg", "jpeg": "image/jpeg", "gif": "image/gif", "bmp": "image/bmp"}
MIME = z3.Function("mimetypes.guess_type.type", S, S)             # assumed library model: the type component of guess_type(path) ...
MIME_NONE = z3.Function("mimetypes.guess_type.type_is_none", S, B)      # ... which is None for a name it does not know
HELPERS = ((XLSX, "_get_content_type", "raster-extensions-map-to-their-content-type"),
           (ODF_SHARED, "guess_content_type", "answer-of-mimetypes-else-octet-stream-never-empty"))


def ext_of(f):
    """text after the last dot (the term the engine's exact models of rsplit('.', 1) / rpartition('.') produce)"""
    k = z3.LastIndexOf(f, z3.StringVal("."))
    return z3.SubString(f, k + 1, z3.Length(f) - k - 1)


def _m_guess_type(ex, st, args, kwargs, node):
    from pyvc.values import VTuple, VUnk
    if len(args) != 1 or kwargs or not isinstance(args[0], VStr):
        raise ops.Unsupported(f"{ex.loc(node)} mimetypes.guess_type of something else than one str")
    p = args[0].t
    out = []
    if ex.feasible(st.pc, MIME_NONE(p)):
        out.append((st.fork().assume(MIME_NONE(p)), VTuple([NONE, VUnk("encoding")])))
    if ex.feasible(st.pc, z3.Not(MIME_NONE(p))):
        out.append((st.assume(z3.Not(MIME_NONE(p))), VTuple([VStr(MIME(p)), VUnk("encoding")])))
    return out


def _helper_spec(qual, pname):
    def raster(c):
        f, r = c.args[pname].t, c.result
        if not isinstance(r, VStr):
            return z3.BoolVal(False)
        dotted_ = z3.Contains(f, z3.StringVal("."))
        return z3.And([z3.Implies(z3.And(dotted_, LOWER(ext_of(f)) == z3.StringVal(k)), r.t == z3.StringVal(v)) for k, v in RASTER_CT.items()])

    def guess(c):
        p, r = c.args[pname].t, c.result
        if not isinstance(r, VStr):
            return z3.BoolVal(False)
        known = z3.And(z3.Not(MIME_NONE(p)), MIME(p) != z3.StringVal(""))
        return z3.And(z3.Implies(known, r.t == MIME(p)), z3.Implies(z3.Not(known), r.t == z3.StringVal("application/octet-stream")))
    return raster if qual == "_get_content_type" else guess


_VERIFIED = {}


def helper_verified(repo, rel, qual, contracts_of):
    """True when the content-type helper `qual` of module `rel` satisfies its contract on the current body (every obligation discharged by
    the solver).  Used by the call sites (C14._ct_from_extension): `content_type=<helper>(<part name>)` then needs no reading of the helper's
    shape.  Never raises; anything else than `all proved` is False (the caller falls back to the syntactic reader)."""
    key = (repo, rel, qual)
    if key not in _VERIFIED:
        try:
            lab = dict((q, l) for _r, q, l in HELPERS).get(qual)
            r = run_helpers(repo, "quick", contracts_of, ((rel, qual, lab),)) if lab else {"obligations": []}
            _VERIFIED[key] = len(r["obligations"]) >= 2 and all(o["status"] == "proved" and not o.get("bounded") for o in r["obligations"])
        except Exception:  # noqa
            _VERIFIED[key] = False
    return _VERIFIED[key]


def run_helpers(repo, tier, contracts_of, helpers=None):
    """EXTRA body (never raises)."""
    from pyvc.verify import p_str
    obls, fns = [], []
    for rel, qual, lab in (helpers or HELPERS):
        base = f"C14/{rel.split('/')[-1]}::{qual}"
        try:
            mod = loader.module(rel, repo)
            fn = mod.functions.get(qual)
            if fn is None or len(fn.args.args) != 1:
                raise ops.Unsupported("helper not found (or not a function of one name)")
            reg = Registry()
            for c in contracts_of(reg):
                reg.add(c)
            reg.ext_models["str.lower"] = _m_lower
            reg.ext_models["mimetypes.guess_type"] = _m_guess_type
            pn = fn.args.args[0].arg
            c = FnContract(target=f"{rel}::{qual}", params=[(pn, p_str())], ensures=[(lab, _helper_spec(qual, pn))], raises=[], total=True,
                           note="content type of a part name: the raster extensions of the property, case-insensitively (str.lower = LOWER)")
            ex = C14Executor(mod, reg, Universe(repo))
            ex.contract = c
            ex.oid_prefix = base
            got, _cov = verify.generate(ex, c, mod, fn)
            ds = []
            for _k, ob in got.items():
                d = verify.discharge(ob, None, getattr(ex, "witness_terms", {}))
                d.update(function=f"{rel}::{qual}")
                ds.append(d)
            if f"{base}/ensures#{lab}" not in {d["id"] for d in ds}:
                raise ops.Unsupported("no normal outcome")
            obls.extend(ds)
            fns.append(dict(mod.fn_info(qual), obligations=len(ds)))
        except Exception as e:  # noqa
            g = ground_obligation(f"{base}/ensures#{lab}", False, f"not executable: {type(e).__name__}: {e}"[:300], rel, kind="ensures", definite=False)
            g["function"] = f"{rel}::{qual}"
            obls.append(g)
    return {"obligations": obls, "functions": fns}


# ==================================================================================================================
# key expressions of the content-type tables: `<table>.get(<key>)` with <key> a pure string expression over the part name
# ==================================================================================================================
_KEYS = {}


def key_proved(mod, e, n, repo, contracts_of):
    """True when the engine PROVES, for every str `n` that contains a dot, <e> == LOWER(text after the last dot of n) -- the exact models of
    rsplit(sep, 1) / rpartition / `in` / conditional expressions / indexing, str.lower as the function LOWER.  Anything else (not executable,
    may raise, solver model -- LOWER is uninterpreted, so a model is no refutation) is None: the caller falls back to the recognised shapes
    and to the bounded evaluation on EXT_CORPUS.  Never raises."""
    from pyvc.verify import p_str
    key = (repo, mod.rel, ast.unparse(e), n)
    if key in _KEYS:
        return _KEYS[key]
    res = None
    try:
        f = ast.parse(f"def _c14_key({n}):\n    return {ast.unparse(e)}\n").body[0]
        for x in ast.walk(f):
            if hasattr(x, "lineno"):
                x.lineno = getattr(e, "lineno", 1)
                x.end_lineno = getattr(e, "end_lineno", x.lineno)
        reg = Registry()
        for c in contracts_of(reg):
            reg.add(c)
        reg.ext_models["str.lower"] = _m_lower

        def spec(c):
            t, r = c.args[n].t, c.result
            if not isinstance(r, VStr):
                return z3.BoolVal(False)
            return z3.Implies(z3.Contains(t, z3.StringVal(".")), r.t == LOWER(ext_of(t)))
        c = FnContract(target=f"{mod.rel}::_c14_key", params=[(n, p_str())], ensures=[("key", spec)], raises=[], total=True)
        ex = C14Executor(mod, reg, Universe(repo))
        ex.contract = c
        ex.oid_prefix = "key"
        got, _cov = verify.generate(ex, c, mod, f)
        ds = [verify.discharge(ob, None, {}) for ob in got.values()]
        if "key/ensures#key" in got and len(ds) >= 2 and all(d["status"] == "proved" for d in ds):
            res = True
    except Exception:  # noqa
        res = None
    _KEYS[key] = res
    return res


# ==================================================================================================================
# ImageMetadata: the dict view (what `dict(i.get_metadata())` shows) mirrors the dataclass fields after __post_init__
# ==================================================================================================================
MD_FIELDS = ("unit_number", "image_number", "content_type", "width", "height")


def run_metadata_mirror(repo, tier, contracts_of):
    """EXTRA body (never raises): `ImageMetadata.__post_init__` on an instance with symbolic fields -- afterwards the dict view has exactly the
    five keys of the statement's observation, each with the value of the field of the same name."""
    from pyvc.verify import p_int, p_obj, p_opt, p_str, _eq
    qn = "ImageMetadata.__post_init__"
    base, lab = f"C14/data_types.py::{qn}", "dict-view-entries-are-the-fields-of-the-same-name"
    try:
        mod = loader.module(DT, repo)
        fn = mod.functions.get(qn)
        if fn is None:
            raise ops.Unsupported("ImageMetadata has no __post_init__ (is it still a dict subclass?)")
        reg = Registry()
        for c in contracts_of(reg):
            reg.add(c)
        makers = {"unit_number": p_opt(p_int()), "image_number": p_int(), "content_type": p_str(), "width": p_opt(p_int()), "height": p_opt(p_int())}

        def mirror(c):
            me = c.args["self"]
            view = c.st.ghost.get("C14.dictview", {}).get(str(me.ref))
            # every entry __post_init__ writes is a field, with the value of that field.  (That all five keys are present is also the work of
            # the class's __setattr__, which mirrors each field assignment of the generated __init__ -- not modelled, validated natively.)
            if view is None or not view or not set(view) <= set(MD_FIELDS):
                return z3.BoolVal(False)
            flds = c.st.obj(me.ref).data
            return z3.And([_eq(c.ex, c.st, view[f], flds[f]) for f in view])
        c = FnContract(target=f"{DT}::{qn}", params=[("self", p_obj("ImageMetadata", makers))], ensures=[(lab, mirror)], raises=[], total=True,
                       note="dict(i.get_metadata()) shows the five fields the accessor contracts speak about")
        ex = AccessExecutor(mod, reg, Universe(repo))
        ex.contract = c
        ex.oid_prefix = base
        got, _cov = verify.generate(ex, c, mod, fn)
        ds = []
        for _k, ob in got.items():
            d = verify.discharge(ob, None, {})
            d.update(function=f"{DT}::{qn}")
            ds.append(d)
        if f"{base}/ensures#{lab}" not in {d["id"] for d in ds}:
            raise ops.Unsupported("no normal outcome")
        return {"obligations": ds, "functions": [dict(mod.fn_info(qn), obligations=len(ds))]}
    except Exception as e:  # noqa
        g = ground_obligation(f"{base}/ensures#{lab}", False, f"not executable: {type(e).__name__}: {e}"[:300], DT, kind="ensures", definite=False)
        g["function"] = f"{DT}::{qn}"
        return {"obligations": [g], "functions": []}
