"""C05 round 7 -- reflection rules for `_get_type_registry` and the argparse ghost for `cli._build_parser`.

`_get_type_registry` was an ASSUMED contract (token `registry`, content cross-checked natively).  It is now VERIFIED on its real
body.  What stays assumed is the *language-level* reflection it is written in, over three uninterpreted predicates on names:
    INDIR(n)  n is listed by dir(data_types)  (dir lists every attribute name exactly once; getattr of a listed name succeeds)
    ISCLS(n)  isinstance(getattr(data_types, n), type)
    ISDC(n)   dataclasses.is_dataclass(getattr(data_types, n))
REG (c05spec) is *defined* as INDIR & ISCLS & ISDC.  The module-level `_TYPE_REGISTRY` is ghost state (has: name -> Bool,
val: name -> name of the attribute whose object is stored) with the module invariant `empty or complete`.

Rules (all additive; every other value falls through to SerExecutor):
    dir(<repo module>)            -> PTok('dirnames', module)
    for n in dir(m): ...          -> processed-set induction (for_dirnames; invariant from contract.dirnames_loop)
    {k: v for n in dir(m) if c}   -> the same loop of item stores into a fresh mapping
    getattr(m, n)                 -> PTok('modattr', module, n)
    isinstance(<modattr>, type)   -> ISCLS(n);   is_dataclass(<modattr>) -> ISDC(n)  (C05.m_is_dataclass)
    d[k] = <modattr>              -> class map store (heap kind 'clsmap')
    _TYPE_REGISTRY                -> PTok('typereg'): truth, .update(clsmap), `in`, [] read the ghost
"""
import ast

import z3

from pyvc.state import HeapObj
from pyvc.symex import LoopCtx, Outcome
from pyvc.values import NONE, VBool, VFunc, VMod, VRef, VStr, VTuple, fresh_name
from contracts import c05spec as sp
from contracts.c05exec import PTok, tname

S, B = sp.S, sp.B
T, F = z3.BoolVal(True), z3.BoolVal(False)
INDIR = z3.Function("INDIR", S, B)
ISCLS = z3.Function("ISCLS", S, B)
ISDC = z3.Function("ISDC", S, B)
AS, AB = z3.ArraySort(S, B), z3.ArraySort(S, S)
GHOST = "typereg"


def qualifies(q):
    return z3.And(ISCLS(q), ISDC(q))


def reg_definition():
    q = z3.String("q!regdef")
    return z3.ForAll([q], sp.REG(q) == z3.And(INDIR(q), qualifies(q)), patterns=[sp.REG(q)])


def complete(has, val, q):
    """The map holds exactly the registered names, each with the object bound to that name."""
    return z3.And(z3.Select(has, q) == sp.REG(q), z3.Implies(z3.Select(has, q), z3.Select(val, q) == q))


def forall_q(f, has):
    q = z3.String(fresh_name("q!reg"))
    return z3.ForAll([q], f(q), patterns=[z3.Select(has, q)])


class ReflectMixin:
    def global_name(self, name, node=None):
        if name == "dir":
            return VFunc("builtin", "dir")
        return super().global_name(name, node)

    def b_dir(self, st, args, kwargs, node):
        if len(args) == 1 and isinstance(args[0], VMod) and not kwargs:
            return [(st, PTok("dirnames", args[0].name))]
        return self.havoc_call(st, "dir", args, node)

    def b_getattr(self, st, args, kwargs, node):
        if len(args) == 2 and isinstance(args[0], VMod) and isinstance(args[1], VStr) and args[1].const() is None:
            return [(st, PTok("modattr", args[0].name, args[1].t))]
        return super().b_getattr(st, args, kwargs, node)

    def b_isinstance(self, st, args, kwargs, node):
        v, t = args
        if isinstance(v, PTok) and v.what == "modattr":
            classes = list(t.items) if isinstance(t, VTuple) else [t]
            if all((tname(c) or "").split(".")[-1] == "type" for c in classes) and classes:
                return [(st, VBool(ISCLS(v.b)))]
            self.unsupported(node, "isinstance of a module attribute against something other than `type`")
        return super().b_isinstance(st, args, kwargs, node)

    def eq_values(self, st, a, b):
        if isinstance(a, PTok) and isinstance(b, PTok) and a.what == b.what == "hints" and z3.is_expr(a.a) and z3.is_expr(b.a):
            return a.a == b.a                      # the resolved annotations of the same class
        return super().eq_values(st, a, b)

    # ------------------------------------------------------ the global registry --
    def _typereg(self, st, node=None):
        g = st.ghost.get(GHOST)
        if g is None:
            self.unsupported(node, "module-level registry used outside its accessor's contract")
        return g

    def truth(self, st, v):
        if isinstance(v, PTok) and v.what == "typereg":
            has, val = self._typereg(st)
            b, w = z3.Bool(fresh_name("regnonempty")), z3.String(fresh_name("regwitness"))
            st.assume(z3.Implies(b, z3.Select(has, w)))
            st.assume(z3.Implies(z3.Not(b), forall_q(lambda q: z3.Not(z3.Select(has, q)), has)))
            return VBool(b)
        if isinstance(v, VRef) and st.obj(v.ref).kind == "clsmap":
            return VBool(z3.Bool(fresh_name("truth")))
        return super().truth(st, v)

    def b_len(self, st, args, kwargs, node):
        if args and isinstance(args[0], PTok) and args[0].what == "typereg":
            from pyvc.values import VInt
            n = z3.Int(fresh_name("reglen"))
            st.assume(z3.And(n >= 0, (n > 0) == self.truth(st, args[0]).t))
            return [(st, VInt(n))]
        return super().b_len(st, args, kwargs, node)

    def call_method(self, st, obj, name, args, kwargs, node):
        if isinstance(obj, PTok) and obj.what == "typereg":
            if name == "update" and len(args) == 1 and not kwargs and isinstance(args[0], VRef):
                o = st.obj(args[0].ref)
                has, val = self._typereg(st, node)
                if o.kind == "dict" and not o.data:
                    return [(st, NONE)]
                if o.kind == "clsmap":
                    h2, v2 = o.data
                    nh, nv = z3.Const(fresh_name("reghas"), AS), z3.Const(fresh_name("regval"), AB)
                    st.assume(forall_q(lambda q: z3.And(z3.Select(nh, q) == z3.Or(z3.Select(has, q), z3.Select(h2, q)),
                                                        z3.Select(nv, q) == z3.If(z3.Select(h2, q), z3.Select(v2, q), z3.Select(val, q))), nh))
                    st.ghost[GHOST] = (nh, nv)
                    return [(st, NONE)]
            self.unsupported(node, f"_TYPE_REGISTRY.{name}(...) (only one-step publication by update(<local map>) is modelled)")
        return super().call_method(st, obj, name, args, kwargs, node)

    def store_index(self, st, base, idx, v, node):
        if isinstance(base, PTok) and base.what == "typereg":
            self.unsupported(node, "entry-by-entry publication into the module-level registry")
        if isinstance(base, VRef) and st.obj(base.ref).kind == "clsmap":
            o = st.obj(base.ref)
            if isinstance(idx, VStr) and isinstance(v, PTok) and v.what == "modattr":
                has, val = o.data
                st.heap[base.ref] = HeapObj("clsmap", (z3.Store(has, idx.t, T), z3.Store(val, idx.t, v.b)), None, o.fresh)
                return [st]
            self.unsupported(node, "store into the class map of something that is not a module attribute under a str key")
        return super().store_index(st, base, idx, v, node)

    # --------------------------------------------------------------- the loop --
    def s_For(self, s, st):
        if isinstance(s.iter, ast.Call) and isinstance(s.iter.func, ast.Name) and s.iter.func.id == "dir" and st.lookup("dir") is None:
            outs = []
            for (s2, it) in self.ev(s.iter, st):
                if isinstance(it, PTok) and it.what == "dirnames":
                    outs.extend(self.for_dirnames(s, s2, it.a))
                else:
                    self.unsupported(s, "loop over dir(<something that is not a repository module>)")
            return outs
        return super().s_For(s, st)

    def e_DictComp(self, n, st):
        g = n.generators[0] if len(n.generators) == 1 else None
        if g is not None and not g.is_async and isinstance(g.iter, ast.Call) and isinstance(g.iter.func, ast.Name) and g.iter.func.id == "dir" \
                and st.lookup("dir") is None:
            cache = self.__dict__.setdefault("_dircomp_loops", {})
            if id(n) not in cache:
                acc = f"__c05_regacc_{n.lineno}_{n.col_offset}"
                body = ast.Assign(targets=[ast.Subscript(value=ast.Name(id=acc, ctx=ast.Load()), slice=n.key, ctx=ast.Store())], value=n.value)
                for cond in reversed(g.ifs):
                    body = ast.If(test=cond, body=[body], orelse=[])
                loop = ast.For(target=g.target, iter=g.iter, body=[body], orelse=[])
                ast.copy_location(loop, n)
                ast.fix_missing_locations(loop)
                cache[id(n)] = (n, acc, loop)
            _n, acc, loop = cache[id(n)]
            ref = st.alloc(HeapObj("dict", {}, None, True), self.refs)
            st.bind(acc, VRef(ref))
            outs = []
            for o in self.exec_stmt(loop, st):
                if o.kind == "fall":
                    outs.append((o.st, VRef(ref)))
                elif o.kind == "raise":
                    self.raise_in(o.st, o.val)
                else:
                    self.unsupported(n, "control flow escaping a comprehension")
            return outs
        return super().e_DictComp(n, st)

    def for_dirnames(self, s, st, modname):
        """for name in dir(module): every listed name exactly once (processed-set induction; the order plays no role for a
        mapping keyed by name).  Invariant sees lc.extra['seen'] (Array name -> Bool)."""
        spec = getattr(self.contract, "dirnames_loop", None) if self.contract is not None else None
        if spec is None or spec.inv is None:
            self.unsupported(s, "loop over dir(module) needs an invariant")
        label = spec.label or f"L{s.lineno}"
        for ref in self.mutated_refs(s.body, st):                  # mappings created empty before the loop and filled inside it
            o = st.heap.get(ref)
            if o is not None and o.kind == "dict" and not o.data:
                st.heap[ref] = HeapObj("clsmap", (z3.K(S, F), z3.K(S, z3.StringVal(""))), None, o.fresh)
        entry = st.fork()
        ctx = lambda state, seen: LoopCtx(self, state, None, entry, extra={"seen": seen, "module": modname})
        self.add_vc("inv-init", label, st.pc, self._b(spec.inv(ctx(st, z3.K(S, F)))), loc=self.loc(s))
        outs = []
        body = st.fork()
        before = dict(body.heap)
        self.havoc_loop_state(body, s.body, spec)
        for ref in sorted(self.mutated_refs(s.body, st)):
            o = before.get(ref)
            if o is not None and o.kind == "clsmap":
                body.heap[ref] = HeapObj("clsmap", (z3.Const(fresh_name("has"), AS), z3.Const(fresh_name("val"), AB)), None, o.fresh)
        after = body.fork()
        seen = z3.Const(fresh_name("seen"), AS)
        nm = z3.String(fresh_name("attrname"))
        q = z3.String("q!dirseen")
        body.assume(z3.ForAll([q], z3.Implies(z3.Select(seen, q), INDIR(q)), patterns=[z3.Select(seen, q)]))
        body.assume(z3.And(INDIR(nm), z3.Not(z3.Select(seen, nm))))
        body.assume(self._b(spec.inv(ctx(body, seen))))
        for s3 in self.assign(s.target, VStr(nm), body):
            for o in self.exec_block(s.body, s3):
                if o.kind in ("fall", "continue"):
                    self.add_vc("inv-preserve", label, o.st.pc, self._b(spec.inv(ctx(o.st, z3.Store(seen, nm, T)))), loc=self.loc(s))
                elif o.kind == "break":
                    self.unsupported(s, "break in a loop over dir(module)")
                else:
                    outs.append(o)
        allseen = z3.Const(fresh_name("allseen"), AS)
        after.assume(z3.ForAll([q], z3.Select(allseen, q) == INDIR(q), patterns=[z3.Select(allseen, q)]))
        after.assume(self._b(spec.inv(ctx(after, allseen))))
        if s.orelse:
            outs.extend(self.exec_block(s.orelse, after))
        else:
            outs.append(Outcome("fall", after))
        return outs


# ------------------------------------------------------------- contract clauses --
def class_maps(lc):
    out = []
    for fr in lc.st.frames:
        for _name, val in fr.env.items():
            if isinstance(val, VRef) and lc.st.obj(val.ref).kind == "clsmap" and not any(val.ref == o.ref for o in out):
                out.append(val)
    return out


def dirnames_inv(lc):
    """The one local map holds exactly the processed names that are dataclass classes, each with its own object."""
    maps = class_maps(lc)
    if len(maps) != 1:
        return F
    has, val = lc.st.obj(maps[0].ref).data
    seen = lc.extra["seen"]
    return forall_q(lambda q: z3.And(z3.Select(has, q) == z3.And(z3.Select(seen, q), qualifies(q)),
                                     z3.Implies(z3.Select(has, q), z3.Select(val, q) == q)), has)


def entry_state(c):
    """Module invariant of `_TYPE_REGISTRY` at entry: empty (its initial value, checked on the AST) or complete."""
    has, val = z3.Const(fresh_name("reghas0"), AS), z3.Const(fresh_name("regval0"), AB)
    c.st.ghost[GHOST] = (has, val)
    c.entry.ghost[GHOST] = (has, val)
    empty = forall_q(lambda q: z3.Not(z3.Select(has, q)), has)
    full = forall_q(lambda q: complete(has, val, q), has)
    return z3.And(reg_definition(), z3.Or(empty, full))


def map_of(c, v):
    if isinstance(v, PTok) and v.what == "typereg":
        return c.st.ghost.get(GHOST)
    if isinstance(v, VRef) and c.st.obj(v.ref).kind == "clsmap":
        return c.st.obj(v.ref).data
    return None


def result_complete(c):
    m = map_of(c, c.result)
    if m is None:
        c.note = f"the function returns {c.result!r}, not a name -> class mapping the rules follow"
        return F
    q = z3.String(fresh_name("q!any"))            # fresh, hence arbitrary: the clause holds for every name
    return complete(m[0], m[1], q)


def published_complete(c):
    m = c.st.ghost.get(GHOST)
    if m is None:
        return F
    q = z3.String(fresh_name("q!any"))
    return complete(m[0], m[1], q)


# ---------------------------------------------------------------- argparse ghost --
def install_argparse(reg):
    """argparse (ASSUMED library semantics, only what the CLI contract reads): an option declared with action='store_true'
    yields a bool attribute, False unless the flag is given; its attribute name is `dest`, else the first long option string
    without the leading dashes and with '-' -> '_'.  Every add_argument call (also through groups) is recorded in the ghost
    `argparse_options` as (option strings, dest, action, other keywords)."""
    from pyvc.values import VExt, VUnk

    def new_parser(ex, st, args, kwargs, node):
        return [(st, VExt("ArgParser"))]

    def add_argument(ex, st, obj, args, kwargs, node):
        flags = []
        for a in args:
            c = a.const() if isinstance(a, VStr) else None
            if c is None:
                ex.unsupported(node, "add_argument with an option string that is not a constant")
            flags.append(c)
        kw = {}
        for k, v in kwargs.items():
            if isinstance(v, VStr) and v.const() is not None:
                kw[k] = v.const()
            elif isinstance(v, VBool) and v.const() is not None:
                kw[k] = v.const()
            elif v is NONE:
                kw[k] = None
            else:
                kw[k] = ("opaque", repr(v))
        st.ghost["argparse_options"] = tuple(st.ghost.get("argparse_options", ())) + ((tuple(flags), kw),)
        return [(st, VUnk("argparse.Action"))]

    def group(ex, st, obj, args, kwargs, node):
        return [(st, VExt("ArgParser"))]

    reg.ext_models[("new", "argparse.ArgumentParser")] = new_parser
    reg.ext_models["argparse.ArgumentParser"] = new_parser
    reg.method_models[("ArgParser", "add_argument")] = add_argument
    reg.method_models[("ArgParser", "add_mutually_exclusive_group")] = group
    reg.method_models[("ArgParser", "add_argument_group")] = group


def option_dest(flags, kw):
    if isinstance(kw.get("dest"), str):
        return kw["dest"]
    longs = [f for f in flags if f.startswith("--")]
    first = longs[0] if longs else (flags[0] if flags else "")
    return first.lstrip("-").replace("-", "_")


def parser_flags(c, wanted):
    """Every flag the CLI contract reads is declared exactly once as a store_true switch (default False) under the attribute
    name main reads, and no other declaration writes that attribute."""
    opts = c.st.ghost.get("argparse_options", ())
    bad = []
    for flag, dest in wanted.items():
        mine = [(fl, kw) for fl, kw in opts if flag in fl]
        same_dest = [(fl, kw) for fl, kw in opts if option_dest(fl, kw) == dest]
        if len(mine) != 1:
            bad.append(f"{flag} declared {len(mine)} times")
            continue
        fl, kw = mine[0]
        if option_dest(fl, kw) != dest:
            bad.append(f"{flag} is stored as `{option_dest(fl, kw)}`, main reads `{dest}`")
        if kw.get("action") != "store_true":
            bad.append(f"{flag} has action {kw.get('action')!r} (not a switch that is False unless given)")
        if kw.get("default", False) not in (False, None) or "const" in kw or "type" in kw or "nargs" in kw:
            bad.append(f"{flag} has a default / const / type / nargs that changes the switch")
        if len(same_dest) != 1:
            bad.append(f"attribute `{dest}` is written by {len(same_dest)} declarations")
    c.note = "; ".join(bad) if bad else f"{len(opts)} declarations; {', '.join(wanted)} are store_true switches"
    return F if bad else T


# ------------------------------------------------- FileMetadataInterface.populate_from_path --
PATH_FIELDS = ("filename", "file_extension", "file_path", "folder_path")


def install_pathlib(reg):
    """pathlib (ASSUMED, as in pack C04): Path(x) is total for str / Path; .name / .suffix are str, .parent is a Path; exists() is a
    file-system query that may raise OSError; resolve() returns a Path or raises OSError / RuntimeError; str(p) is a str (the base
    executor's str() of an abstract object).  Any other argument of Path(...) keeps the previous behaviour (unmodelled call)."""
    from pyvc.values import VExt, ext_sort
    P = ext_sort("Path")
    f = lambda n, *s: z3.Function(n, *s)
    P_OF, P_NAME, P_SUFFIX = f("pathlib.Path", S, P), f("Path.name", P, S), f("Path.suffix", P, S)
    P_PARENT, P_EXISTS, P_RESOLVE = f("Path.parent", P, P), f("Path.exists", P, B), f("Path.resolve", P, P)

    def new_path(ex, st, args, kwargs, node):
        a = args[0] if len(args) == 1 and not kwargs else None
        if isinstance(a, VStr):
            return [(st, VExt("Path", P_OF(a.t)))]
        if isinstance(a, VExt) and a.sort == "Path":
            return [(st, a)]
        return ex.havoc_call(st, "pathlib.Path", args, node)

    def m_exists(ex, st, o, args, kwargs, node):
        ex.raise_in(st.fork(), ex.mk_exc("OSError"))
        return [(st, VBool(P_EXISTS(o.t)))]

    def m_resolve(ex, st, o, args, kwargs, node):
        for cls in ("OSError", "RuntimeError"):
            ex.raise_in(st.fork(), ex.mk_exc(cls))
        return [(st, VExt("Path", P_RESOLVE(o.t)))]
    for key in ("pathlib.Path", ("new", "pathlib.Path"), ("new", "Path")):
        reg.ext_models.setdefault(key, new_path)
    reg.attr_models.setdefault(("Path", "name"), lambda ex, st, o: VStr(P_NAME(o.t)))
    reg.attr_models.setdefault(("Path", "suffix"), lambda ex, st, o: VStr(P_SUFFIX(o.t)))
    reg.attr_models.setdefault(("Path", "stem"), lambda ex, st, o: VStr(z3.Function("Path.stem", P, S)(o.t)))
    reg.attr_models.setdefault(("Path", "parent"), lambda ex, st, o: VExt("Path", P_PARENT(o.t)))
    reg.method_models.setdefault(("Path", "exists"), m_exists)
    reg.method_models.setdefault(("Path", "resolve"), m_resolve)


def populate_contract(target, Maker, FnContract, Raises):
    """populate_from_path(path): with path None nothing is stored; otherwise each of the four path fields holds a str afterwards --
    i.e. a value inhabiting its declared hint `str | None`, which is what the encoder and the type-directed decoder rely on.
    `self` is a metadata object whose fields are all None (fresh) or arbitrary strings; path is None, a str or a pathlib.Path."""
    from pyvc.values import VExt, ext_sort

    def p_self():
        def mk(ex, st, name):
            out = []
            for fresh in (True, False):
                d = {f_: (NONE if fresh else VStr(z3.String(f"{name}.{f_}"))) for f_ in PATH_FIELDS + ("detected_encoding",)}
                out.append((None, VRef(st.alloc(HeapObj("obj", d, "FileMetadataInterface", fresh=False), ex.refs))))
            return out
        return Maker(mk, desc="FileMetadataInterface (all fields None | arbitrary previous strings)")

    def p_path():
        def mk(ex, st, name):
            return [(None, NONE), (None, VStr(z3.String(name))), (None, VExt("Path", z3.Const(name + "!path", ext_sort("Path"))))]
        return Maker(mk, desc="None | str | pathlib.Path")

    def flds(c, st=None):
        return (st or c.st).obj(c.args["self"].ref).data

    def untouched(c):
        if c.args["path"] is not NONE:
            return T
        d, d0 = flds(c), flds(c, c.entry)
        return z3.BoolVal(d.keys() == d0.keys() and all(d[k] is d0[k] for k in d0))

    def is_str(field):
        def g(c):
            if c.args["path"] is NONE:
                return T
            v = flds(c).get(field)
            if isinstance(v, VStr):
                return T
            c.note = f"{field} holds {v!r} after populate_from_path(<{type(c.args['path']).__name__}>): not a str"
            return F
        return g

    def only_declared(c):
        extra = sorted(set(flds(c)) - set(flds(c, c.entry)))
        c.note = f"attributes that are not declared fields: {extra}" if extra else ""
        return z3.BoolVal(not extra)

    return FnContract(
        target=target, params=[("self", p_self()), ("path", p_path())],
        ensures=[("no-path-leaves-the-fields-untouched", untouched)] +
                [(f"{f_}-holds-a-str", is_str(f_)) for f_ in PATH_FIELDS] +
                [("stores-declared-fields-only", only_declared)],
        raises=[Raises("OSError", when=lambda c: z3.BoolVal(c.args["path"] is not NONE), label="file-system query failed"),
                Raises("RuntimeError", when=lambda c: z3.BoolVal(c.args["path"] is not NONE), label="symlink loop in resolve()")],
        modifies=("self",),
        note="VERIFIED (round 7; before: provenance data flow + BOUNDED native scope): the four path fields hold str values after the "
             "call (hint `str | None`), nothing is stored for path None; relative to the assumed pathlib model")


# ---------------------------------------------------------------- __post_init__ --
STRIP = z3.Function("STRIP", S, S)          # str.strip() without arguments (ASSUMED: idempotent; validated natively by scope post-init-idempotent)


def install_strip(reg):
    def m_strip(ex, st, args, kwargs, node):
        if len(args) == 1 and not kwargs and isinstance(args[0], VStr):
            return [(st, VStr(STRIP(args[0].t)))]
        return [(st, VStr(z3.String(fresh_name("strip"))))]
    reg.ext_models.setdefault("str.strip", m_strip)


def class_fields(mod, cname, seen=()):
    """[(field name, annotation text)] of a dataclass incl. the bases defined in the same module (bases first)."""
    cn = mod.classes.get(cname)
    if cn is None or cname in seen:
        return []
    out = []
    for b in cn.bases:
        if isinstance(b, ast.Name):
            out += class_fields(mod, b.id, seen + (cname,))
    for b in cn.body:
        if isinstance(b, ast.AnnAssign) and isinstance(b.target, ast.Name) and "ClassVar" not in ast.unparse(b.annotation):
            out = [x for x in out if x[0] != b.target.id] + [(b.target.id, ast.unparse(b.annotation))]
    return out


def post_init_contracts(mod, rel, Maker, FnContract, Raises):
    """__post_init__ as a state transformer T over the declared fields: running it a second time changes nothing, T(T(s)) == T(s)
    field by field -- what from_json needs (the constructor runs __post_init__ again on already normalised values).  The second run
    is the first one's result terms with every old field replaced by its new value; str.strip() is an uninterpreted function with
    the idempotence instances at the fields as hypotheses.  `dict.__init__(self, ...)` mirrors (ImageMetadata) stay syntactic."""
    from pyvc.values import VUnk
    out = []
    for cname, cn in mod.classes.items():
        if "." in cname:
            continue
        fn = next((b for b in cn.body if isinstance(b, ast.FunctionDef) and b.name == "__post_init__"), None)
        if fn is None or "dict.__init__" in ast.unparse(fn) or len(fn.args.args) != 1:
            continue
        flds_ = class_fields(mod, cname)
        strs = [f_ for f_, ann in flds_ if ann in ("str", "builtins.str")]

        def p_self(cname=cname, flds_=flds_, strs=strs):
            def mk(ex, st, name):
                d = {f_: (VStr(z3.String(f"{name}.{f_}")) if f_ in strs else VUnk(f"{cname}.{f_}")) for f_, _a in flds_}
                return [(None, VRef(st.alloc(HeapObj("obj", d, cname, fresh=False), ex.refs)))]
            return Maker(mk, desc=f"{cname} as its constructor hands it to __post_init__ (str fields symbolic)")

        def hyps(c, strs=strs):
            d0 = c.entry.obj(c.args["self"].ref).data
            return z3.And([STRIP(STRIP(d0[f_].t)) == STRIP(d0[f_].t) for f_ in strs] + [T])

        def idempotent(c, strs=strs, cname=cname):
            d0, d1 = c.entry.obj(c.args["self"].ref).data, c.st.obj(c.args["self"].ref).data
            if set(d1) != set(d0):
                c.note = f"attributes that are not declared fields: {sorted(set(d1) - set(d0))}"
                return F
            sub, goals = [], []
            for f_ in d0:
                if d1[f_] is d0[f_]:
                    continue
                if not (f_ in strs and isinstance(d1[f_], VStr)):
                    c.note = f"{cname}.{f_} is rewritten to {d1[f_]!r}: not a str normalisation the rule follows"
                    return F
                sub.append((d0[f_].t, d1[f_].t))
            # the new values must be FUNCTIONS of the old fields: a result the executor only knows as a fresh constant (an unmodelled str
            # method such as lstrip(chars)) would make the substitution below vacuous
            olds = {d0[f_].t.get_id() for f_ in d0 if isinstance(d0[f_], VStr)}
            for _old, new in sub:
                todo, seen_ = [new], set()
                while todo:
                    e = todo.pop()
                    if e.get_id() in seen_:
                        continue
                    seen_.add(e.get_id())
                    if z3.is_app(e) and e.num_args() == 0 and e.decl().kind() == z3.Z3_OP_UNINTERPRETED and e.get_id() not in olds:
                        c.note = f"{cname}: a new field value depends on `{e}`, the opaque result of a str method the rules do not model"
                        return F
                    todo.extend(e.children())
            for old, new in sub:
                goals.append(z3.substitute(new, *sub) == new)
                goals.append(STRIP(STRIP(new)) == STRIP(new))        # (instances at the new values, for compositions)
            return z3.And([g for i, g in enumerate(goals) if i % 2 == 0] + [T])

        out.append(FnContract(
            target=f"{rel}::{cname}.__post_init__", params=[("self", p_self())], hyps=hyps,
            ensures=[("second-run-changes-nothing", idempotent)], modifies=("self",),
            raises=[Raises("AttributeError", label="a str field holding None (absent value): the constructor fails, outside C05")],
            note="VERIFIED (round 7; before: a syntactic pattern + BOUNDED native scope): T(T(s)) == T(s) for the field-wise transformer of the body, "
                 "relative to strip(strip(x)) == strip(x)"))
    return out
