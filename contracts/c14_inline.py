"""C14: AST-level inlining of small private same-module helpers, so that the AST analyses (program slices, numbering /
dataflow path counting) follow the data flow through "extract helper" refactorings instead of matching one function's text.

`inlined(mod, fn)` returns a copy of the function in which calls `T = _helper(args)`, `T1, T2 = _helper(args)`,
`_helper(args)` (statement) and -- for expression helpers (`return <expr>` only) -- calls anywhere inside an expression are
replaced by the helper's body:
  * parameters become assignments `p__h = <argument>` (defaults from the signature), locals are renamed `x__h`;
  * early returns are eliminated structurally (`if c: return a` + rest  ->  `if c: r = a  else: rest'`); a helper with a
    `return` inside a loop / try / with is NOT inlined (the call stays; the analyses then see an opaque call and answer
    `unknown`, never a refutation);
  * nodes get fresh, strictly increasing positions in execution (source) order; the original line is kept in `.orig_lineno`.
Only module-level functions whose name starts with `_`, that are not generators, not recursive, at most MAX_STMTS statements.
The transformation is semantics preserving for pure argument expressions (arguments are evaluated once, in order, into the
parameter assignments)."""
from __future__ import annotations

import ast
import copy

MAX_STMTS = 60
MAX_DEPTH = 3
# functions that carry their own contract / are recognised by the analyses as callees: never inlined
KEEP = {"_get_image_pixel_dimensions", "_get_content_type", "guess_content_type", "_normalize_relative_path", "_resolve_drawing_path",
        "resolve_part_name", "parse_relationships"}


def _is_generator(fn):
    for n in ast.walk(fn):
        if isinstance(n, (ast.Yield, ast.YieldFrom)):
            return True
    return False


def _returns_only_structured(stmts):
    """Every `return` sits in the function's if/else skeleton (not inside loops / with); a `try` whose branches return is accepted as the
    LAST statement of its block (nothing of the function runs after it)."""
    for k, s in enumerate(stmts):
        if isinstance(s, ast.Try) and any(isinstance(n, ast.Return) for n in ast.walk(s)):
            if k != len(stmts) - 1 or any(isinstance(n, ast.Return) for f in s.finalbody for n in ast.walk(f)):
                return False
            if not (_returns_only_structured(s.body) and _returns_only_structured(s.orelse) and all(_returns_only_structured(h.body) for h in s.handlers)):
                return False
            continue
        if isinstance(s, (ast.For, ast.While, ast.Try, ast.With, ast.AsyncFor, ast.AsyncWith)):
            if any(isinstance(n, ast.Return) for n in ast.walk(s)):
                return False
        elif isinstance(s, ast.If):
            if not (_returns_only_structured(s.body) and _returns_only_structured(s.orelse)):
                return False
        elif isinstance(s, (ast.FunctionDef, ast.ClassDef)):
            return False
    return True


def _always_returns(stmts):
    for s in stmts:
        if isinstance(s, (ast.Return, ast.Raise)):
            return True
        if isinstance(s, ast.If) and s.orelse and _always_returns(s.body) and _always_returns(s.orelse):
            return True
    return False


def _eliminate_returns(stmts, make_assign):
    """Statement list without `return`: returns become assignments of the result, the code after an if that returns moves
    into its else branch."""
    out = []
    for k, s in enumerate(stmts):
        if isinstance(s, ast.Return):
            out.extend(make_assign(s.value if s.value is not None else ast.Constant(value=None), s))
            return out
        if isinstance(s, ast.Try) and any(isinstance(n, ast.Return) for n in ast.walk(s)):
            # tail position (checked by _returns_only_structured): every branch assigns the result instead of returning
            nb = _eliminate_returns(list(s.body) + list(s.orelse), make_assign) if s.orelse and not _always_returns(s.body) else _eliminate_returns(list(s.body), make_assign)
            hs = [ast.copy_location(ast.ExceptHandler(type=h.type, name=h.name, body=_eliminate_returns(list(h.body), make_assign)), h) for h in s.handlers]
            out.append(ast.copy_location(ast.Try(body=nb, handlers=hs, orelse=[], finalbody=s.finalbody), s))
            return out
        if isinstance(s, ast.If) and any(isinstance(n, ast.Return) for n in ast.walk(s)):
            rest = stmts[k + 1:]
            body_ret, else_ret = _always_returns(s.body), _always_returns(s.orelse)
            nb = _eliminate_returns(list(s.body) + ([] if body_ret else copy.deepcopy(rest)), make_assign)
            ne = _eliminate_returns(list(s.orelse) + ([] if else_ret else copy.deepcopy(rest)), make_assign)
            out.append(ast.copy_location(ast.If(test=s.test, body=nb or [ast.Pass()], orelse=ne), s))
            return out
        out.append(s)
    # falling off the end returns None
    out.extend(make_assign(ast.Constant(value=None), stmts[-1] if stmts else None))
    return out


class _Renamer(ast.NodeTransformer):
    def __init__(self, mapping):
        self.m = mapping

    def visit_Name(self, n):
        if n.id in self.m:
            return ast.copy_location(ast.Name(id=self.m[n.id], ctx=n.ctx), n)
        return n

    def visit_Lambda(self, n):
        return n


def _locals_of(fn):
    names = [a.arg for a in fn.args.posonlyargs + fn.args.args + fn.args.kwonlyargs]
    for n in ast.walk(fn):
        if isinstance(n, ast.Name) and isinstance(n.ctx, ast.Store) and n.id not in names:
            names.append(n.id)
        elif isinstance(n, ast.ExceptHandler) and n.name and n.name not in names:
            names.append(n.name)
    return names


def _bind(helper, call):
    """[(param, argument expr)] or None when the call does not match the signature in a simple way."""
    a = helper.args
    if a.vararg or a.kwarg or a.posonlyargs:
        return None
    params = [x.arg for x in a.args]
    if any(isinstance(x, ast.Starred) for x in call.args) or any(k.arg is None for k in call.keywords):
        return None
    if len(call.args) > len(params):
        return None
    bound = {}
    for p, v in zip(params, call.args):
        bound[p] = v
    for k in call.keywords:
        if k.arg in bound or (k.arg not in params and k.arg not in [x.arg for x in a.kwonlyargs]):
            return None
        bound[k.arg] = k.value
    defaults = dict(zip(params[len(params) - len(a.defaults):], a.defaults))
    for x, d in zip(a.kwonlyargs, a.kw_defaults):
        if d is not None:
            defaults[x.arg] = d
    out = []
    for p in params + [x.arg for x in a.kwonlyargs]:
        if p in bound:
            out.append((p, bound[p]))
        elif p in defaults:
            out.append((p, defaults[p]))
        else:
            return None
    return out


class Inliner:
    def __init__(self, mod, top_name, keep=()):
        self.mod = mod
        self.top = top_name
        self.keep = set(KEEP) | set(keep)
        self.tail = False
        self.counter = 0
        self.inlined = []

    def helper(self, call, stack, tail=False):
        if not (isinstance(call, ast.Call) and isinstance(call.func, ast.Name)):
            return None
        name = call.func.id
        if not name.startswith("_") or name in stack or name == self.top or name in self.keep:
            return None
        h = self.mod.functions.get(name)
        if h is None or not isinstance(h, ast.FunctionDef) or _is_generator(h) or h.decorator_list:
            return None
        body = [s for s in h.body if not (isinstance(s, ast.Expr) and isinstance(s.value, ast.Constant))]
        if sum(1 for _ in ast.walk(h) if isinstance(_, ast.stmt)) > MAX_STMTS or (not tail and not _returns_only_structured(body)):
            return None
        if any(isinstance(n, ast.Call) and isinstance(n.func, ast.Name) and n.func.id == name for n in ast.walk(h)):
            return None
        if any(isinstance(n, (ast.Global, ast.Nonlocal)) for n in ast.walk(h)):
            return None
        return h

    def expand(self, h, call, result_targets, at, stack):
        """Statements replacing `result_targets = h(call args)` (result_targets: list of assignment targets, or None)."""
        binding = _bind(h, call)
        if binding is None:
            return None
        self.counter += 1
        sfx = f"__{h.name.strip('_')}{self.counter}"
        mapping = {n: n + sfx for n in _locals_of(h)}
        # in/out parameters: `x, a = h(..., p=a)` where every return of h hands p back at that position -- the helper works on the
        # caller's variable itself (threaded counters): p is the caller's name, no copy in, no copy out
        coalesced = set()
        if result_targets and len(result_targets) == 1:
            tg = result_targets[0]
            tnames = [e.id if isinstance(e, ast.Name) else None for e in tg.elts] if isinstance(tg, ast.Tuple) else [tg.id if isinstance(tg, ast.Name) else None]
            rets = [n for n in ast.walk(h) if isinstance(n, ast.Return)]
            for (pn, v) in binding:
                if isinstance(v, ast.Name) and v.id in tnames and tnames.count(v.id) == 1:
                    j = tnames.index(v.id)
                    ok = bool(rets)
                    for r in rets:
                        val = r.value
                        elts = val.elts if isinstance(val, ast.Tuple) and isinstance(tg, ast.Tuple) else ([val] if not isinstance(tg, ast.Tuple) else None)
                        if elts is None or len(elts) != len(tnames) or not (isinstance(elts[j], ast.Name) and elts[j].id == pn):
                            ok = False
                    if ok:
                        mapping[pn] = v.id
                        coalesced.add(pn)
        body = [copy.deepcopy(s) for s in h.body if not (isinstance(s, ast.Expr) and isinstance(s.value, ast.Constant))]
        ren = _Renamer(mapping)
        body = [ren.visit(s) for s in body]
        pre = [ast.Assign(targets=[ast.Name(id=mapping[p], ctx=ast.Store())], value=copy.deepcopy(v)) for (p, v) in binding if p not in coalesced]

        def make_assign(value, node):
            if result_targets is None:
                return [ast.Expr(value=value)] if not isinstance(value, (ast.Constant, ast.Name)) else []
            return [ast.Assign(targets=[copy.deepcopy(t) for t in result_targets], value=value)]
        new = pre + _eliminate_returns(body, make_assign)
        for s in new:
            for n in ast.walk(s):
                if not hasattr(n, "lineno"):
                    pass
            ast.copy_location(s, at)
        self.inlined.append(h.name)
        return self.block(new, stack + [h.name])

    def expand_tail(self, h, call, at, stack):
        """`return h(args)`: the helper's body takes the place of the statement, its own `return`s stay returns of the caller."""
        binding = _bind(h, call)
        if binding is None:
            return None
        self.counter += 1
        sfx = f"__{h.name.strip('_')}{self.counter}"
        mapping = {n: n + sfx for n in _locals_of(h)}
        ren = _Renamer(mapping)
        body = [ren.visit(copy.deepcopy(s)) for s in h.body if not (isinstance(s, ast.Expr) and isinstance(s.value, ast.Constant))]
        pre = [ast.Assign(targets=[ast.Name(id=mapping[p], ctx=ast.Store())], value=copy.deepcopy(v)) for (p, v) in binding]
        new = pre + body
        if not _always_returns(body):
            new.append(ast.Return(value=ast.Constant(value=None)))
        for s in new:
            ast.copy_location(s, at)
        self.inlined.append(h.name)
        return self.block(new, stack + [h.name])

    def expr_helper(self, h):
        body = [s for s in h.body if not (isinstance(s, ast.Expr) and isinstance(s.value, ast.Constant))]
        if len(body) == 1 and isinstance(body[0], ast.Return) and body[0].value is not None:
            return body[0].value
        return None

    def inline_exprs(self, node, stack):
        """Expression helpers (`def _h(a, b): return <expr>`) called inside expressions of statement `node`."""
        me = self

        class T(ast.NodeTransformer):
            def visit_Call(self, c):
                c = self.generic_visit(c)
                h = me.helper(c, stack)
                if h is None:
                    return c
                e = me.expr_helper(h)
                if e is None:
                    return c
                binding = _bind(h, c)
                if binding is None:
                    return c
                # substitute only when every argument is a plain name / constant / attribute (no re-evaluation issue)
                if not all(isinstance(v, (ast.Name, ast.Constant, ast.Attribute)) or
                           sum(1 for n in ast.walk(e) if isinstance(n, ast.Name) and n.id == p) <= 1 for (p, v) in binding):
                    return c
                assigned = {n.id for n in ast.walk(h) if isinstance(n, ast.Name) and isinstance(n.ctx, ast.Store)} | \
                    {n.target.id for n in ast.walk(h) if isinstance(n, ast.NamedExpr)}
                if assigned:
                    return c
                m = dict(binding)

                class S(ast.NodeTransformer):
                    def visit_Name(self, n):
                        if n.id in m and isinstance(n.ctx, ast.Load):
                            return copy.deepcopy(m[n.id])
                        return n

                    def visit_Lambda(self, n):
                        return n
                me.inlined.append(h.name)
                return ast.copy_location(S().visit(copy.deepcopy(e)), c)

            def visit_Lambda(self, n):
                return n
        for fld, val in ast.iter_fields(node):
            if isinstance(val, ast.expr):
                setattr(node, fld, T().visit(val))
            elif isinstance(val, list) and val and all(isinstance(x, ast.expr) for x in val):
                setattr(node, fld, [T().visit(x) for x in val])
        if isinstance(node, (ast.With,)):
            for it in node.items:
                it.context_expr = T().visit(it.context_expr)
        return node

    def hoist(self, s, stack):
        """`recv.method(..., _helper(args), ...)` / `T = f(..., _helper(args), ...)`: when every other argument is a plain name / constant /
        attribute (so that evaluating the helper first changes nothing), the helper call is bound to a fresh name in front of the statement."""
        call = s.value if isinstance(s, (ast.Expr, ast.Assign)) and isinstance(s.value, ast.Call) else None
        if call is None or self.helper(call, stack) is not None:
            return None
        simple = lambda e: isinstance(e, (ast.Name, ast.Constant)) or (isinstance(e, ast.Attribute) and simple(e.value))
        if not (simple(call.func) or (isinstance(call.func, ast.Attribute) and simple(call.func.value))):
            return None
        args = list(call.args) + [k.value for k in call.keywords]
        idx = [k for k, a in enumerate(args) if isinstance(a, ast.Call) and self.helper(a, stack) is not None and self.expr_helper(self.helper(a, stack)) is None]
        if len(idx) != 1 or not all(simple(a) for k, a in enumerate(args) if k != idx[0]):
            return None
        self.counter += 1
        tmp = f"__hoisted{self.counter}"
        inner = args[idx[0]]
        pre = ast.copy_location(ast.Assign(targets=[ast.Name(id=tmp, ctx=ast.Store())], value=inner), s)
        ref = ast.copy_location(ast.Name(id=tmp, ctx=ast.Load()), inner)
        if idx[0] < len(call.args):
            call.args[idx[0]] = ref
        else:
            call.keywords[idx[0] - len(call.args)].value = ref
        return [pre, s]

    def block(self, stmts, stack):
        out = []
        work = []
        for s in stmts:
            h = self.hoist(s, stack) if len(stack) <= MAX_DEPTH and isinstance(s, (ast.Expr, ast.Assign)) else None
            work.extend(h if h is not None else [s])
        for s in work:
            if len(stack) <= MAX_DEPTH:
                rep = None
                if isinstance(s, ast.Assign) and isinstance(s.value, ast.Call):
                    h = self.helper(s.value, stack)
                    if h is not None and self.expr_helper(h) is None:
                        rep = self.expand(h, s.value, s.targets, s, stack)
                elif isinstance(s, ast.AnnAssign) and s.value is not None and isinstance(s.value, ast.Call):
                    h = self.helper(s.value, stack)
                    if h is not None and self.expr_helper(h) is None:
                        rep = self.expand(h, s.value, [s.target], s, stack)
                elif isinstance(s, ast.Expr) and isinstance(s.value, ast.Call):
                    h = self.helper(s.value, stack)
                    if h is not None and self.expr_helper(h) is None:
                        rep = self.expand(h, s.value, None, s, stack)
                elif isinstance(s, ast.Return) and isinstance(s.value, ast.Call) and self.tail:
                    h = self.helper(s.value, stack, tail=True)
                    if h is not None and self.expr_helper(h) is None:
                        rep = self.expand_tail(h, s.value, s, stack)
                if rep is not None:
                    out.extend(rep)
                    continue
                if not isinstance(s, (ast.FunctionDef, ast.ClassDef)):
                    self.inline_exprs(s, stack)
            for fld in ("body", "orelse", "finalbody"):
                sub = getattr(s, fld, None)
                if isinstance(sub, list) and sub and isinstance(sub[0], ast.stmt) and not isinstance(s, (ast.FunctionDef, ast.ClassDef)):
                    setattr(s, fld, self.block(sub, stack))
            if isinstance(s, ast.Try):
                for h in s.handlers:
                    h.body = self.block(h.body, stack)
            out.append(s)
        return out


def propagate_param_copies(fn):
    """`x = p` where p is a parameter that is never re-bound and x is bound exactly once: x is replaced by p, the copy is dropped."""
    params = {a.arg for a in fn.args.posonlyargs + fn.args.args + fn.args.kwonlyargs}
    stores = {}
    for n in ast.walk(fn):
        if isinstance(n, ast.Name) and isinstance(n.ctx, ast.Store):
            stores[n.id] = stores.get(n.id, 0) + 1
    stable = {p for p in params if stores.get(p, 0) == 0}
    changed = True
    while changed:
        changed = False
        for parent in ast.walk(fn):
            for fld in ("body", "orelse", "finalbody"):
                lst = getattr(parent, fld, None)
                if not isinstance(lst, list):
                    continue
                for k, st in enumerate(lst):
                    if isinstance(st, ast.Assign) and len(st.targets) == 1 and isinstance(st.targets[0], ast.Name) and isinstance(st.value, ast.Name) \
                            and st.value.id in stable and stores.get(st.targets[0].id, 0) == 1 and st.targets[0].id not in params:
                        x, pn = st.targets[0].id, st.value.id
                        del lst[k]
                        if not lst:
                            lst.append(ast.copy_location(ast.Pass(), st))
                        for n in ast.walk(fn):
                            if isinstance(n, ast.Name) and n.id == x:
                                n.id = pn
                        changed = True
                        break
                if changed:
                    break
            if changed:
                break
    return fn


def renumber(fn):
    """Fresh positions in execution order (pre-order of the statement tree, expressions inside their statement)."""
    counter = [fn.lineno * 1000]

    def visit(n):
        if hasattr(n, "lineno") and not hasattr(n, "orig_lineno"):
            n.orig_lineno = n.lineno
        counter[0] += 1
        n.lineno = n.end_lineno = counter[0]
        n.col_offset = n.end_col_offset = 0
        for ch in ast.iter_child_nodes(n):
            visit(ch)
    first = fn.lineno
    visit(fn)
    fn.orig_lineno = first
    return fn


# ---------------------------------------------------------------------------------------------------------------------
# normalisations: the same data flow written through a container literal becomes plain local names
# ---------------------------------------------------------------------------------------------------------------------
def _stmt_lists(fn):
    for parent in ast.walk(fn):
        for fld in ("body", "orelse", "finalbody"):
            lst = getattr(parent, fld, None)
            if isinstance(lst, list) and lst and isinstance(lst[0], ast.stmt):
                yield lst
        if isinstance(parent, ast.Try):
            for h in parent.handlers:
                yield h.body


def _bindings(fn, name):
    out = []
    for n in ast.walk(fn):
        if isinstance(n, ast.Name) and isinstance(n.ctx, (ast.Store, ast.Del)) and n.id == name:
            out.append(n)
    return out


def _other_uses(fn, name, allowed_ids):
    """uses of `name` other than the nodes whose id() is in allowed_ids"""
    return [n for n in ast.walk(fn) if isinstance(n, ast.Name) and n.id == name and id(n) not in allowed_ids]


def scalarise_dict_literals(fn):
    """`d = {"k": e, ...}` / `d = dict(k=e, ...)` (the only binding of d besides `d = None`, constant keys, d never mutated): the entries
    become locals `d__k = e` at the place of the literal (which then reads `d = {"k": d__k, ...}`), `**d` becomes `k=d__k, ...`,
    `d["k"]` and `d.get("k")` become `d__k`."""
    changed = False
    for lst in list(_stmt_lists(fn)):
        for idx, st in enumerate(list(lst)):
            tgt = None
            if isinstance(st, ast.Assign) and len(st.targets) == 1 and isinstance(st.targets[0], ast.Name):
                tgt = st.targets[0]
            elif isinstance(st, ast.AnnAssign) and isinstance(st.target, ast.Name) and st.value is not None:
                tgt = st.target
            if tgt is None or getattr(st, "_scalarised", False):
                continue
            v = st.value
            if isinstance(v, ast.Call) and isinstance(v.func, ast.Name) and v.func.id == "dict" and not v.args and v.keywords and all(k.arg for k in v.keywords):
                keys, vals = [k.arg for k in v.keywords], [k.value for k in v.keywords]
            elif isinstance(v, ast.Dict) and v.keys and all(isinstance(k, ast.Constant) and isinstance(k.value, str) and k.value.isidentifier() for k in v.keys):
                keys, vals = [k.value for k in v.keys], list(v.values)
            else:
                continue
            d = tgt.id
            others = [n for n in _bindings(fn, d) if n is not tgt]
            pm = {}
            for par in ast.walk(fn):
                for ch in ast.iter_child_nodes(par):
                    pm[ch] = par
            if any(not (isinstance(pm.get(n), ast.Assign) and isinstance(pm[n].value, ast.Constant) and pm[n].value.value is None) for n in others):
                continue
            mutated = False
            star_calls, loads = [], []
            for n in ast.walk(fn):
                if isinstance(n, ast.Call):
                    for k in n.keywords:
                        if k.arg is None and isinstance(k.value, ast.Name) and k.value.id == d:
                            if any(kk.arg in keys for kk in n.keywords if kk.arg):
                                mutated = True
                            star_calls.append((n, k))
                    if isinstance(n.func, ast.Attribute) and isinstance(n.func.value, ast.Name) and n.func.value.id == d:
                        if n.func.attr == "get" and len(n.args) == 1 and isinstance(n.args[0], ast.Constant) and n.args[0].value in keys:
                            loads.append(n)
                        elif n.func.attr not in ("keys", "values", "items", "copy"):
                            mutated = True
                if isinstance(n, ast.Subscript) and isinstance(n.value, ast.Name) and n.value.id == d:
                    if isinstance(n.ctx, ast.Load) and isinstance(n.slice, ast.Constant) and n.slice.value in keys:
                        loads.append(n)
                    elif not isinstance(n.ctx, ast.Load):
                        mutated = True
            if mutated or not (star_calls or loads):
                continue
            pre = []
            for k, e in zip(keys, vals):
                pre.append(ast.copy_location(ast.Assign(targets=[ast.Name(id=f"{d}__{k}", ctx=ast.Store())], value=e), st))
            for (call, kw) in star_calls:
                pos_ = call.keywords.index(kw)
                call.keywords[pos_:pos_ + 1] = [ast.keyword(arg=k, value=ast.Name(id=f"{d}__{k}", ctx=ast.Load())) for k in keys]
            for n in loads:
                key = n.slice.value if isinstance(n, ast.Subscript) else n.args[0].value
                new = ast.copy_location(ast.Name(id=f"{d}__{key}", ctx=ast.Load()), n)
                n.__class__ = ast.Name
                n.__dict__.clear()
                n.__dict__.update(new.__dict__)
            keep = ast.copy_location(ast.Assign(targets=[ast.Name(id=d, ctx=ast.Store())],
                                                value=ast.Dict(keys=[ast.Constant(value=k) for k in keys], values=[ast.Name(id=f"{d}__{k}", ctx=ast.Load()) for k in keys])), st)
            keep._scalarised = True
            k0 = lst.index(st)
            lst[k0:k0 + 1] = pre + [keep]
            changed = True
    if changed:
        ast.fix_missing_locations(fn)
    return changed


def fold_attribute_stores(fn):
    """`x = Ctor(a=1)` directly followed by `x.b = e` statements (x not used in e): the stores become keyword arguments `b=e` of the
    constructor call, which then sits where the last store was (dataclass constructors only set fields)."""
    changed = False
    for lst in list(_stmt_lists(fn)):
        k = 0
        while k < len(lst):
            st = lst[k]
            if isinstance(st, ast.Assign) and len(st.targets) == 1 and isinstance(st.targets[0], ast.Name) and isinstance(st.value, ast.Call) \
                    and isinstance(st.value.func, ast.Name) and st.value.func.id[:1].isupper() and not any(kw.arg is None for kw in st.value.keywords):
                x = st.targets[0].id
                j = k + 1
                extra = []
                while j < len(lst):
                    nx = lst[j]
                    if isinstance(nx, ast.Assign) and len(nx.targets) == 1 and isinstance(nx.targets[0], ast.Attribute) and isinstance(nx.targets[0].value, ast.Name) \
                            and nx.targets[0].value.id == x and not any(isinstance(n, ast.Name) and n.id == x for n in ast.walk(nx.value)) \
                            and nx.targets[0].attr not in [kw.arg for kw in st.value.keywords] + [e[0] for e in extra]:
                        extra.append((nx.targets[0].attr, nx.value))
                        j += 1
                    else:
                        break
                if extra:
                    for (a, e) in extra:
                        st.value.keywords.append(ast.keyword(arg=a, value=e))
                    del lst[k + 1:j]
                    changed = True
            k += 1
    if changed:
        ast.fix_missing_locations(fn)
    return changed


def split_tuples(fn):
    """`a, b = x, y` -> `a = x; b = y` (no target occurs in the values);  `t = (x, y)` ... `a, b = t` -> `a = x; b = y` when t's bindings
    are that one tuple (of plain names not re-bound in between) and otherwise only `None`."""
    changed = False
    renumber(fn)

    def names_in(e):
        return {n.id for n in ast.walk(e) if isinstance(n, ast.Name)}

    def tuple_source(t, at):
        """the tuple literal bound to name t that reaches `at`, through single-binding copies `t = u`"""
        for _ in range(5):
            bs = [n for n in ast.walk(fn) if isinstance(n, ast.Assign) and len(n.targets) == 1 and isinstance(n.targets[0], ast.Name) and n.targets[0].id == t]
            if len(_bindings(fn, t)) != len(bs):
                return None
            lits = [b for b in bs if isinstance(b.value, ast.Tuple)]
            nones = [b for b in bs if isinstance(b.value, ast.Constant) and b.value.value is None]
            copies = [b for b in bs if isinstance(b.value, ast.Name)]
            if len(lits) == 1 and len(lits) + len(nones) == len(bs):
                return lits[0]
            if len(copies) == 1 and len(bs) == 1:
                t = copies[0].value.id
                continue
            return None
        return None
    for lst in list(_stmt_lists(fn)):
        k = 0
        while k < len(lst):
            st = lst[k]
            if isinstance(st, ast.Assign) and len(st.targets) == 1 and isinstance(st.targets[0], (ast.Tuple, ast.List)) \
                    and all(isinstance(e, ast.Name) for e in st.targets[0].elts):
                tg = st.targets[0].elts
                vals = None
                if isinstance(st.value, (ast.Tuple, ast.List)) and len(st.value.elts) == len(tg) and not any(isinstance(e, ast.Starred) for e in st.value.elts):
                    if not ({e.id for e in tg} & names_in(st.value)):
                        vals = list(st.value.elts)
                elif isinstance(st.value, ast.Name):
                    src = tuple_source(st.value.id, st)
                    if src is not None and len(src.value.elts) == len(tg) and all(isinstance(e, (ast.Name, ast.Constant)) for e in src.value.elts) \
                            and src.lineno < st.lineno:
                        ok = True
                        for e in src.value.elts:
                            if isinstance(e, ast.Name):
                                for bnd in _bindings(fn, e.id):
                                    if src.lineno < bnd.lineno < st.lineno:
                                        ok = False
                        if ok:
                            vals = [copy.deepcopy(e) for e in src.value.elts]
                if vals is not None:
                    new = [ast.copy_location(ast.Assign(targets=[ast.Name(id=t.id, ctx=ast.Store())], value=v), st) for t, v in zip(tg, vals)]
                    lst[k:k + 1] = new
                    k += len(new)
                    changed = True
                    continue
            k += 1
    if changed:
        ast.fix_missing_locations(fn)
    return changed


def drop_self_assignments(fn):
    changed = False
    for lst in list(_stmt_lists(fn)):
        for st in list(lst):
            if isinstance(st, ast.Assign) and len(st.targets) == 1 and isinstance(st.targets[0], ast.Name) and isinstance(st.value, ast.Name) \
                    and st.targets[0].id == st.value.id:
                lst.remove(st)
                if not lst:
                    lst.append(ast.copy_location(ast.Pass(), st))
                changed = True
    return changed


def normalise(fn):
    ch = False
    for _ in range(3):
        c = scalarise_dict_literals(fn) | fold_attribute_stores(fn) | split_tuples(fn) | drop_self_assignments(fn)
        ch |= c
        if not c:
            break
    return ch


_CACHE: dict = {}


def inlined(mod, qual, keep=(), tail=False):
    """-> (FunctionDef copy with helpers inlined and nodes renumbered, [names of inlined helpers]); the original when nothing applies.
    keep: names never inlined (besides KEEP); tail: also inline `return helper(...)` (helper body with its own returns, loops allowed)."""
    fn = mod.functions.get(qual)
    if fn is None:
        return None, []
    key = (id(mod), qual, tuple(sorted(keep)), tail)
    if key in _CACHE:
        return _CACHE[key]
    f2 = copy.deepcopy(fn)
    inl = Inliner(mod, qual.split(".")[-1], keep if not tail else set(keep) - KEEP)
    if tail:
        inl.keep = set(keep)
    inl.tail = tail
    try:
        f2.body = inl.block(f2.body, [])
        ast.fix_missing_locations(f2)
        if inl.inlined:
            propagate_param_copies(f2)
        changed = normalise(f2)
        if changed:
            propagate_param_copies(f2)      # `d__k = param` left by a scalarised container literal: the parameter itself
        if inl.inlined or changed:
            renumber(f2)
            res = (f2, inl.inlined)
        else:
            res = (fn, [])
    except Exception:  # noqa  -- a shape the inliner does not handle: analyse the function as it is
        res = (fn, [])
    _CACHE[key] = res
    return res


def line_of(n):
    return getattr(n, "orig_lineno", getattr(n, "lineno", "?"))
