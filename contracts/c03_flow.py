"""C03: construction-site and heading-iterator obligations decided on the AST of the real source
(back end `dataflow`): per-iteration event counting on the structured control flow.

`iteration_paths(stmts, events)` enumerates the control-flow paths through a statement list (one loop
iteration / one function body) and counts, per path, how often each event (an AST predicate, e.g.
"`pages.append(...)`") occurs.  Exceptions raised by calls are not paths: every construction site
is wrapped by the extractor's `try` that re-raises, so an exception means "no content object".
Events inside nested loops count as MANY.  A shape that is not recognised is `unknown`
(UNDECIDED), never a violation; a recognised shape with a wrong count is refuted.
"""
from __future__ import annotations

import ast

from pyvc import loader
from pyvc.flow import dotted, ground_obligation

MANY = 2
EX = "sharepoint2text/parsing/extractors/"
DT = EX + "data_types.py"


def _own_nodes(s):
    """Expression nodes evaluated by statement s itself (not by nested statements / function bodies)."""
    if isinstance(s, (ast.If, ast.While)):
        roots = [s.test]
    elif isinstance(s, (ast.For, ast.AsyncFor)):
        roots = [s.iter]
    elif isinstance(s, (ast.With, ast.AsyncWith)):
        roots = [i.context_expr for i in s.items]
    elif isinstance(s, ast.Try):
        roots = []
    elif isinstance(s, (ast.FunctionDef, ast.AsyncFunctionDef, ast.ClassDef)):
        roots = []
    else:
        roots = [s]
    out = []
    for r in roots:
        stack = [r]
        while stack:
            n = stack.pop()
            if isinstance(n, (ast.Lambda, ast.FunctionDef)):
                continue
            out.append(n)
            stack.extend(ast.iter_child_nodes(n))
    return out


def _vec(s, events):
    nodes = _own_nodes(s)
    return tuple(min(MANY, sum(1 for n in nodes if ev(n))) for ev in events)


def _add(a, b):
    return tuple(min(MANY, x + y) for x, y in zip(a, b))


def iteration_paths(stmts, events):
    """set of (count vector, status); status in fall|continue|break|return|raise."""
    zero = tuple(0 for _ in events)
    cur = {(zero, "fall")}
    for s in stmts:
        nxt = set()
        for (vec, status) in cur:
            if status != "fall":
                nxt.add((vec, status))
                continue
            for (v2, st2) in _stmt_paths(s, events):
                nxt.add((_add(vec, v2), st2))
        cur = nxt
    return cur


def _stmt_paths(s, events):
    own = _vec(s, events)
    zero = tuple(0 for _ in events)
    if isinstance(s, ast.If):
        res = set()
        for branch in (s.body, s.orelse):
            for (v, stt) in iteration_paths(branch, events):
                res.add((_add(own, v), stt))
        return res
    if isinstance(s, (ast.For, ast.AsyncFor, ast.While)):
        inner = iteration_paths(s.body, events)
        res = set()
        anyev = tuple(MANY if any(v[i] for (v, _s) in inner) else 0 for i in range(len(events)))
        res.add((own, "fall"))                       # zero iterations
        if any(anyev):
            res.add((_add(own, anyev), "fall"))      # unknown number of iterations
        for (v, stt) in inner:
            if stt in ("return", "raise"):
                res.add((_add(own, _add(anyev, v)), stt))
        for (v, stt) in iteration_paths(s.orelse, events):
            if v != zero or stt != "fall":
                res.add((_add(own, _add(anyev, v)), stt))
        return res
    if isinstance(s, (ast.With, ast.AsyncWith)):
        return {(_add(own, v), stt) for (v, stt) in iteration_paths(s.body, events)}
    if isinstance(s, ast.Try):
        body = iteration_paths(s.body + s.orelse, events)
        res = set(body)
        mx = tuple(max(v[i] for (v, _s) in body) for i in range(len(events))) if body else zero
        prefixes = {zero, mx}
        for h in s.handlers:
            for (v, stt) in iteration_paths(h.body, events):
                for pre in prefixes:
                    res.add((_add(pre, v), stt))
        if s.finalbody:
            out = set()
            for (v, stt) in res:
                for (v2, st2) in iteration_paths(s.finalbody, events):
                    out.add((_add(v, v2), stt if st2 == "fall" else st2))
            res = out
        return res
    if isinstance(s, ast.Return):
        return {(own, "return")}
    if isinstance(s, ast.Raise):
        return {(own, "raise")}
    if isinstance(s, ast.Continue):
        return {(own, "continue")}
    if isinstance(s, ast.Break):
        return {(own, "break")}
    return {(own, "fall")}


# -------------------------------------------------------------- small helpers --
def method_call(n, recv, meth):
    return (isinstance(n, ast.Call) and isinstance(n.func, ast.Attribute) and n.func.attr == meth
            and dotted(n.func.value) == recv)


def find_loops(fn, pred):
    return [n for n in ast.walk(fn) if isinstance(n, (ast.For, ast.While)) and pred(n)]


def assigns_to(fn, name, skip_nested=False):
    out = []
    for n in ast.walk(fn):
        if isinstance(n, (ast.Assign, ast.AnnAssign, ast.AugAssign)):
            tg = n.targets if isinstance(n, ast.Assign) else [n.target]
            for t in tg:
                for x in ast.walk(t):
                    if isinstance(x, ast.Name) and x.id == name and isinstance(x.ctx, ast.Store):
                        out.append(n)
        elif isinstance(n, (ast.For, ast.comprehension)):
            for x in ast.walk(n.target):
                if isinstance(x, ast.Name) and x.id == name:
                    out.append(n)
        elif isinstance(n, ast.NamedExpr) and n.target.id == name:
            out.append(n)
    return out


def kw(call, name):
    for k in call.keywords:
        if k.arg == name:
            return k.value
    return None


class Checks:
    def __init__(self, prop="C03"):
        self.obls, self.fns, self.prop = [], [], prop

    def add(self, oid, verdict, detail="", loc=""):
        """verdict: True proved / False refuted (recognised shape, wrong) / None shape not recognised."""
        if verdict is None:
            self.obls.append(ground_obligation(oid, False, detail or "shape not recognised", loc, definite=False))
        elif verdict is False:
            # a verdict read off the SHAPE of the code is a suspicion, not a counterexample: `unknown`, and the native
            # replayer (REPLAY_UNKNOWN) produces the failing document -- or the obligation stays undecided
            self.obls.append(ground_obligation(oid, False, "suspicious: " + (detail or ""), loc, definite=False))
        else:
            self.obls.append(ground_obligation(oid, True, detail, loc, definite=True))

    def fn(self, mod, qual, n=1):
        if qual in mod.functions:
            self.fns.append(dict(mod.fn_info(qual), obligations=n))


def _reordered(expr):
    """the iterated expression passes through sorted / reversed / set / a slice with a step"""
    for n in ast.walk(expr):
        if isinstance(n, ast.Call) and dotted(n.func).split(".")[-1] in ("sorted", "reversed", "set", "frozenset", "shuffle"):
            return True
        if isinstance(n, ast.Subscript) and isinstance(n.slice, ast.Slice) and n.slice.step is not None:
            return True
    return False


def per_iteration(loop, events, want, allow_break=False):
    """Every completed iteration (fall/continue) has an event vector in `want`; -> (ok, detail)."""
    paths = iteration_paths(loop.body, events)
    bad = [(v, s) for (v, s) in paths if s in ("fall", "continue") and v not in want]
    if not allow_break:
        bad += [(v, s) for (v, s) in paths if s == "break"]
    return (not bad), f"paths={sorted(paths)}"


# ------------------------------------------------------------ the obligations --
def construction_sites(repo, tier):
    C = Checks()
    _pdf(C, repo)
    _pptx(C, repo)
    _odp(C, repo)
    _epub(C, repo)
    _mbox(C, repo)
    _rtf(C, repo)
    _ppt_entry(C, repo)
    _sheets(C, repo)
    _opaque_members_pure(C, repo)
    return {"obligations": C.obls, "functions": C.fns}


# ---------------------------------------------------------------- provenance-based site checks --
def _order_site(C, m, rel, fnq, oid, exprs_of, root_has, need_kind, what):
    """The sequence reaching a sink (constructor keyword / return value) draws its elements from the source named by
    `root_has`, in order, one per source element (need_kind="map") or at most one ("filter").  Decided by data-flow
    provenance (contracts/c03_prov.py); a flow that is not understood is `unknown`."""
    from contracts import c03_prov as P
    fn = m.functions.get(fnq)
    if fn is None:
        C.add(oid, None, f"{fnq} missing")
        return None
    ctx = P.Ctx(m, fn, fnq)
    exprs = exprs_of(fn)
    if not exprs:
        C.add(oid, None, f"sink of {what} not found")
        return None
    provs = []
    for e in exprs:
        p_ = P.provenance(ctx, e)
        if p_ is None:
            C.add(oid, None, f"data flow into {what} not understood: {ast.unparse(e)[:60]}")
            return None
        if p_.root != "<empty>":
            provs.append(p_)
    if not provs:
        C.add(oid, None, f"{what} is always empty")
        return None
    p0 = provs[0]
    if any(p_.reordered for p_ in provs):
        C.add(oid, False, next(p_.why for p_ in provs if p_.reordered), f"{rel}:{fn.lineno}")
        return None
    if len({p_.root for p_ in provs}) != 1 or not any(h in p0.root.replace(" ", "") for h in root_has):
        C.add(oid, None, f"{what} is drawn from {sorted({p_.root for p_ in provs})}, expected a source mentioning one of {list(root_has)}")
        return None
    kinds = {p_.kind for p_ in provs}
    if need_kind == "map" and kinds != {"map"}:
        C.add(oid, None, f"{what}: some source elements may be skipped (flow kind {sorted(kinds)})")
        return None
    C.add(oid, True, f"{what} <- {p0.root} ({'one per element' if kinds == {'map'} else 'at most one per element'}, order kept)", f"{rel}:{fn.lineno}")
    C.fn(m, fnq)
    return p0


def _resolve_local(fn, expr, within):
    """follow `x = y` aliases defined once inside `within` (a loop body / function)"""
    seen = 0
    while isinstance(expr, ast.Name) and seen < 4:
        defs = [n for n in ast.walk(within) if isinstance(n, ast.Assign) and len(n.targets) == 1 and isinstance(n.targets[0], ast.Name)
                and n.targets[0].id == expr.id]
        if len(defs) != 1 or not isinstance(defs[0].value, ast.Name):
            break
        expr = defs[0].value
        seen += 1
    return expr


def _resolve_value(within, expr):
    """value expression of a local defined once inside `within` (else the expression itself)"""
    seen = 0
    while isinstance(expr, ast.Name) and seen < 4:
        defs = [n for n in ast.walk(within) if isinstance(n, ast.Assign) and len(n.targets) == 1 and isinstance(n.targets[0], ast.Name)
                and n.targets[0].id == expr.id]
        if len(defs) != 1:
            break
        expr = defs[0].value
        seen += 1
    return expr


def _is_len_plus_one(e, lst):
    if isinstance(e, ast.BinOp) and isinstance(e.op, ast.Add):
        for a, b in ((e.left, e.right), (e.right, e.left)):
            if isinstance(b, ast.Constant) and b.value == 1 and isinstance(a, ast.Call) and dotted(a.func) == "len" and len(a.args) == 1 \
                    and isinstance(a.args[0], ast.Name) and a.args[0].id == lst:
                return True
    return False


def _number_site(C, m, rel, oid, prov, elem_ctor, num_field, first_of_tuple_ok=True):
    """Element k produced by `prov.loop` carries number k: the loop is `enumerate(<source>, start=1)` and the enumerate index
    reaches <elem_ctor>(<num_field>=...) -- directly, or as an argument of a same-module helper all of whose return values are
    <elem_ctor>(<num_field>=<that parameter>)."""
    if prov is None:
        return C.add(oid, None, "order of the elements not established")
    lp, fn = prov.loop, prov.fn
    if lp is None:
        return C.add(oid, None, "elements are not produced by a loop")
    idx = prov.index or "<no enumerate index>"
    off = f"enumerate starts at {prov.start} and its index becomes the number unchanged: element numbers must be 1-based positions" if prov.start != 1 else None
    body = lp if isinstance(lp, ast.For) else lp
    if any(isinstance(n, ast.Name) and n.id == idx and isinstance(n.ctx, ast.Store) for b in (lp.body if isinstance(lp, ast.For) else []) for n in ast.walk(b)):
        return C.add(oid, None, f"{idx} reassigned in the loop")
    elem = prov.elem
    if elem is None:
        return C.add(oid, None, "appended element not recognised")
    call = None
    if isinstance(elem, ast.Name):
        defs = [n for n in ast.walk(body) if isinstance(n, ast.Assign) and any(
            (isinstance(t, ast.Name) and t.id == elem.id) or (isinstance(t, ast.Tuple) and t.elts and isinstance(t.elts[0], ast.Name) and t.elts[0].id == elem.id)
            for t in n.targets)]
        if len(defs) != 1 or not isinstance(defs[0].value, ast.Call):
            return C.add(oid, None, f"{elem.id} is not the result of one call")
        call = defs[0].value
        tupled = isinstance(defs[0].targets[0], ast.Tuple)
    elif isinstance(elem, ast.Call):
        call, tupled = elem, False
    else:
        return C.add(oid, None, "appended element not recognised")
    callee = dotted(call.func)
    if callee.split(".")[-1] == elem_ctor:
        k = kw(call, num_field)
        k = _resolve_local(fn, k, body) if k is not None else None
        ok = isinstance(k, ast.Name) and k.id == idx
        if ok and off:
            return C.add(oid, False, off, f"{rel}:{lp.lineno}")
        return C.add(oid, True if ok else None, f"{elem_ctor}({num_field}={ast.unparse(k) if k is not None else '<default>'})", f"{rel}:{lp.lineno}")
    if callee not in m.functions:
        return C.add(oid, None, f"element produced by {callee or ast.unparse(call.func)[:30]}, not a helper of this module")
    cfn = m.functions[callee]
    params = [a.arg for a in cfn.args.posonlyargs + cfn.args.args]
    passed = {}
    for p_, a in zip(params, call.args):
        passed[p_] = a
    for k_ in call.keywords:
        if k_.arg:
            passed[k_.arg] = k_.value
    num_params = [p_ for p_, a in passed.items() if isinstance(_resolve_local(fn, a, body), ast.Name) and _resolve_local(fn, a, body).id == idx]
    # which parameter of the helper becomes the number of the returned element?
    before = len(C.obls)
    sub = Checks()
    cand = None
    for p_ in params:
        t = Checks()
        _returns_numbered(t, m, rel, callee, "probe", elem_ctor, num_field, p_, first_of_tuple=tupled, allow_none=True)
        if t.obls and t.obls[0]["status"] == "proved":
            cand = p_
            break
    if cand is None:
        return C.add(oid, None, f"{callee} does not return {elem_ctor}({num_field}=<one of its parameters>) on every path")
    if cand in num_params and off:
        return C.add(oid, False, off, f"{rel}:{lp.lineno}")
    if cand in num_params:
        C.add(oid, True, f"enumerate index {idx} (start=1) -> {callee}({cand}=...) -> {elem_ctor}({num_field}={cand})", f"{rel}:{lp.lineno}")
        C.fn(m, callee)
        return
    got = passed.get(cand)
    g_ = _resolve_value(body, got) if got is not None else None
    if g_ is not None and prov.kind == "map" and prov.lst and _is_len_plus_one(g_, prov.lst):
        # exactly one element is appended per iteration, so len(<list>) + 1 evaluated before the append is the 1-based position
        C.add(oid, True, f"{callee}({cand}=len({prov.lst}) + 1) with exactly one append per iteration -> {elem_ctor}({num_field}={cand})", f"{rel}:{lp.lineno}")
        C.fn(m, callee)
        return
    # another expression is passed as the number: it may or may not equal the position -- the native replayer decides
    return C.add(oid, None, f"{callee} numbers its result with parameter {cand}, which receives {ast.unparse(got) if got is not None else '<default>'}, "
                            f"not the enumerate index {idx}")



def _pdf(C, repo):
    from contracts import c03_prov as P
    rel = EX + "pdf/pdf_extractor.py"
    m = loader.module(rel, repo)
    _order_site(C, m, rel, "read_pdf", "C03/pdf_extractor.py::read_pdf/construction#one-PdfPage-per-reader-page-in-order",
                lambda fn: P.sink_arg(fn, "PdfContent", "pages"), ("reader.pages", ".pages"), "map", "PdfContent.pages")


def _slide_loop(C, m, rel, fnq, oid, iter_pred, callee, numarg, ctor, field):
    """for <idx>, x in enumerate(<seq>, start=1): slide = <callee>(.., <idx>, ..); <list>.append(slide)."""
    fn = m.functions.get(fnq)
    if fn is None:
        return C.add(oid, None, f"{fnq} missing")
    loops = find_loops(fn, lambda n: isinstance(n, ast.For) and iter_pred(ast.unparse(n.iter)))
    if len(loops) != 1:
        return C.add(oid, None, f"{len(loops)} candidate loops")
    lp = loops[0]
    itc = lp.iter
    if _reordered(itc):
        return C.add(oid, False, f"the source sequence is re-ordered before it is numbered: {ast.unparse(itc)[:80]}", f"{rel}:{lp.lineno}")
    if not (isinstance(itc, ast.Call) and dotted(itc.func) == "enumerate" and isinstance(lp.target, ast.Tuple)
            and isinstance(lp.target.elts[0], ast.Name)):
        return C.add(oid, None, "loop is not `for i, x in enumerate(...)`")
    start = kw(itc, "start") or (itc.args[1] if len(itc.args) > 1 else None)
    if not (isinstance(start, ast.Constant) and start.value == 1):
        return C.add(oid, False, f"enumerate start is {ast.unparse(start) if start else 0}, slide numbers must be 1-based", f"{rel}:{lp.lineno}")
    idx = lp.target.elts[0].id
    cons = [n for n in ast.walk(fn) if isinstance(n, ast.Call) and dotted(n.func) == ctor and kw(n, field) is not None]
    if len(cons) != 1 or not isinstance(kw(cons[0], field), ast.Name):
        return C.add(oid, None, f"{ctor}({field}=<name>) not found")
    lst = kw(cons[0], field).id
    calls = [n for n in ast.walk(lp) if isinstance(n, ast.Call) and dotted(n.func) == callee]
    if len(calls) != 1:
        return C.add(oid, None, f"{len(calls)} calls of {callee} in the loop")
    call = calls[0]
    arg = call.args[numarg] if len(call.args) > numarg else None
    if not (isinstance(arg, ast.Name) and arg.id == idx):
        return C.add(oid, False, f"{callee} receives {ast.unparse(arg) if arg is not None else None} as slide number, not the 1-based loop index {idx}",
                     f"{rel}:{call.lineno}")
    if assigns_to(lp, idx) != [lp] and [a for a in assigns_to(lp, idx) if a is not lp]:
        return C.add(oid, None, f"{idx} reassigned in the loop")
    # the value appended is the callee's result
    asg = [n for n in ast.walk(lp) if isinstance(n, ast.Assign) and n.value is call]
    if len(asg) != 1:
        return C.add(oid, None, "callee result not assigned once")
    t = asg[0].targets[0]
    var = t.id if isinstance(t, ast.Name) else (t.elts[0].id if isinstance(t, ast.Tuple) and isinstance(t.elts[0], ast.Name) else None)
    is_app = lambda n: method_call(n, lst, "append") and len(n.args) == 1 and isinstance(n.args[0], ast.Name) and n.args[0].id == var
    any_app = lambda n: isinstance(n, ast.Call) and isinstance(n.func, ast.Attribute) and dotted(n.func.value) == lst and n.func.attr in (
        "append", "insert", "extend", "pop", "remove", "sort", "reverse", "clear")
    ok, detail = per_iteration(lp, [is_app, any_app], {(1, 1)})
    outside = [n for n in ast.walk(fn) if any_app(n) and not any(n is x for x in ast.walk(lp))]
    inits = assigns_to(fn, lst)
    if outside or len(inits) != 1 or not isinstance(getattr(inits[0], "value", None), ast.List) or inits[0].value.elts:
        return C.add(oid, None, f"list {lst} mutated outside the loop or not initialised to []")
    C.add(oid, ok, detail, f"{rel}:{lp.lineno}")
    C.fn(m, fnq)


def _returns_numbered(C, m, rel, fnq, oid, ctor, field, param, first_of_tuple=False, allow_none=False):
    """Every value returned by fnq is <ctor>(..., <field>=<param>, ...) (possibly via one local), param never reassigned."""
    fn = m.functions.get(fnq)
    if fn is None:
        return C.add(oid, None, f"{fnq} missing")
    if param not in [a.arg for a in fn.args.args]:
        return C.add(oid, None, f"no parameter {param}")
    if assigns_to(fn, param):
        return C.add(oid, None, f"{param} reassigned")
    bad, n_ret = [], 0
    for r in [n for n in ast.walk(fn) if isinstance(n, ast.Return)]:
        v = r.value
        if first_of_tuple:
            if not isinstance(v, ast.Tuple):
                bad.append(f"line {r.lineno}: not a tuple")
                continue
            v = v.elts[0]
        n_ret += 1
        if allow_none and isinstance(v, ast.Constant) and v.value is None:
            continue
        if isinstance(v, ast.Name):
            defs = assigns_to(fn, v.id)
            if len(defs) != 1 or not isinstance(defs[0], (ast.Assign, ast.AnnAssign)):
                bad.append(f"line {r.lineno}: {v.id} has {len(defs)} definitions")
                continue
            v = defs[0].value
        if not (isinstance(v, ast.Call) and dotted(v.func) == ctor):
            bad.append(f"line {r.lineno}: returns {ast.unparse(v)[:40]}")
            continue
        k = kw(v, field)
        k = _resolve_local(fn, k, fn) if k is not None else None
        if not (isinstance(k, ast.Name) and k.id == param):
            C.add(oid, None, f"line {r.lineno}: {ctor}({field}={ast.unparse(k) if k is not None else '<default>'}) is not (an alias of) the {param} passed in", f"{rel}:{r.lineno}")
            return
    # later stores to <obj>.<field>
    stores = [n for n in ast.walk(fn) if isinstance(n, ast.Attribute) and isinstance(n.ctx, ast.Store) and n.attr == field]
    if stores:
        bad.append(f"{field} stored at line {stores[0].lineno}")
    if bad or not n_ret:
        return C.add(oid, None, "; ".join(bad) or "no return")
    C.add(oid, True, f"{n_ret} return(s)", f"{rel}:{fn.lineno}")
    C.fn(m, fnq)


def _pptx(C, repo):
    from contracts import c03_prov as P
    rel = EX + "ms_modern/pptx_extractor.py"
    m = loader.module(rel, repo)
    p_ = _order_site(C, m, rel, "read_pptx", "C03/pptx_extractor.py::read_pptx/construction#one-slide-per-entry-of-the-slide-order",
                     lambda fn: P.sink_arg(fn, "PptxContent", "slides"), ("slide_order", "slide_paths"), "map", "PptxContent.slides")
    _number_site(C, m, rel, "C03/pptx_extractor.py::read_pptx/construction#slide-k-of-slide-order-gets-number-k", p_, "PptxSlide", "slide_number")
    # slide order = document order of p:sldIdLst
    fnq = "_PptxContext._compute_slide_order"
    fn = m.functions.get(fnq)
    _order_site(C, m, rel, fnq, "C03/pptx_extractor.py::_PptxContext._compute_slide_order/construction#order-is-sldIdLst-document-order",
                lambda fn: [r.value for r in P._walk_fn(fn) if isinstance(r, ast.Return) and r.value is not None],
                ("findall(P_SLDID)", "iter(P_SLDID)"), "filter", "the slide order")


def _odp(C, repo):
    from contracts import c03_prov as P
    rel = EX + "open_office/odp_extractor.py"
    m = loader.module(rel, repo)
    p_ = _order_site(C, m, rel, "read_odp", "C03/odp_extractor.py::read_odp/construction#one-slide-per-draw:page-in-order",
                     lambda fn: P.sink_arg(fn, "OdpContent", "slides"), ("draw:page",), "map", "OdpContent.slides")
    _number_site(C, m, rel, "C03/odp_extractor.py::read_odp/construction#draw:page-k-gets-number-k", p_, "OdpSlide", "slide_number")


def _epub(C, repo):
    rel = EX + "epub_extractor.py"
    m = loader.module(rel, repo)
    _returns_numbered(C, m, rel, "_extract_chapter", "C03/epub_extractor.py::_extract_chapter/construction#returned-chapter-carries-the-number-passed-in",
                      "EpubChapter", "chapter_number", "chapter_number", first_of_tuple=True, allow_none=True)
    # parser state must not outlive a content document: whatever is fed the markup of a chapter is constructed in the very function
    # call that handles this chapter (an instance shared between chapters carries open-element state from one unit into the next)
    oid_p = "C03/epub_extractor.py::chapter-text/construction#markup-parser-constructed-per-content-document"
    feeds = []
    for q, f_ in m.functions.items():
        if ".<locals>." in q:
            continue
        for n in ast.walk(f_):
            if isinstance(n, ast.Call) and isinstance(n.func, ast.Attribute) and n.func.attr == "feed" and q.split(".")[-1] not in ("feed",) \
                    and not q.startswith("_XhtmlTextExtractor"):
                feeds.append((q, f_, n))
    if not feeds:
        C.add(oid_p, None, "no markup parser is fed in this module")
    else:
        why = []
        for q, f_, n in feeds:
            recv = n.func.value
            ok = False
            if isinstance(recv, ast.Name) and recv.id not in [a.arg for a in f_.args.posonlyargs + f_.args.args + f_.args.kwonlyargs]:
                defs = [d for d in assigns_to(f_, recv.id) if isinstance(d, (ast.Assign, ast.AnnAssign))]
                ok = len(defs) == 1 and isinstance(defs[0].value, ast.Call) and isinstance(defs[0].value.func, ast.Name) \
                    and defs[0].value.func.id in m.classes and not defs[0].value.args and not defs[0].value.keywords
                # ... and the construction is not hoisted out of a loop that feeds it repeatedly
                if ok:
                    for lp in [x for x in ast.walk(f_) if isinstance(x, (ast.For, ast.While))]:
                        if any(y is n for y in ast.walk(lp)) and not any(y is defs[0] for y in ast.walk(lp)):
                            ok = False
            if not ok:
                why.append(f"{q}: `{ast.unparse(recv)}.feed(...)` at line {n.lineno} uses a parser that is not constructed right there")
        C.add(oid_p, True if not why else False, "; ".join(why) or f"{len(feeds)} feed site(s), each on a parser constructed in the same call", rel)
    fn = m.functions.get("read_epub")
    oid = "C03/epub_extractor.py::read_epub/construction#chapter-number-is-the-1-based-spine-position"
    if fn is None:
        return C.add(oid, None, "read_epub missing")
    from contracts import c03_prov as P
    sinks = P.sink_arg(fn, "EpubContent", "chapters")
    pr = P.provenance(P.Ctx(m, fn, "read_epub"), sinks[0]) if len(sinks) == 1 else None
    if pr is None or pr.loop is None or not isinstance(pr.loop, ast.For):
        return C.add(oid, None, "data flow into EpubContent.chapters not understood")
    if pr.reordered:
        return C.add(oid, False, pr.why, f"{rel}:{fn.lineno}")
    if "spine" not in pr.root:
        return C.add(oid, None, f"chapters are drawn from {pr.root}, expected the spine")
    lp = pr.loop
    if pr.index is not None:
        # `for number, item_id in enumerate(<spine>, start=1)`: the index is the spine position
        return _number_site(C, m, rel, oid, pr, "EpubChapter", "chapter_number")
    calls = [n for n in ast.walk(lp) if isinstance(n, ast.Call) and dotted(n.func) == "_extract_chapter"]
    if len(calls) != 1 or len(calls[0].args) < 3 or not isinstance(calls[0].args[2], ast.Name):
        return C.add(oid, None, "_extract_chapter(ctx, item_id, <counter>, ...) not found")
    ctr = calls[0].args[2].id
    inc = lambda n: isinstance(n, ast.AugAssign) and isinstance(n.target, ast.Name) and n.target.id == ctr and isinstance(n.op, ast.Add) \
        and isinstance(n.value, ast.Constant) and n.value.value == 1
    call_ev = lambda n: n is calls[0]
    defs = assigns_to(fn, ctr)
    init = [d for d in defs if isinstance(d, (ast.Assign, ast.AnnAssign)) and isinstance(d.value, ast.Constant)]
    others = [d for d in defs if d not in init and not inc(d)]
    if len(init) != 1 or others or init[0].lineno > lp.lineno:
        return C.add(oid, None, f"counter {ctr}: {len(init)} constant initialisations, {len(others)} other assignments")
    if init[0].value.value != 0:
        return C.add(oid, False, f"counter {ctr} starts at {init[0].value.value} and is incremented before use: first chapter would not be number 1", f"{rel}:{init[0].lineno}")
    asg = [n for n in ast.walk(lp) if isinstance(n, ast.Assign) and n.value is calls[0]]
    if len(asg) != 1 or not isinstance(asg[0].targets[0], ast.Tuple) or not isinstance(asg[0].targets[0].elts[0], ast.Name):
        return C.add(oid, None, "result of _extract_chapter not unpacked")
    var = asg[0].targets[0].elts[0].id
    cons = [n for n in ast.walk(fn) if isinstance(n, ast.Call) and dotted(n.func) == "EpubContent" and isinstance(kw(n, "chapters"), ast.Name)]
    if len(cons) != 1:
        return C.add(oid, None, "EpubContent(chapters=<name>) not found")
    lst = kw(cons[0], "chapters").id
    app = lambda n: method_call(n, lst, "append") and len(n.args) == 1 and isinstance(n.args[0], ast.Name) and n.args[0].id == var
    anymut = lambda n: isinstance(n, ast.Call) and isinstance(n.func, ast.Attribute) and dotted(n.func.value) == lst and n.func.attr != "append"
    paths = iteration_paths(lp.body, [inc, call_ev, app, anymut])
    bad = [p for p in paths if p[1] in ("fall", "continue", "break") and not (p[0][0] == 1 and p[0][1] == 1 and p[0][2] in (0, 1) and p[0][3] == 0)]
    # the increment precedes the call (first statement of the body)
    first = lp.body[0]
    order_ok = inc(first)
    outside = [n for n in ast.walk(fn) if isinstance(n, ast.Call) and isinstance(n.func, ast.Attribute) and dotted(n.func.value) == lst
               and not any(n is x for x in ast.walk(lp))]
    if outside or not order_ok:
        return C.add(oid, None, "increment is not the first statement of the loop body, or chapter list mutated elsewhere")
    C.add(oid, not bad, f"paths={sorted(paths)}", f"{rel}:{lp.lineno}")
    C.fn(m, "read_epub")


def _mbox(C, repo):
    rel = EX + "mail/mbox_email_extractor.py"
    m = loader.module(rel, repo)
    # _split_mbox_messages is under a symbolic contract (shared with C16: contracts/C16.py::split_contract); no shape check here.
    fn = m.functions.get("read_mbox_format_mail")
    oid = "C03/mbox_email_extractor.py::read_mbox_format_mail/construction#one-EmailContent-per-message-in-order"
    if fn is None:
        return C.add(oid, None, "missing")
    loops = find_loops(fn, lambda n: isinstance(n, ast.For) and isinstance(n.iter, ast.Name))
    loops = [l for l in loops if any(isinstance(x, ast.Yield) for x in ast.walk(l))]
    if len(loops) != 1:
        return C.add(oid, None, "yielding loop not found")
    lp = loops[0]
    src = [d for d in assigns_to(fn, lp.iter.id) if isinstance(d, ast.Assign)]
    if len(src) != 1 or dotted(getattr(src[0].value, "func", None)) != "_split_mbox_messages":
        return C.add(oid, None, "loop does not run over _split_mbox_messages(data)")
    yl = lambda n: isinstance(n, (ast.Yield, ast.YieldFrom))
    ok, detail = per_iteration(lp, [yl], {(1,)})
    outside = [n for n in ast.walk(fn) if yl(n) and not any(n is x for x in ast.walk(lp))]
    # the yielded value is parse_email_message(message_from_bytes(<loop var>))
    ys = [n for n in ast.walk(lp) if isinstance(n, ast.Yield)]
    chain = False
    if len(ys) == 1 and isinstance(ys[0].value, ast.Name):
        d = [a for a in assigns_to(lp, ys[0].value.id) if isinstance(a, ast.Assign)]
        if len(d) == 1 and dotted(getattr(d[0].value, "func", None)) == "parse_email_message" and isinstance(d[0].value.args[0], ast.Name):
            d2 = [a for a in assigns_to(lp, d[0].value.args[0].id) if isinstance(a, ast.Assign)]
            chain = len(d2) == 1 and "message_from_bytes" in ast.unparse(d2[0].value) and isinstance(lp.target, ast.Name) \
                and ast.unparse(d2[0].value.args[0]) == lp.target.id
    if outside or not chain:
        return C.add(oid, None, "yield outside the message loop, or yielded value is not parse_email_message(message_from_bytes(msg))")
    C.add(oid, ok, detail, f"{rel}:{lp.lineno}")
    C.fn(m, "read_mbox_format_mail")


def _rtf(C, repo):
    rel = EX + "ms_legacy/rtf_extractor.py"
    m = loader.module(rel, repo)
    q = "_RtfParser._strip_rtf_full_with_pages"
    fn = m.functions.get(q)
    oid = "C03/rtf_extractor.py::_RtfParser._strip_rtf_full_with_pages/construction#one-page-entry-per-page-break-plus-the-last-page"
    if fn is None:
        return C.add(oid, None, "missing")
    loops = [n for n in fn.body if isinstance(n, ast.While)]
    if len(loops) != 1:
        return C.add(oid, None, "main scanning loop not found")
    lp = loops[0]
    closures = [n for n in fn.body if isinstance(n, ast.FunctionDef) and any(
        isinstance(x, ast.Call) and isinstance(x.func, ast.Attribute) and x.func.attr == "append" and dotted(x.func.value) == "self.pages" for x in ast.walk(n))]
    if len(closures) != 1:
        return C.add(oid, None, f"{len(closures)} nested page-flush functions")
    fname = closures[0].name
    fl = lambda n: isinstance(n, ast.Call) and dotted(n.func) == fname
    in_loop = [n for n in ast.walk(lp) if fl(n)]
    after = [s for s in fn.body[fn.body.index(lp) + 1:] if isinstance(s, ast.Expr) and fl(s.value)]
    # inside the loop flush_page() is called exactly in the branch recognising \page / \sbkpage
    guard_ok = False
    for n in ast.walk(lp):
        if isinstance(n, ast.If) and any(isinstance(s, ast.Expr) and fl(s.value) for s in n.body):
            t = ast.unparse(n.test)
            guard_ok = "'page'" in t and len([s for s in n.body if isinstance(s, ast.Expr) and fl(s.value)]) == 1
    paths = iteration_paths(lp.body, [fl])
    ok = len(in_loop) == 1 and guard_ok and len(after) == 1 and all(v[0] <= 1 for (v, _s) in paths)
    direct = [n for n in ast.walk(fn) if isinstance(n, ast.Call) and isinstance(n.func, ast.Attribute) and dotted(n.func.value) == "self.pages"
              and n.func.attr != "append" and not any(n is x for x in ast.walk(closures[0]))]
    if direct:
        return C.add(oid, None, "self.pages mutated by other means")
    if not (in_loop and after):
        return C.add(oid, False, f"flush_page() calls: {len(in_loop)} in the scanning loop, {len(after)} after it", f"{rel}:{fn.lineno}")
    C.add(oid, ok, f"flush_page() calls: {len(in_loop)} in the loop (guarded by the page-break test), {len(after)} after it", f"{rel}:{fn.lineno}")
    C.fn(m, q)


def _ppt_entry(C, repo):
    rel = EX + "ms_legacy/ppt_extractor.py"
    m = loader.module(rel, repo)
    q = "_extract_ppt_content_structured"
    fn = m.functions.get(q)
    oid = "C03/ppt_extractor.py::_extract_ppt_content_structured/construction#fresh-PptContent-parsed-once-then-images-distributed"
    if fn is None:
        return C.add(oid, None, "missing")
    inits = [d for d in assigns_to(fn, "content") if isinstance(d, ast.Assign)]
    parse = [n for n in ast.walk(fn) if isinstance(n, ast.Call) and dotted(n.func) == "_parse_ppt_document"]
    rets = [n for n in ast.walk(fn) if isinstance(n, ast.Return)]
    ok = (len(inits) == 1 and ast.unparse(inits[0].value) == "PptContent()" and len(parse) == 1 and len(parse[0].args) == 2
          and ast.unparse(parse[0].args[1]) == "content" and len(rets) == 1 and ast.unparse(rets[0].value) == "content")
    slides_touch = [n for n in ast.walk(fn) if isinstance(n, ast.Attribute) and n.attr in ("slides", "all_text") and dotted(n) .startswith("content.")]
    if not ok or slides_touch:
        return C.add(oid, None, "shape")
    C.add(oid, True, "content = PptContent(); _parse_ppt_document(stream, content) once; slides/all_text not touched in between", f"{rel}:{fn.lineno}")
    C.fn(m, q)


def _sheets(C, repo):
    from contracts import c03_prov as P
    rel = EX + "ms_modern/xlsx_extractor.py"
    m = loader.module(rel, repo)
    _order_site(C, m, rel, "read_xlsx", "C03/xlsx_extractor.py::read_xlsx/construction#sheets-in-workbook-order",
                lambda fn: P.sink_arg(fn, "XlsxContent", "sheets"), ("sheetnames", "worksheets"), "map", "XlsxContent.sheets")
    rel = EX + "ms_legacy/xls_extractor.py"
    m = loader.module(rel, repo)
    _order_site(C, m, rel, "read_xls", "C03/xls_extractor.py::read_xls/construction#one-sheet-per-workbook-sheet-in-order",
                lambda fn: P.sink_arg(fn, "XlsContent", "sheets"), ("sheets()", "sheet_names()", "sheet_by_index"), "map", "XlsContent.sheets")
    rel = EX + "open_office/ods_extractor.py"
    m = loader.module(rel, repo)
    p_ = _order_site(C, m, rel, "read_ods", "C03/ods_extractor.py::read_ods/construction#one-sheet-per-table:table-in-order",
                     lambda fn: P.sink_arg(fn, "OdsContent", "sheets"), ("table:table",), "map", "OdsContent.sheets")
    # ods sheets are numbered by position in iterate_units (enumerate there), nothing stored: no numbering obligation


PURE_BUILTINS = {"list", "str", "len", "max", "min", "sorted", "tuple", "dict", "set", "bool", "int", "float", "enumerate", "zip", "range",
                 "any", "all", "sum", "reversed", "isinstance", "iter", "next", "map", "filter", "repr", "abs", "frozenset"}
MUTATING = {"append", "extend", "insert", "pop", "remove", "clear", "sort", "update", "setdefault", "reverse", "popitem", "add", "discard"}


def _impurities(m, fn, depth=0, seen=None):
    """Reasons why fn may write state other than its own fresh locals (following calls of same-module helpers); [] = pure."""
    seen = seen if seen is not None else set()
    if id(fn) in seen or depth > 3:
        return []
    seen.add(id(fn))
    out = []
    params = {a.arg for a in fn.args.posonlyargs + fn.args.args + fn.args.kwonlyargs}
    fresh = set()          # locals bound to a fresh container (display / comprehension / list(...) / dict(...) ...)
    for n in ast.walk(fn):
        if isinstance(n, (ast.Assign, ast.AnnAssign)) and getattr(n, "value", None) is not None:
            for t in (n.targets if isinstance(n, ast.Assign) else [n.target]):
                if isinstance(t, ast.Name):
                    v = n.value
                    if isinstance(v, (ast.List, ast.Dict, ast.Set, ast.ListComp, ast.DictComp, ast.SetComp, ast.IfExp, ast.BinOp, ast.JoinedStr, ast.Constant)) or (
                            isinstance(v, ast.Call) and dotted(v.func) in ("list", "dict", "set", "sorted", "tuple")):
                        fresh.add(t.id)
    for n in ast.walk(fn):
        if isinstance(n, (ast.Global, ast.Nonlocal)):
            out.append(f"line {n.lineno}: {type(n).__name__.lower()}")
        elif isinstance(n, (ast.Attribute, ast.Subscript)) and isinstance(n.ctx, (ast.Store, ast.Del)):
            base = n.value
            while isinstance(base, (ast.Attribute, ast.Subscript)):
                base = base.value
            if not (isinstance(base, ast.Name) and base.id in fresh and base.id not in params):
                out.append(f"line {n.lineno}: store to {ast.unparse(n)[:30]}")
        elif isinstance(n, ast.Call):
            if isinstance(n.func, ast.Attribute):
                if n.func.attr in MUTATING and not (isinstance(n.func.value, ast.Name) and n.func.value.id in fresh and n.func.value.id not in params):
                    out.append(f"line {n.lineno}: {ast.unparse(n.func)[:30]}(...) on a non-local object")
                d = dotted(n.func)
                if d.startswith("self.") and d.count(".") == 1:
                    cls = None
                    for q, f_ in m.functions.items():
                        if f_ is fn and "." in q:
                            cls = q.rsplit(".", 1)[0]
                    callee = m.functions.get(f"{cls}.{d.split('.')[1]}") if cls else None
                    if callee is not None:
                        out += _impurities(m, callee, depth + 1, seen)
            else:
                d = dotted(n.func)
                if d in PURE_BUILTINS:
                    continue
                callee = m.functions.get(d) if d and "." not in d else None
                if callee is not None:
                    out += [f"{d}: {x}" for x in _impurities(m, callee, depth + 1, seen)]
                elif d and d[0].isupper() or d in m.classes:
                    continue                      # constructing an object
                else:
                    out.append(f"line {n.lineno}: call of {d or ast.unparse(n.func)[:20]} (not a helper of this module)")
    return out


def _opaque_members_pure(C, repo):
    """Members modelled as uninterpreted functions of the instance must not write state (helpers of the module are followed)."""
    m = loader.module(DT, repo)
    for q in ("PptSlideContent.text_combined", "OdpSlide.text_combined", "PptxSlide.get_text", "XlsSheet.get_table"):
        oid = f"C03/data_types.py::{q}/purity#reads-only-the-instance-writes-only-fresh-locals"
        fn = m.functions.get(q)
        if fn is None:
            C.add(oid, None, "missing")
            continue
        why = _impurities(m, fn)
        C.add(oid, True if not why else None, "; ".join(why[:4]) or "no store to non-local state, helper calls followed", f"{DT}:{fn.lineno}")
        C.fn(m, q)


# -------------------------------------------------- heading-section iterators --
def heading_iterators(repo, tier):
    C = Checks()
    m = loader.module(DT, repo)
    for cls, unit in (("DocContent", "DocUnit"), ("OdtContent", "OdtUnit")):
        _list_counter_iterator(C, m, cls, unit)
    _docx_iterator(C, m)
    return {"obligations": C.obls, "functions": C.fns}


def _yield_groups_exclusive(fn, allowed_loop_over):
    """Every yield of fn is (a) `for u in <list>: yield u` or (b) a single `yield X`; each group is directly
    followed by `return` or ends the function.  -> (ok, groups)"""
    groups = []

    def walk(stmts, tail_ok):
        for i, s in enumerate(stmts):
            last = i == len(stmts) - 1
            nxt_ret = (not last and isinstance(stmts[i + 1], ast.Return)) or (last and tail_ok)
            if isinstance(s, ast.For) and any(isinstance(x, (ast.Yield, ast.YieldFrom)) for x in ast.walk(s)):
                simple = (isinstance(s.target, ast.Name) and isinstance(s.iter, ast.Name) and len(s.body) == 1
                          and isinstance(s.body[0], ast.Expr) and isinstance(s.body[0].value, ast.Yield)
                          and isinstance(s.body[0].value.value, ast.Name) and s.body[0].value.value.id == s.target.id)
                groups.append(("list", s, simple and nxt_ret and s.iter.id in allowed_loop_over))
            elif isinstance(s, ast.Expr) and isinstance(s.value, ast.Yield):
                groups.append(("single", s, nxt_ret))
            elif isinstance(s, ast.Expr) and isinstance(s.value, ast.YieldFrom):
                groups.append(("from", s, False))
            elif isinstance(s, ast.If):
                walk(s.body, False)
                walk(s.orelse, False)
            elif isinstance(s, (ast.For, ast.While, ast.With, ast.Try)):
                for sub in ast.walk(s):
                    if isinstance(sub, (ast.Yield, ast.YieldFrom)):
                        groups.append(("nested", s, False))
                        break
    walk(fn.body, True)
    return all(g[2] for g in groups) and bool(groups), groups


class _Group:
    """A fixed set of obligation ids; an early exit reports the main one and leaves the others unknown."""

    def __init__(self, C, base, ids, main):
        self.C, self.base, self.ids, self.main, self.done = C, base, ids, main, set()

    def add(self, label, verdict, detail="", loc=""):
        self.done.add(label)
        self.C.add(self.base + "#" + label, verdict, detail, loc)

    def bail(self, verdict, detail, loc=""):
        self.add(self.main, verdict, detail, loc)
        for l in self.ids:
            if l not in self.done:
                self.add(l, None, "not analysed: " + detail)


def _list_counter_iterator(C, m, cls, unit):
    """doc / odt: units are collected in a list by a nested flush function that numbers them with a counter."""
    q = f"{cls}.iterate_units"
    fn = m.functions.get(q)
    base = f"C03/data_types.py::{q}/numbering"
    G = _Group(C, base, ["every-appended-unit-takes-the-counter-then-increments-it", "unit-list-only-grows-by-numbered-appends",
                         "units-numbered-1..m-in-yield-order"], "units-numbered-1..m-in-yield-order")
    return _list_counter_iterator_(G, C, m, cls, unit, q, fn, base)


def _list_counter_iterator_(G, C, m, cls, unit, q, fn, base):
    if fn is None:
        return G.bail(None, "missing")
    nested = [n for n in fn.body if isinstance(n, ast.FunctionDef)]
    # the nested function that appends <unit>(unit_number=<counter>) to a list
    cand = []
    for nf in nested:
        for n in ast.walk(nf):
            if isinstance(n, ast.Call) and isinstance(n.func, ast.Attribute) and n.func.attr == "append" and isinstance(n.func.value, ast.Name) \
                    and len(n.args) == 1 and isinstance(n.args[0], ast.Call) and dotted(n.args[0].func) == unit:
                k = kw(n.args[0], "unit_number")
                if isinstance(k, ast.Name):
                    cand.append((nf, n, n.func.value.id, k.id))
    if len(cand) != 1:
        return G.bail(None, f"{len(cand)} numbered appends in nested functions")
    flush, app_node, lst, ctr = cand[0]
    # (1) counter: initialised to 1 once at function level, only other assignment is `ctr += 1` inside flush, paired with the append
    defs = assigns_to(fn, ctr)
    init = [d for d in defs if isinstance(d, (ast.Assign, ast.AnnAssign)) and isinstance(d.value, ast.Constant) and d in fn.body]
    incs = [d for d in defs if isinstance(d, ast.AugAssign) and isinstance(d.op, ast.Add) and isinstance(d.value, ast.Constant) and d.value.value == 1]
    others = [d for d in defs if d not in init and d not in incs]
    nonlocal_ok = any(isinstance(n, ast.Nonlocal) and ctr in n.names for n in flush.body)
    if len(init) != 1 or others or not nonlocal_ok or any(not any(i is x for x in ast.walk(flush)) for i in incs):
        return G.bail(None, f"counter {ctr}: inits={len(init)} others={len(others)}")
    if init[0].value.value != 1:
        return G.bail(False, f"counter {ctr} starts at {init[0].value.value}: first unit would not be number 1", f"{DT}:{init[0].lineno}")
    is_app = lambda n: n is app_node
    is_inc = lambda n: any(n is i for i in incs)
    paths = iteration_paths(flush.body, [is_app, is_inc])
    paired = all(v in ((0, 0), (1, 1)) for (v, s) in paths if s in ("fall", "return"))
    order = all(i.lineno > app_node.lineno for i in incs) and len(incs) >= 1
    # between append and increment nothing reads/writes the counter again: same block, append statement directly followed by the increment
    G.add("every-appended-unit-takes-the-counter-then-increments-it", paired and order, f"flush paths={sorted(paths)}", f"{DT}:{flush.lineno}")
    # (2) the list: other mutations are `= []`, `= [<unit>(unit_number=1)]` or `.append(<unit>(unit_number=1))` in a branch ending with return
    #     before flush is ever called; reordering calls are absent
    bad = []
    for d in assigns_to(fn, lst):
        v = getattr(d, "value", None)
        if isinstance(v, ast.List) and (not v.elts or (len(v.elts) == 1 and isinstance(v.elts[0], ast.Call) and dotted(v.elts[0].func) == unit
                                                      and isinstance(kw(v.elts[0], "unit_number"), ast.Constant) and kw(v.elts[0], "unit_number").value == 1)):
            continue
        bad.append(f"line {d.lineno}: {lst} = {ast.unparse(v)[:30] if v is not None else '?'}")
    flush_calls = [n for n in ast.walk(fn) if isinstance(n, ast.Call) and dotted(n.func) == flush.name]
    first_flush = min([n.lineno for n in flush_calls], default=10 ** 9)
    for n in ast.walk(fn):
        if isinstance(n, ast.Call) and isinstance(n.func, ast.Attribute) and dotted(n.func.value) == lst and n is not app_node:
            if n.func.attr == "append" and len(n.args) == 1 and isinstance(n.args[0], ast.Call) and dotted(n.args[0].func) == unit \
                    and isinstance(kw(n.args[0], "unit_number"), ast.Constant) and kw(n.args[0], "unit_number").value == 1 and n.lineno < first_flush:
                continue
            if n.func.attr in ("append", "insert", "extend", "pop", "remove", "sort", "reverse", "clear"):
                bad.append(f"line {n.lineno}: {lst}.{n.func.attr}")
    for n in ast.walk(fn):
        if isinstance(n, ast.Attribute) and isinstance(n.ctx, ast.Store) and n.attr == "unit_number":
            bad.append(f"line {n.lineno}: unit_number stored")
    if bad:
        G.add("unit-list-only-grows-by-numbered-appends", None, "; ".join(bad))
    else:
        G.add("unit-list-only-grows-by-numbered-appends", True, f"list {lst}", f"{DT}:{fn.lineno}")
    # (3) yields
    ok, groups = _yield_groups_exclusive(fn, {lst})
    singles_ok = True
    for kind, s, _ok in groups:
        if kind == "single":
            v = _resolve_local(fn, s.value.value, fn)
            if isinstance(v, ast.Name):
                d_ = [a for a in assigns_to(fn, v.id) if isinstance(a, (ast.Assign, ast.AnnAssign))]
                v = d_[0].value if len(d_) == 1 else v
            if not (isinstance(v, ast.Call) and dotted(v.func) == unit and isinstance(kw(v, "unit_number"), ast.Constant)):
                singles_ok = None if singles_ok is not False else False
                continue
            if kw(v, "unit_number").value != 1:
                singles_ok = False
    if not ok:
        G.add("units-numbered-1..m-in-yield-order", None, f"yield groups: {[(g[0], g[1].lineno, g[2]) for g in groups]}")
    else:
        G.add("units-numbered-1..m-in-yield-order", singles_ok,
              f"{len(groups)} mutually exclusive yield groups (list iteration in order / single unit numbered 1)", f"{DT}:{fn.lineno}")
    C.fn(m, q, 3)


def _docx_iterator(C, m):
    q = "DocxContent.iterate_units"
    fn = m.functions.get(q)
    base = f"C03/data_types.py::{q}/numbering"
    G = _Group(C, base, ["each-flush-yields-nothing-or-one-unit-numbered-by-the-incremented-counter", "units-numbered-1..m-in-yield-order"],
               "units-numbered-1..m-in-yield-order")
    if fn is None:
        return G.bail(None, "missing")
    nested = [n for n in fn.body if isinstance(n, ast.FunctionDef)]
    cand = []
    for nf in nested:
        for n in ast.walk(nf):
            if isinstance(n, ast.Call) and dotted(n.func) == "DocxUnit" and isinstance(kw(n, "unit_number"), ast.Name):
                cand.append((nf, n, kw(n, "unit_number").id))
    if len(cand) != 1:
        return G.bail(None, f"{len(cand)} numbered unit constructions in nested functions")
    flush, ctor, ctr = cand[0]
    defs = assigns_to(fn, ctr)
    init = [d for d in defs if isinstance(d, (ast.Assign, ast.AnnAssign)) and isinstance(d.value, ast.Constant) and d in fn.body]
    incs = [d for d in defs if isinstance(d, ast.AugAssign) and isinstance(d.op, ast.Add) and isinstance(d.value, ast.Constant) and d.value.value == 1]
    others = [d for d in defs if d not in init and d not in incs]
    if len(init) != 1 or others or len(incs) != 1 or not any(incs[0] is x for x in ast.walk(flush)):
        return G.bail(None, f"counter {ctr}: inits={len(init)} incs={len(incs)} others={len(others)}")
    if init[0].value.value != 0:
        return G.bail(False, f"counter {ctr} starts at {init[0].value.value} and is incremented before use: first unit would not be number 1",
                      f"{DT}:{init[0].lineno}")
    # flush: every return is iter(()) or -- directly after the single increment -- iter([DocxUnit(unit_number=ctr)])
    is_inc = lambda n: n is incs[0]
    is_unit_ret = lambda n: isinstance(n, ast.Return) and any(x is ctor for x in ast.walk(n))
    paths = iteration_paths(flush.body, [is_inc, is_unit_ret])
    paired = all(v in ((0, 0), (1, 1)) for (v, s) in paths) and all(s == "return" for (_v, s) in paths)
    unit_rets = [n for n in ast.walk(flush) if is_unit_ret(n)]
    def one_unit_seq(v):        # [Unit] / (Unit,) / iter([Unit]) / iter((Unit,)) / list(...)/tuple(...) of those
        while isinstance(v, ast.Call) and dotted(v.func) in ("iter", "list", "tuple") and len(v.args) == 1:
            v = v.args[0]
        return isinstance(v, (ast.List, ast.Tuple)) and len(v.elts) == 1 and v.elts[0] is ctor

    def empty_seq(v):
        if v is None:
            return False
        while isinstance(v, ast.Call) and dotted(v.func) in ("iter", "list", "tuple") and len(v.args) <= 1:
            if not v.args:
                return True
            v = v.args[0]
        return isinstance(v, (ast.List, ast.Tuple)) and not v.elts
    shape = len(unit_rets) == 1 and one_unit_seq(unit_rets[0].value) and incs[0].lineno < unit_rets[0].lineno
    empties = [n for n in ast.walk(flush) if isinstance(n, ast.Return) and n not in unit_rets]
    shape = shape and all(empty_seq(r.value) for r in empties)
    G.add("each-flush-yields-nothing-or-one-unit-numbered-by-the-incremented-counter", (paired and shape) if shape else None,
          f"flush paths={sorted(paths)}", f"{DT}:{flush.lineno}")
    # every use of flush is `yield from flush(...)`; other yields: a single final unit numbered 1 reachable only when no heading was seen
    calls = [n for n in ast.walk(fn) if isinstance(n, ast.Call) and dotted(n.func) == flush.name]
    yf = [n for n in ast.walk(fn) if isinstance(n, ast.YieldFrom)]
    uses_ok = len(calls) == len(yf) and all(y.value in calls for y in yf)
    ys = [n for n in ast.walk(fn) if isinstance(n, ast.Yield) and not any(n is x for nf in nested for x in ast.walk(nf))]
    final_ok = None
    if len(ys) == 1 and isinstance(ys[0].value, ast.Call) and dotted(ys[0].value.func) == "DocxUnit":
        k = kw(ys[0].value, "unit_number")
        last = fn.body[-1]
        prev = fn.body[-2] if len(fn.body) > 1 else None
        # `if flag: return` followed by the yield, or the yield as the only statement of a final `if not flag:`
        guard = isinstance(prev, ast.If) and isinstance(prev.test, ast.Name) and len(prev.body) == 1 and isinstance(prev.body[0], ast.Return) \
            and not prev.orelse and isinstance(last, ast.Expr) and last.value is ys[0]
        flag = prev.test.id if guard else None
        if not guard and isinstance(last, ast.If) and not last.orelse and isinstance(last.test, ast.UnaryOp) and isinstance(last.test.op, ast.Not) \
                and isinstance(last.test.operand, ast.Name) and len(last.body) == 1 and isinstance(last.body[0], ast.Expr) and last.body[0].value is ys[0]:
            guard, flag = True, last.test.operand.id
        if guard and isinstance(k, ast.Constant):
            # flush returns nothing unless <path var> is non-empty; <path var> is only assigned (beyond []) next to `flag = True`
            real = [b for b in flush.body if not isinstance(b, ast.Nonlocal) and not (isinstance(b, ast.Expr) and isinstance(b.value, ast.Constant))]
            first = real[0] if real else None
            pv = first.test.operand.id if (isinstance(first, ast.If) and isinstance(first.test, ast.UnaryOp) and isinstance(first.test.op, ast.Not)
                                           and isinstance(first.test.operand, ast.Name) and len(first.body) == 1
                                           and isinstance(first.body[0], ast.Return) and empty_seq(first.body[0].value)) else None
            if pv is not None:
                ok = True
                for d in assigns_to(fn, pv):
                    v = getattr(d, "value", None)
                    if isinstance(v, ast.List) and not v.elts:
                        continue
                    blk = _enclosing_block(fn, d)
                    ok &= blk is not None and any(isinstance(s, ast.Assign) and ast.unparse(s) == f"{flag} = True" for s in blk)
                flag_defs = [ast.unparse(d) for d in assigns_to(fn, flag)]
                ok &= set(flag_defs) <= {f"{flag} = False", f"{flag} = True"}
                final_ok = ok and k.value == 1
                if ok and k.value != 1:
                    G.add("units-numbered-1..m-in-yield-order", False, f"the single unit of a document without headings is numbered {k.value}", f"{DT}:{ys[0].lineno}")
                    C.fn(m, q, 2)
                    return
    if not uses_ok or final_ok is None:
        G.add("units-numbered-1..m-in-yield-order", None, f"flush uses ok={uses_ok}, final unit pattern recognised={final_ok is not None}")
    else:
        G.add("units-numbered-1..m-in-yield-order", final_ok,
              "units come from `yield from flush(...)` in call order; the un-numbered fallback unit (number 1) only when no heading was seen, "
              "in which case flush never produced a unit", f"{DT}:{fn.lineno}")
    C.fn(m, q, 2)


def _enclosing_block(fn, node):
    for n in ast.walk(fn):
        for f in ("body", "orelse", "finalbody"):
            blk = getattr(n, f, None)
            if isinstance(blk, list) and any(s is node for s in blk):
                return blk
    return None


# ------------------------------------------------ element k depends on source element k only --
# Statement: "unit k holds the text of page / slide / chapter k" -- at a construction site this is a NON-INTERFERENCE policy of the
# element loop: what is handed to the element constructor (or to the helper that builds the element) in iteration k is computed from
# the loop's own element, from values that do not change while the loop runs, and from counters.  State that is carried from one
# iteration to the next (a local written in one iteration and read in a later one, a container / object created before the loop and
# modified inside it, also through a helper that stores into the object it is handed) and reaches the element is how the content of
# ANOTHER page gets into this unit (caches keyed by something weaker than the page, "previous value" fall-backs, de-duplication sets).
# Decided by a backward slice over the loop body (data and control dependences); a flow that is not understood is `unknown`, a
# loop-carried flow is `suspicious` (= unknown, the native replayer decides).
_MUTATORS = {"append", "add", "extend", "update", "setdefault", "insert", "pop", "remove", "clear", "discard", "popitem", "sort", "reverse",
             "appendleft", "popleft", "move_to_end", "write", "seek", "truncate", "put", "set", "store", "register", "cache", "remember"}
_PURE_METHODS = {"get", "keys", "values", "items", "copy", "strip", "lstrip", "rstrip", "split", "splitlines", "join", "lower", "upper", "startswith",
                 "endswith", "find", "findall", "iter", "index", "count", "format", "replace", "encode", "decode", "read", "getvalue", "tell",
                 "group", "match", "search", "fullmatch", "sub", "namelist", "getinfo", "exists", "is_file", "title", "casefold", "isdigit",
                 "partition", "rpartition", "rsplit", "zfill", "ljust", "rjust", "isspace", "hexdigest", "digest", "total_seconds", "isoformat"}


def _base_name(e):
    while isinstance(e, (ast.Attribute, ast.Subscript, ast.Starred)):
        e = e.value
    return e.id if isinstance(e, ast.Name) else None


def _fn_locals(fn):
    out = {a.arg for a in fn.args.args + fn.args.kwonlyargs + fn.args.posonlyargs}
    if fn.args.vararg:
        out.add(fn.args.vararg.arg)
    if fn.args.kwarg:
        out.add(fn.args.kwarg.arg)
    for n in ast.walk(fn):
        if isinstance(n, ast.Name) and isinstance(n.ctx, (ast.Store, ast.Del)):
            out.add(n.id)
    return out


def _stores_into_param(m, callee_q, pos, kwname, depth=0, seen=None):
    """does the module-level function store into (mutate) the object bound to its parameter (positional index / keyword)?
    -> True / False / None (not decidable here)"""
    seen = seen if seen is not None else set()
    fn = m.functions.get(callee_q)
    if fn is None:
        return None
    params = [a.arg for a in fn.args.posonlyargs + fn.args.args]
    p = kwname if kwname else (params[pos] if pos is not None and pos < len(params) else None)
    if p is None or (callee_q, p) in seen:
        return False if p is not None else None
    seen.add((callee_q, p))
    for n in ast.walk(fn):
        if isinstance(n, (ast.Assign, ast.AugAssign, ast.AnnAssign, ast.Delete)):
            tg = n.targets if isinstance(n, (ast.Assign, ast.Delete)) else [n.target]
            for t in tg:
                for x in (t.elts if isinstance(t, (ast.Tuple, ast.List)) else [t]):
                    if isinstance(x, (ast.Attribute, ast.Subscript)) and _base_name(x) == p:
                        return True
        if isinstance(n, ast.Call):
            if isinstance(n.func, ast.Attribute) and _base_name(n.func.value) == p and n.func.attr in _MUTATORS:
                return True
            q = dotted(n.func)
            if q in m.functions and depth < 3:
                for i, a in enumerate(n.args):
                    if isinstance(a, ast.Name) and a.id == p and _stores_into_param(m, q, i, None, depth + 1, seen):
                        return True
                for k in n.keywords:
                    if isinstance(k.value, ast.Name) and k.value.id == p and k.arg and _stores_into_param(m, q, None, k.arg, depth + 1, seen):
                        return True
    return False


def _qual(m, fn):
    return next((q for q, f in m.functions.items() if f is fn), fn.name)


def element_independence(m, fn, sink_names, _depth=0):
    """-> (verdict, detail, lineno): True = nothing carried between iterations reaches the element; False = suspicious; None = not understood."""
    body_nodes = [n for s in fn.body for n in _own_walk(s)]
    parents = {}
    for n in body_nodes:
        for c in ast.iter_child_nodes(n):
            parents[c] = n
    # the element may be built by a helper (or the whole loop may live in one): module functions that, directly or through other
    # module functions, call one of the named constructors / builders stand for them
    builders = set()
    for _round in range(4):
        for q, f in m.functions.items():
            if q not in builders and any(isinstance(n, ast.Call) and (dotted(n.func).split(".")[-1] in sink_names or dotted(n.func) in builders
                                                                      or dotted(n.func).replace("self.", "").replace("cls.", "") in {b.split(".")[-1] for b in builders})
                                         for n in ast.walk(f)):
                builders.add(q)
    is_sink = lambda n: isinstance(n, ast.Call) and (dotted(n.func).split(".")[-1] in sink_names or (dotted(n.func) in builders and dotted(n.func) != _qual(m, fn)))

    def in_loop(n):
        x = n
        while x in parents:
            x = parents[x]
            if isinstance(x, (ast.For, ast.While, ast.ListComp, ast.GeneratorExp)):
                return True
        return False
    cands = [n for n in body_nodes if is_sink(n)]
    sinks = [n for n in cands if in_loop(n)]
    if not sinks:
        for n in cands:                       # the loop lives in a helper: the policy is the helper's
            q = dotted(n.func)
            if q in builders and _depth < 3:
                return element_independence(m, m.functions[q], sink_names, _depth + 1)
        return None, f"no call of {sorted(sink_names)} (or of a function that builds the element) inside a loop of {fn.name}", fn.lineno
    locs = _fn_locals(fn)
    results = []
    for sk in sinks:
        chain, x = [], sk
        while x in parents:
            x = parents[x]
            chain.append(x)
        loops = [x for x in chain if isinstance(x, (ast.For, ast.While, ast.ListComp, ast.GeneratorExp))]
        if not loops:
            results.append((None, f"{ast.unparse(sk.func)} is not called in a loop", sk.lineno))
            continue
        lp = loops[-1]                       # outermost loop around the element construction
        if isinstance(lp, (ast.ListComp, ast.GeneratorExp)):
            inner = list(ast.walk(lp))
            body_stmts, targets = [], {n.id for g in lp.generators for n in ast.walk(g.target) if isinstance(n, ast.Name)}
        else:
            inner = [n for s in lp.body for n in _own_walk(s)]
            body_stmts = lp.body
            targets = {n.id for n in ast.walk(lp.target) if isinstance(n, ast.Name)} if isinstance(lp, ast.For) else set()
        # names every iteration binds before it reads them (not upward-exposed in the loop body) are this iteration's own
        exposed = _exposed(body_stmts, set(targets))[0] if body_stmts else set()
        written, mutated, unknown_calls, defs = set(), {}, {}, {}
        for n in inner:
            if isinstance(n, (ast.Assign, ast.AugAssign, ast.AnnAssign, ast.NamedExpr)):
                tg = n.targets if isinstance(n, ast.Assign) else [n.target]
                val = n.value
                for t in tg:
                    for x in (t.elts if isinstance(t, (ast.Tuple, ast.List)) else [t]):
                        if isinstance(x, ast.Starred):
                            x = x.value
                        if isinstance(x, ast.Name):
                            written.add(x.id)
                            defs.setdefault(x.id, []).append((n, val, isinstance(n, ast.AugAssign)))
                        elif isinstance(x, (ast.Attribute, ast.Subscript)) and _base_name(x):
                            mutated.setdefault(_base_name(x), n)
            elif isinstance(n, (ast.For, ast.comprehension)):
                for x in ast.walk(n.target):
                    if isinstance(x, ast.Name):
                        written.add(x.id)
                        defs.setdefault(x.id, []).append((n, n.iter, False))
            elif isinstance(n, ast.withitem) and n.optional_vars is not None:
                for x in ast.walk(n.optional_vars):
                    if isinstance(x, ast.Name):
                        written.add(x.id)
                        defs.setdefault(x.id, []).append((n, n.context_expr, False))
            elif isinstance(n, ast.Delete):
                for t in n.targets:
                    if _base_name(t):
                        mutated.setdefault(_base_name(t), n)
            elif isinstance(n, ast.Call):
                if isinstance(n.func, ast.Attribute) and _base_name(n.func.value) in locs:
                    b = _base_name(n.func.value)
                    if n.func.attr in _MUTATORS:
                        mutated.setdefault(b, n)
                    elif n.func.attr not in _PURE_METHODS:
                        unknown_calls.setdefault(b, n)
                q = dotted(n.func)
                if q in m.functions:
                    for i, a in enumerate(n.args):
                        if isinstance(a, ast.Name) and a.id in locs and _stores_into_param(m, q, i, None):
                            mutated.setdefault(a.id, n)
                    for k in n.keywords:
                        if isinstance(k.value, ast.Name) and k.value.id in locs and k.arg and _stores_into_param(m, q, None, k.arg):
                            mutated.setdefault(k.value.id, n)

        def counter(name):
            """a loop-carried number: every write is `n += e` / `n = n + e` / the result of a call that n itself is threaded through"""
            ds = defs.get(name, [])
            if not ds:
                return False
            for node, val, aug in ds:
                if aug and isinstance(node.op, (ast.Add, ast.Sub)):
                    continue
                if isinstance(val, ast.BinOp) and isinstance(val.op, (ast.Add, ast.Sub)) and isinstance(val.left, ast.Name) and val.left.id == name:
                    continue
                if isinstance(val, ast.Call) and dotted(val.func) in m.functions and any(isinstance(a, ast.Name) and a.id == name for a in val.args) \
                        and isinstance(node, ast.Assign) and isinstance(node.targets[0], ast.Tuple):
                    cf = m.functions[dotted(val.func)]
                    ps = cf.args.posonlyargs + cf.args.args
                    i = next(i for i, a in enumerate(val.args) if isinstance(a, ast.Name) and a.id == name)
                    if i < len(ps) and ps[i].annotation is not None and ast.unparse(ps[i].annotation) == "int":
                        continue
                return False
            return True

        fresh = (written - exposed) | set(targets)
        carried = {}
        for nme in written:
            if nme in locs and nme in exposed and nme not in targets and not counter(nme):
                carried[nme] = f"`{nme}` is written in one iteration and may be read in a later one (line {defs[nme][0][0].lineno if hasattr(defs[nme][0][0], 'lineno') else lp.lineno})"
        for nme, node in mutated.items():
            if nme in locs and nme not in fresh and nme not in written:
                carried[nme] = f"`{nme}` exists before the loop and is modified inside it (line {node.lineno})"
        maybe = {nme: node for nme, node in unknown_calls.items() if nme in locs and nme not in fresh and nme not in written and nme not in carried}
        # backward slice from the sink's arguments: data dependences through the loop's assignments, control dependences through the
        # tests of the statements that enclose a relevant assignment or the sink itself
        work, seen_n, hit, hit_maybe = [], set(), None, None
        ctrl_of = lambda node: [x.test for x in _chain(parents, node, lp) if isinstance(x, (ast.If, ast.While, ast.IfExp))]

        called = set()

        def push(expr):
            for x in ast.walk(expr):
                if isinstance(x, ast.Name) and isinstance(x.ctx, ast.Load) and x.id in locs and x.id not in seen_n:
                    seen_n.add(x.id)
                    work.append(x.id)
                elif isinstance(x, ast.Call) and dotted(x.func) in m.functions:
                    called.add(dotted(x.func))
        push(sk)
        for a in list(sk.args) + [k.value for k in sk.keywords]:
            push(a)
        for t in ctrl_of(sk):
            push(t)
        # the element is also missing / kept depending on what guards `continue` / `break` in the loop
        for n in inner:
            if isinstance(n, (ast.Continue, ast.Break)):
                for t in ctrl_of(n):
                    push(t)
        while work:
            nme = work.pop()
            if nme in carried and hit is None:
                hit = carried[nme]
            if nme in maybe and hit_maybe is None:
                hit_maybe = f"`{nme}` exists before the loop and `{ast.unparse(maybe[nme].func)}` may modify it (line {maybe[nme].lineno})"
            for node, val, _aug in defs.get(nme, []):
                if val is not None:
                    push(val)
                if isinstance(node, ast.AST) and node in parents:
                    for t in ctrl_of(node):
                        push(t)
        if not hit:
            for q in sorted(called):
                g = _module_state_written(m, q)
                if g:
                    hit = f"`{q}` (called for the element) modifies the module-level object `{g}`, which outlives the iteration"
                    break
        if hit:
            results.append((False, f"state carried between iterations reaches {ast.unparse(sk.func)}(...): {hit}", sk.lineno))
        elif hit_maybe:
            results.append((None, f"cannot tell whether the element depends on earlier iterations: {hit_maybe}", sk.lineno))
        else:
            results.append((True, f"arguments of {ast.unparse(sk.func)}(...) are computed from the loop element, loop-invariant values and counters only "
                                  f"(slice: {sorted(seen_n)})", sk.lineno))
    for v in (False, None):
        for r in results:
            if r[0] is v:
                return r
    return results[0]


def _reads(node):
    bound = {x.id for n in ast.walk(node) if isinstance(n, ast.comprehension) for x in ast.walk(n.target) if isinstance(x, ast.Name)}
    out = set()
    for n in _own_walk(node):
        if isinstance(n, ast.Name) and isinstance(n.ctx, ast.Load) and n.id not in bound:
            out.add(n.id)
    return out


def _targets(t):
    out = set()
    for x in ast.walk(t):
        if isinstance(x, ast.Name) and isinstance(x.ctx, ast.Store):
            out.add(x.id)
    return out


def _exposed(stmts, defined):
    """upward-exposed reads of a statement list: names that may be read before this list has bound them.
    -> (exposed, must-defined afterwards, every path left the list by continue / break / return / raise)"""
    exposed, defined = set(), set(defined)
    for s in stmts:
        if isinstance(s, (ast.Assign, ast.AnnAssign)):
            if getattr(s, "value", None) is not None:
                exposed |= _reads(s.value) - defined
            for t in (s.targets if isinstance(s, ast.Assign) else [s.target]):
                if isinstance(t, (ast.Name, ast.Tuple, ast.List)):
                    if getattr(s, "value", None) is not None:
                        defined |= _targets(t)
                else:
                    exposed |= _reads(t) - defined
        elif isinstance(s, ast.AugAssign):
            exposed |= (_reads(s.value) | _reads(s.target) | ({s.target.id} if isinstance(s.target, ast.Name) else set())) - defined
        elif isinstance(s, ast.If):
            exposed |= _reads(s.test) - defined
            e1, d1, t1 = _exposed(s.body, defined)
            e2, d2, t2 = _exposed(s.orelse, defined)
            exposed |= e1 | e2
            if t1 and t2:
                return exposed, defined, True
            defined = d2 if t1 else d1 if t2 else (d1 & d2)
        elif isinstance(s, (ast.For, ast.AsyncFor)):
            exposed |= _reads(s.iter) - defined
            e1, _d, _t = _exposed(s.body, defined | _targets(s.target))
            e2, _d, _t = _exposed(s.orelse, defined)
            exposed |= e1 | e2
        elif isinstance(s, ast.While):
            exposed |= _reads(s.test) - defined
            e1, _d, _t = _exposed(s.body, defined)
            exposed |= e1 | _exposed(s.orelse, defined)[0]
        elif isinstance(s, (ast.With, ast.AsyncWith)):
            for it in s.items:
                exposed |= _reads(it.context_expr) - defined
                if it.optional_vars is not None:
                    defined |= _targets(it.optional_vars)
            e1, d1, t1 = _exposed(s.body, defined)
            exposed |= e1
            defined = d1
            if t1:
                return exposed, defined, True
        elif isinstance(s, ast.Try):
            e1, d1, t1 = _exposed(s.body, defined)
            exposed |= e1
            outs = [] if t1 else [d1]
            for h in s.handlers:
                eh, dh, th = _exposed(h.body, defined | ({h.name} if h.name else set()))
                exposed |= eh
                if not th:
                    outs.append(dh)
            if s.orelse:
                eo, do, to = _exposed(s.orelse, d1)
                exposed |= eo
                if not t1:
                    outs[0] = do
            if not outs:
                ef = _exposed(s.finalbody, defined)[0]
                return exposed | ef, defined, True
            nd = set.intersection(*outs)
            ef, df, tf = _exposed(s.finalbody, nd)
            exposed |= ef
            defined = df
        elif isinstance(s, (ast.Continue, ast.Break, ast.Raise, ast.Return)):
            exposed |= _reads(s) - defined
            return exposed, defined, True
        elif isinstance(s, (ast.FunctionDef, ast.AsyncFunctionDef, ast.ClassDef)):
            defined.add(s.name)
        else:
            exposed |= _reads(s) - defined
            for n in _own_walk(s):                     # walrus
                if isinstance(n, ast.NamedExpr):
                    defined |= _targets(n.target)
    return exposed, defined, False


def _module_state_written(m, q, depth=0, seen=None):
    """name of a module-level object that the module function q (or a module function it calls) modifies in place or rebinds, else None"""
    seen = seen if seen is not None else set()
    fn = m.functions.get(q)
    if fn is None or q in seen:
        return None
    seen.add(q)
    globs = {n for x in ast.walk(fn) if isinstance(x, ast.Global) for n in x.names}
    locs = _fn_locals(fn) - globs
    is_mod = lambda name: name is not None and name not in locs and name in m.assigns
    for n in ast.walk(fn):
        if isinstance(n, (ast.Assign, ast.AugAssign, ast.AnnAssign, ast.Delete)):
            for t in (n.targets if isinstance(n, (ast.Assign, ast.Delete)) else [n.target]):
                for x in (t.elts if isinstance(t, (ast.Tuple, ast.List)) else [t]):
                    if isinstance(x, (ast.Attribute, ast.Subscript)) and is_mod(_base_name(x)):
                        return _base_name(x)
                    if isinstance(x, ast.Name) and x.id in globs:
                        return x.id
        elif isinstance(n, ast.Call):
            if isinstance(n.func, ast.Attribute) and n.func.attr in _MUTATORS and is_mod(_base_name(n.func.value)) \
                    and not isinstance(m.assigns.get(_base_name(n.func.value)), ast.Call):
                return _base_name(n.func.value)
            cq = dotted(n.func)
            if cq in m.functions and depth < 2:
                g = _module_state_written(m, cq, depth + 1, seen)
                if g:
                    return g
    return None


def _chain(parents, node, stop):
    x = node
    while x in parents and x is not stop:
        x = parents[x]
        if x is stop:
            break
        yield x


def _own_walk(s):
    """nodes of a statement, not entering nested function / class definitions"""
    todo = [s]
    while todo:
        n = todo.pop()
        yield n
        for c in ast.iter_child_nodes(n):
            if not isinstance(c, (ast.FunctionDef, ast.AsyncFunctionDef, ast.ClassDef, ast.Lambda)):
                todo.append(c)


INDEPENDENCE_SITES = [
    # (module, function, calls that build / receive the element, obligation id)
    ("pdf/pdf_extractor.py", "read_pdf", {"PdfPage"}, "C03/pdf_extractor.py::read_pdf/policy#page-k-element-is-computed-from-page-k-only"),
    ("open_office/odp_extractor.py", "read_odp", {"_extract_slide", "OdpSlide"}, "C03/odp_extractor.py::read_odp/policy#slide-k-element-is-computed-from-draw:page-k-only"),
    ("epub_extractor.py", "read_epub", {"_extract_chapter", "EpubChapter"}, "C03/epub_extractor.py::read_epub/policy#chapter-k-element-is-computed-from-spine-item-k-only"),
    ("mail/mbox_email_extractor.py", "read_mbox_format_mail", {"parse_email_message", "message_from_bytes"},
     "C03/mbox_email_extractor.py::read_mbox_format_mail/policy#message-k-element-is-computed-from-message-k-only"),
    ("ms_modern/pptx_extractor.py", "read_pptx", {"_process_slide_from_context", "PptxSlide"},
     "C03/pptx_extractor.py::read_pptx/policy#slide-k-element-is-computed-from-slide-part-k-only"),
    ("open_office/ods_extractor.py", "read_ods", {"_extract_sheet", "OdsSheet"}, "C03/ods_extractor.py::read_ods/policy#sheet-k-element-is-computed-from-table-k-only"),
    ("ms_modern/xlsx_extractor.py", "read_xlsx", {"XlsxSheet"}, "C03/xlsx_extractor.py::read_xlsx/policy#sheet-k-element-is-computed-from-worksheet-k-only"),
    ("ms_legacy/xls_extractor.py", "read_xls", {"XlsSheet"}, "C03/xls_extractor.py::read_xls/policy#sheet-k-element-is-computed-from-worksheet-k-only"),
]


def independence_sites(repo, tier):
    C = Checks()
    for rel_, fnq, sinks, oid in INDEPENDENCE_SITES:
        rel = EX + rel_
        try:
            m = loader.module(rel, repo)
            fn = m.functions.get(fnq)
            if fn is None:
                C.add(oid, None, f"{fnq} missing")
                continue
            v, detail, line = element_independence(m, fn, sinks)
            C.add(oid, v, detail, f"{rel}:{line}")
            C.fn(m, fnq)
        except Exception as e:  # noqa -- never let an exception escape (would be a false alarm)
            C.add(oid, None, f"analysis failed: {type(e).__name__}: {e}"[:200])
    return {"obligations": C.obls, "functions": C.fns}


# ------------------------------------------------ where the elements of a slide's text come from --
# Statement: "the units cover the body exactly" -- the text of a slide's unit is the text ON the slide.  In an ODF drawing page the
# speaker notes are a child <presentation:notes> of the <draw:page> that holds its own frames, so a walk that reaches the frames of
# the slide by a DESCENDANT step from the page (Element.iter, an XPath with //, a recursive helper) also reaches the notes frames.
# Policy: following the paragraph whose text is stored into title / body_text / other_text back to the page parameter, the FIRST
# navigation step away from the page is a child step (find / findall / iterfind with a plain tag, iteration over the element).
# Decided on the def-use chain of the real function; anything not followed (helpers, generators) is `unknown`.
_CHILD_STEPS = {"find", "findall", "iterfind"}
_DESC_STEPS = {"iter", "itertext", "getiterator"}


def _nav_chain(fn, expr, at, params, depth=0):
    """-> list of chains; a chain is a list of steps ('param'|'child'|'desc'|'unknown', text) and of bookkeeping steps for tuples
    put into / taken out of lists, first step first.  `at` is the node where `expr` is evaluated (reaching definitions)."""
    if depth > 16:
        return [[("unknown", "too deep")]]
    rec = lambda e, a=at: _nav_chain(fn, e, a, params, depth + 1)
    if isinstance(expr, ast.Call) and isinstance(expr.func, ast.Attribute) and expr.func.attr in _CHILD_STEPS | _DESC_STEPS:
        arg = expr.args[0] if expr.args else None
        path = arg.value if isinstance(arg, ast.Constant) and isinstance(arg.value, str) else None
        kind = "child" if expr.func.attr in _CHILD_STEPS and not (path is not None and "//" in path) else "desc"
        if expr.func.attr in _CHILD_STEPS and path is None and not isinstance(arg, (ast.Name, ast.Attribute)):
            kind = "unknown"
        return [c + [(kind, ast.unparse(expr)[:60])] for c in rec(expr.func.value)]
    if isinstance(expr, ast.Call) and dotted(expr.func) in ("list", "tuple", "iter", "sorted", "reversed") and expr.args:
        return rec(expr.args[0])
    if isinstance(expr, ast.Name):
        defs = _reaching_defs(fn, expr.id, at)
        if not defs and expr.id in params:
            return [[("param", expr.id)]]
        out = []
        for kind, node, pos, where in defs:
            if kind == "assign":
                cs = rec(node, where)
                out += [c + [("elem", pos)] for c in cs] if pos is not None else cs
            elif kind == "iter":                  # bound by a loop / comprehension over node (component pos of the element)
                out += [c + [("elem", pos)] for c in rec(node, where)]
            elif kind == "append":                # list filled by .append(node) / .extend(node)
                out += [c + [("mk", None)] for c in rec(node, where)]
        return out or [[("unknown", f"`{expr.id}` has no definition that is understood")]]
    if isinstance(expr, ast.Tuple):
        return [c + [("tuple", i)] for i, e in enumerate(expr.elts) for c in rec(e)]
    if isinstance(expr, (ast.ListComp, ast.GeneratorExp)):
        return [c + [("mk", None)] for c in _nav_chain(fn, expr.elt, expr.elt, params, depth + 1)]
    if isinstance(expr, ast.Constant) or (isinstance(expr, ast.List) and not expr.elts):
        return []
    return [[("unknown", ast.unparse(expr)[:60])]]


_PARENTS = {}


def _parents_of(fn):
    key = id(fn)
    if key not in _PARENTS or _PARENTS[key][0] is not fn:
        par = {}
        for n in ast.walk(fn):
            for c in ast.iter_child_nodes(n):
                par[id(c)] = n
        _PARENTS[key] = (fn, par)
    return _PARENTS[key][1]


def _binds(target, name):
    """position of `name` in a loop / assignment target: None (the whole value), (i, n) (component), or False"""
    if isinstance(target, ast.Name):
        return None if target.id == name else False
    if isinstance(target, (ast.Tuple, ast.List)):
        for i, x in enumerate(target.elts):
            if isinstance(x, ast.Name) and x.id == name:
                return (i, len(target.elts))
    return False


def _reaching_defs(fn, name, at):
    """definitions of a local that reach the use at node `at`: the innermost enclosing loop / comprehension that binds it, else the
    assignments and list-filling calls textually in front of the use.  -> [(kind, expr, component, node where expr is evaluated)]"""
    par = _parents_of(fn)
    x, prev = at, None
    while id(x) in par:
        prev, x = x, par[id(x)]
        if isinstance(x, (ast.For, ast.AsyncFor)) and prev is not x.iter and _binds(x.target, name) is not False:
            return [("iter", x.iter, _binds(x.target, name), x)]
        if isinstance(x, (ast.ListComp, ast.GeneratorExp, ast.SetComp, ast.DictComp)):
            for g in x.generators:
                if _binds(g.target, name) is not False and prev is not g:
                    return [("iter", g.iter, _binds(g.target, name), x)]
    line = getattr(at, "lineno", 10 ** 9)
    out = []
    for n in ast.walk(fn):
        if getattr(n, "lineno", 10 ** 9) > line:
            continue
        if isinstance(n, (ast.Assign, ast.AnnAssign)) and getattr(n, "value", None) is not None and n.lineno < line:
            for t in (n.targets if isinstance(n, ast.Assign) else [n.target]):
                b = _binds(t, name)
                if b is not False:
                    out.append(("assign", n.value, b, n))
        elif isinstance(n, ast.Call) and isinstance(n.func, ast.Attribute) and isinstance(n.func.value, ast.Name) and n.func.value.id == name \
                and n.func.attr in ("append", "extend", "add", "insert") and n.args and n.lineno < line:
            out.append(("append", n.args[-1], None, n))
    return out


def _simplify_chain(chain):
    """cancel tuple construction against tuple unpacking: [.., ('tuple', i), ('mk'), ('elem', (j, n))] keeps the chain iff i == j"""
    out = []
    for st in chain:
        if st[0] == "elem" and st[1] is not None and len(out) >= 2 and out[-1][0] == "mk" and out[-2][0] == "tuple":
            i = out[-2][1]
            out = out[:-2]
            if i != st[1][0]:
                return None                   # another component of the tuple: not the element followed
            continue
        if st[0] == "elem" and st[1] is None and out and out[-1][0] == "mk":
            out = out[:-1]
            continue
        out.append(st)
    return out


def slide_text_navigation(repo, tier):
    C = Checks()
    rel = EX + "open_office/odp_extractor.py"
    oid = "C03/odp_extractor.py::_extract_slide/policy#slide-text-is-taken-from-the-page's-own-frames-not-from-its-notes-page"
    try:
        m = loader.module(rel, repo)
        cands = [(q, f) for q, f in m.functions.items() if len(f.args.args) >= 2 and
                 {"body_text", "other_text"} <= {n.attr for n in ast.walk(f) if isinstance(n, ast.Attribute)} and "notes" in {n.attr for n in ast.walk(f) if isinstance(n, ast.Attribute)}]
        if len(cands) != 1:
            C.add(oid, None, f"{len(cands)} functions store slide text")
            return {"obligations": C.obls, "functions": C.fns}
        q, fn = cands[0]
        params = {a.arg for a in fn.args.args + fn.args.kwonlyargs}
        stores = []
        for lp in ast.walk(fn):
            if isinstance(lp, ast.For):
                own = [n for s in lp.body for n in _own_walk(s) if not isinstance(n, ast.For)]
                direct = [n for s in lp.body for n in _own_walk(s)]
                inner_for = [n for n in direct if isinstance(n, ast.For)]
                in_inner = {id(x) for f2 in inner_for for x in ast.walk(f2)}
                for n in direct:
                    if id(n) in in_inner:
                        continue
                    if (isinstance(n, ast.Call) and isinstance(n.func, ast.Attribute) and n.func.attr in ("append", "extend") and
                            isinstance(n.func.value, ast.Attribute) and n.func.value.attr in ("body_text", "other_text")) or \
                            (isinstance(n, ast.Assign) and any(isinstance(t, ast.Attribute) and t.attr == "title" for t in n.targets)):
                        stores.append((lp, n))
        if not stores:
            C.add(oid, None, "no loop stores into title / body_text / other_text")
            return {"obligations": C.obls, "functions": C.fns}
        verdict, details = True, []
        for lp in {id(l): l for l, _n in stores}.values():
            chains = [_simplify_chain(c) for c in _nav_chain(fn, lp.iter, lp, params)]
            chains = [c for c in chains if c is not None]
            if not chains:
                verdict = None
                details.append(f"line {lp.lineno}: origin of {ast.unparse(lp.iter)[:40]} not found")
                continue
            for c in chains:
                steps = [s for s in c if s[0] in ("child", "desc", "unknown", "param")]
                txt = " / ".join(s[1] if isinstance(s[1], str) else str(s[1]) for s in steps)
                if not steps or steps[0][0] != "param" or any(s[0] in ("mk", "tuple") or (s[0] == "elem" and s[1] is not None) for s in c):
                    verdict = None if verdict is not False else verdict
                    details.append(f"line {lp.lineno}: walk not followed back to a parameter: {txt}")
                elif len(steps) < 2 or steps[1][0] == "unknown":
                    verdict = None if verdict is not False else verdict
                    details.append(f"line {lp.lineno}: first step from `{steps[0][1]}` not understood: {txt}")
                elif steps[1][0] == "desc":
                    verdict = False
                    details.append(f"line {lp.lineno}: the first step from `{steps[0][1]}` is a descendant walk ({steps[1][1]}): it also reaches the frames of <presentation:notes>")
                else:
                    details.append(f"line {lp.lineno}: {txt}")
        C.add(oid, verdict, "; ".join(details)[:600], f"{rel}:{fn.lineno}")
        C.fn(m, q)
    except Exception as e:  # noqa
        C.add(oid, None, f"analysis failed: {type(e).__name__}: {e}"[:200])
    return {"obligations": C.obls, "functions": C.fns}
