"""Self-test of the C10 pack: hand-made breaking edits must be caught (./check exit 1), harmless edits must verify (exit 0).
usage: python3 tools/selftest_C10.py [BASE]   BASE = tree in which `./check C10` exits 0 (default $VERIF_REPO or /repo)."""
import os
import shutil
import subprocess
import sys

ROOT = os.path.dirname(os.path.dirname(os.path.abspath(__file__)))
BASE = sys.argv[1] if len(sys.argv) > 1 else os.environ.get("VERIF_REPO", "/repo")
A = "sharepoint2text/parsing/extractors/archive_extractor.py"
S7 = "sharepoint2text/parsing/extractors/util/sevenzip.py"
BREAKING = {
    "number-mask": (S7, "value |= (first_byte & (mask - 1)) << (i * 8)", "value |= (first_byte & mask) << (i * 8)"),
    "folder-cursor-off-by-one": (S7, "if file_in_folder >= self._folders[folder_idx].num_streams:", "if file_in_folder > self._folders[folder_idx].num_streams:"),
    "member-offset": (S7, "            offset += file_info.uncompressed\n", "            offset += file_info.uncompressed + 1\n"),
    "zip-name-basename-swapped": (A, "                    yield from _process_archive_entry(\n                        filename, file_data, archive_path, basename\n                    )\n\n                except NotImplementedError",
                                  "                    yield from _process_archive_entry(\n                        basename, file_data, archive_path, filename\n                    )\n\n                except NotImplementedError"),
    "member-path-separator": (A, 'full_path = f"{archive_path}!/{filename}" if archive_path else filename', 'full_path = f"{archive_path}/{filename}" if archive_path else filename'),
    "tar-mode": (A, "file_like, path, f\"r:{archive_type.split('.')[-1]}\"", "file_like, path, f\"r:{archive_type}\""),
    "pack-digests-skip-undefined": (S7, "            defined = self._read_boolean_vector(num_pack_streams, check_defined=True)\n            for is_defined in defined:\n                if is_defined:\n                    self._read_uint32()",
                                    "            defined = self._read_boolean_vector(num_pack_streams, check_defined=True)\n            for is_defined in defined:\n                self._read_uint32()"),
    "bitvector-lsb-first": (S7, "                mask = 0x80\n", "                mask = 0x01\n"),
    "tar-stop-after-failed-member": (A, "                    logger.warning(\"Failed to extract %s from TAR: %s\", filename, e)", "                    break"),
}
HARMLESS = {
    "rename-local-offset": (S7, [("        offset = 0\n\n        for file_idx in self._folder_to_files[folder_idx]:", "        cursor = 0\n\n        for file_idx in self._folder_to_files[folder_idx]:"),
                                 ("if offset + file_info.uncompressed > len(decompressed):", "if cursor + file_info.uncompressed > len(decompressed):"),
                                 ("file_data = decompressed[offset : offset + file_info.uncompressed]", "file_data = decompressed[cursor : cursor + file_info.uncompressed]"),
                                 ("            offset += file_info.uncompressed\n", "            cursor += file_info.uncompressed\n")]),
    "reorder-independent-statements": (A, [("        extractor = _get_file_extractor_cached(basename)\n\n        # Create BytesIO with optimal buffer size\n        file_bytes = io.BytesIO(file_data)\n",
                                            "        file_bytes = io.BytesIO(file_data)\n\n        extractor = _get_file_extractor_cached(basename)\n")]),
    "rename-worklist-in-zip-loop": (A, [("ZIPFN", "files_to_process", "selected_members")]),
}


def run(name, rel, edits):
    d = f"/tmp/c10_selftest/{name}"
    shutil.rmtree(d, ignore_errors=True)
    os.makedirs(d)
    shutil.copytree(os.path.join(BASE, "sharepoint2text"), os.path.join(d, "sharepoint2text"))
    p = os.path.join(d, rel)
    s = open(p).read()
    for e in edits:
        if len(e) == 3:      # rename inside _extract_from_zip_optimized only
            i, j = s.index("def _extract_from_zip_optimized"), s.index("def _extract_from_tar_optimized")
            assert e[1] in s[i:j]
            s = s[:i] + s[i:j].replace(e[1], e[2]) + s[j:]
            continue
        old, new = e
        assert old in s, f"{name}: pattern not found: {old[:50]!r}"
        s = s.replace(old, new)
    open(p, "w").write(s)
    r = subprocess.run(["./check", "C10"], cwd=ROOT, env=dict(os.environ, VERIF_REPO=d), capture_output=True, text=True)
    lines = [l for l in r.stdout.splitlines() if l.startswith(("VIOLATION", "UNDECIDED", "ENGINE", "MISSING"))]
    return r.returncode, lines


ok = True
for name, (rel, old, new) in BREAKING.items():
    code, lines = run(name, rel, [(old, new)])
    good = code == 1
    ok &= good
    print(f"breaking  {name:32s} exit={code} {'CAUGHT' if good else 'NOT CAUGHT'}  {lines[0][:150] if lines else ''}", flush=True)
for name, (rel, edits) in HARMLESS.items():
    code, lines = run(name, rel, edits)
    good = code == 0
    ok &= good
    print(f"harmless  {name:32s} exit={code} {'verifies' if good else 'FALSE ALARM'}  {lines[0][:150] if lines else ''}", flush=True)
sys.exit(0 if ok else 1)
