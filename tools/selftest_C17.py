"""Self-test of the C17 pack: breaking and harmless edits on copies of the FIXED tree.

python3 tools/selftest_C17.py [name-substring ...]
Builds the fixed tree in a scratch git worktree of /repo (HEAD + proposed_fixes/C17.diff), copies it per edit,
runs ./check C17 with VERIF_REPO pointing at the copy and prints exit code + verdict lines.
Expected: B* exit 1 (VIOLATION), H* exit 0.
"""
import os, shutil, subprocess, sys
ROOT = os.path.dirname(os.path.dirname(os.path.abspath(__file__)))
BASE = "/tmp/c17_selftest_repo"
WORK = "/tmp/c17_selftest"
H = "sharepoint2text/parsing/extractors/html_extractor.py"
E = "sharepoint2text/parsing/extractors/epub_extractor.py"
M = "sharepoint2text/parsing/extractors/mail/msg_email_extractor.py"
MH = "sharepoint2text/parsing/extractors/mhtml_extractor.py"
MUTS = {
 "B1_html_end_counts_every_tag": (H, [("""        if self.skip_depth > 0:
            if tag == self._skip_tag:
                self.skip_depth -= 1
            return
""", """        if self.skip_depth > 0:
            self.skip_depth -= 1
            return
""")]),
 "B2_epub_void_embed_opens_region": (E, [("""            if tag not in _VOID_REMOVE_TAGS:
                self._skip_tag = tag
                self.skip_depth = 1
""", """            self._skip_tag = tag
            self.skip_depth = 1
""")]),
 "B3_html_data_leaks_at_depth_1": (H, [("""    def handle_data(self, data: str):
        if self.skip_depth > 0:
            return
""", """    def handle_data(self, data: str):
        if self.skip_depth > 1:
            return
""")]),
 "B4_html_comment_stored": (H, [("""        # Ignore comments
        pass
""", """        self.stack[-1]["text"] += data
""")]),
 "B5_epub_applet_not_removed": (E, [('REMOVE_TAGS = {"script", "style", "noscript", "iframe", "object", "embed", "applet"}',
                                     'REMOVE_TAGS = {"script", "style", "noscript", "iframe", "object", "embed"}')]),
 "B6_html_visible_tail_text_dropped": (H, [("""            self.last_closed["tail"] += data
""", """            pass
""")]),
 "B7_html_start_counts_any_removable": (H, [("""            if tag == self._skip_tag:
                self.skip_depth += 1
            return
""", """            if tag in REMOVE_TAGS:
                self.skip_depth += 1
            return
""")]),
 "B8_epub_hidden_start_emits_newline": (E, [("""        if self.skip_depth > 0:
            # Only a nested element of the removed tag itself needs another
            # end tag; void, unclosed or mis-nested children must not count.
            if tag == self._skip_tag:
                self.skip_depth += 1
            return
""", """        if self.skip_depth > 0:
            if tag == self._skip_tag:
                self.skip_depth += 1
            if tag in BLOCK_TAGS:
                self.text_parts.append("\\n")
            return
""")]),
 "B9_epub_data_in_cell_lost": (E, [("""        if self._in_cell:
            self._current_cell.append(data)
            return
""", """        if self._in_cell:
            return
""")]),
 "B10_html_remembers_tag_only_first_time": (H, [("""                self._skip_tag = tag
                self.skip_depth = 1
""", """                if self._skip_tag is None:
                    self._skip_tag = tag
                self.skip_depth = 1
""")]),
 "B16_msg_never_feeds_the_builder": (M, [("""        parser.feed(html_text)
""", "")]),
 "H1_html_rename_local_reorder": (H, [("""        attrs_dict = {k: v for k, v in attrs if v is not None}

        node = {"tag": tag, "attrs": attrs_dict, "children": [], "text": "", "tail": ""}

        if self.skip_depth > 0:""", """        if self.skip_depth > 0:"""),
   ("""        # Clear last_closed since we're starting a new element
        self.last_closed = None

        # Add to parent's children
        self.stack[-1]["children"].append(node)
        # Push onto stack (for non-void elements)
        if tag not in _VOID_TAGS:
            self.stack.append(node)
        else:
            # For void elements, they become the "last closed" element
            self.last_closed = node
""", """        attributes = {k: v for k, v in attrs if v is not None}
        new_node = {"tag": tag, "attrs": attributes, "children": [], "text": "", "tail": ""}
        parent = self.stack[-1]
        parent["children"].append(new_node)
        self.last_closed = None
        if tag in _VOID_TAGS:
            self.last_closed = new_node
        else:
            self.stack.append(new_node)
""")]),
 "H2_epub_rename_reorder": (E, [("""            self._current_table = []
            self._in_table = False
            return
""", """            self._in_table = False
            self._current_table = []
            return
"""), ("""                cell_text = " ".join(self._current_cell).strip()
                cell_text = self._normalize_ws(cell_text)
                self._current_row.append(cell_text)
""", """                joined = " ".join(self._current_cell).strip()
                self._current_row.append(self._normalize_ws(joined))
""")]),
 "H3_html_data_explicit_concat_and_reset_tag": (H, [("""            self.last_closed["tail"] += data
""", """            target = self.last_closed
            target["tail"] = target["tail"] + data
"""), ("""            if tag == self._skip_tag:
                self.skip_depth -= 1
            return
""", """            if tag == self._skip_tag:
                self.skip_depth -= 1
                if self.skip_depth == 0:
                    self._skip_tag = None
            return
""")]),
 # ---- round 2: tokeniser configuration, parser input, MSG routing
 "B11_html_prestrips_comments_by_regex": (H, [("""            parser = _HtmlTreeBuilder()
            parser.feed(html_text)
""", """            parser = _HtmlTreeBuilder()
            html_text = re.sub(r"<!--.*?-->", "", html_text)
            parser.feed(html_text)
""")]),
 "B12_epub_drops_noscript_tags_textually": (E, [("""    parser = _XhtmlTextExtractor()
    try:
        parser.feed(content)
""", """    parser = _XhtmlTextExtractor()
    content = content.replace("<noscript>", "").replace("</noscript>", "")
    try:
        parser.feed(content)
""")]),
 "B13_msg_large_bodies_bypass_the_converter": (M, [("""        if _looks_like_html(raw_body):
""", """        if _looks_like_html(raw_body) and len(raw_body) < 50000:
""")]),
 "B14_html_rawtext_mode_for_iframe": (H, [("""    def __init__(self):
        super().__init__(convert_charrefs=True)
        # Root node
""", """    def __init__(self):
        super().__init__(convert_charrefs=True)
        self.CDATA_CONTENT_ELEMENTS = ("script", "style", "iframe")
        # Root node
""")]),
 "B15_msg_hint_searched_in_first_line_only": (M, [("""    return _HTML_HINT_RE.search(text) is not None
""", """    return _HTML_HINT_RE.search(text.split("\\n", 1)[0]) is not None
""")]),
 "H4_msg_sniffer_renamed_reordered": (M, [("""    lowered = text.lstrip().lower()
    if lowered.startswith("<!doctype") or "<html" in lowered or "<body" in lowered:
        return True
    return _HTML_HINT_RE.search(text) is not None
""", """    if _HTML_HINT_RE.search(text) is not None:
        return True
    low = text.lstrip().lower()
    return "<body" in low or "<html" in low or low.startswith("<!doctype")
""")]),
 "H5_mhtml_rename_buffer": (MH, [("""        html_buffer = io.BytesIO(html_content)
        for result in read_html(html_buffer, path=path):
""", """        part = io.BytesIO(html_content)
        for result in read_html(part, path=path):
""")]),
 # ---- round 3: ordinary refactorings that must keep verifying
 "H6_html_attrs_through_dict_of_generator": (H, [("""        attrs_dict = {k: v for k, v in attrs if v is not None}
""", """        attrs_dict = dict((k, v) for k, v in attrs if v is not None)
""")]),
 "H7_msg_routing_as_conditional_expression": (M, [("""        if _looks_like_html(raw_body):
            body_plain = _html_to_text(raw_body)
            body_html = raw_body
        else:
            body_plain = raw_body
            body_html = ""
""", """        is_html = _looks_like_html(raw_body)
        body_plain = _html_to_text(raw_body) if is_html else raw_body
        body_html = raw_body if is_html else ""
""")]),
 "H8_html_data_ignores_empty_datum": (H, [("""    def handle_data(self, data: str):
        if self.skip_depth > 0:
            return
""", """    def handle_data(self, data: str):
        if self.skip_depth > 0 or not data:
            return
""")]),
 "H9_read_html_helpers_and_yield_from": (H, [("""        try:
            html_text = content.decode(encoding, errors="replace")
        except (UnicodeDecodeError, LookupError):
            html_text = content.decode("utf-8", errors="replace")
""", """        html_text = _decode_html(content, encoding)
"""), ("""def read_html(
""", """def _decode_html(raw: bytes, codec: str) -> str:
    try:
        return raw.decode(codec, errors="replace")
    except (UnicodeDecodeError, LookupError):
        return raw.decode("utf-8", errors="replace")


def read_html(
""")]),
 "H10_epub_chapter_parser_in_helper": (E, [("""    parser = _XhtmlTextExtractor()
    try:
        parser.feed(content)
    except Exception as e:
        logger.debug("Failed to parse content document %s: %s", href, e)
        return None, image_counter, []
""", """    parser = _parse_xhtml(content)
    if parser is None:
        logger.debug("Failed to parse content document %s", href)
        return None, image_counter, []
"""), ("""def _extract_chapter(
""", """def _parse_xhtml(markup: str):
    extractor = _XhtmlTextExtractor()
    try:
        extractor.feed(markup)
    except Exception:
        return None
    return extractor


def _extract_chapter(
""")]),
 "H11_epub_end_counter_with_max": (E, [("""            if tag == self._skip_tag:
                self.skip_depth -= 1
            return
""", """            if tag == self._skip_tag:
                self.skip_depth = max(self.skip_depth - 1, 0)
            return
""")]),
 "H12_html_fields_renamed": (H, [("skip_depth", "_skip_level"), ("last_closed", "_last_closed_node"), ("self.stack", "self._open_nodes")]),
 "H13_html_tables_rewritten_and_renamed": (H, [('REMOVE_TAGS = {"script", "style", "noscript", "iframe", "object", "embed", "applet"}',
                                                 'REMOVE_TAGS = {"script", "style"} | {"noscript", "iframe", "object", "embed", "applet"}'),
                                                ("_VOID_TAGS", "_VOID_ELEMENTS")]),
 "H14_epub_get_text_joins_a_generator": (E, [('text = "".join(self.text_parts)', 'text = "".join(part for part in self.text_parts)')]),
 "H15_default_charref_conversion": (H, [("""        super().__init__(convert_charrefs=True)
        # Root node""", """        super().__init__()
        # Root node""")]),
 # ---- round 3b: import / alias styles and further ordinary rewrites
 "H16_html_library_import_as_alias": (H, [("from html.parser import HTMLParser\n", "import html.parser as _hp\n\n_ParserBase = _hp.HTMLParser\n"),
                                          ("class _HtmlTreeBuilder(HTMLParser):", "class _HtmlTreeBuilder(_ParserBase):")]),
 "H17_relative_imports": (MH, [("from sharepoint2text.parsing.extractors.html_extractor import read_html\n", "from .html_extractor import read_html\n")]),
 "H18_msg_module_alias_import": (M, [("""from sharepoint2text.parsing.extractors.html_extractor import (
    _HtmlTextExtractor,
    _HtmlTreeBuilder,
)
""", """import sharepoint2text.parsing.extractors.html_extractor as _hx
"""), ("parser = _HtmlTreeBuilder()", "parser = _hx._HtmlTreeBuilder()"), ("extractor = _HtmlTextExtractor(root)", "extractor = _hx._HtmlTextExtractor(root)")]),
 "H19_html_truthiness_index_extend": (H, [("""        if self.skip_depth > 0:
            if tag == self._skip_tag:
                self.skip_depth -= 1
            return
""", """        if self.skip_depth:
            if tag == self._skip_tag:
                self.skip_depth -= 1
            return
"""), ("""        self.stack[-1]["children"].append(node)
""", """        parent = self.stack[len(self.stack) - 1]
        parent["children"] += [node]
""")]),
 "H20_epub_data_sink_chosen_by_expression": (E, [("""        if self._in_cell:
            self._current_cell.append(data)
            return

        self.text_parts.append(data)
""", """        sink = self._current_cell if self._in_cell else self.text_parts
        sink.append(data)
""")]),
 "H21_msg_sniffer_tuple_and_any": (M, [("""    if lowered.startswith("<!doctype") or "<html" in lowered or "<body" in lowered:
        return True
""", """    if lowered.startswith(("<!doctype",)) or any(mark in lowered for mark in ("<html", "<body")):
        return True
""")]),
 "H22_mhtml_buffer_filled_by_write": (MH, [("""        html_buffer = io.BytesIO(html_content)
""", """        html_buffer = io.BytesIO()
        html_buffer.write(html_content)
        html_buffer.seek(0)
""")]),
 "B17_mhtml_yields_its_own_rendering": (MH, [("""            yield result
""", """            result.content = html_content.decode("utf-8", "replace")
            yield result
""")]),
}

subprocess.run(["git", "-C", "/repo", "worktree", "remove", "--force", BASE], capture_output=True)
subprocess.run(["git", "-C", "/repo", "worktree", "add", "-q", "--detach", BASE, "HEAD"], check=True)
for fix in ("C17.diff", "C17_2.diff"):      # proposed fixes that are not in /repo yet
    d_ = os.path.join(ROOT, "proposed_fixes", fix)
    if os.path.exists(d_) and subprocess.run(["git", "-C", BASE, "apply", "--check", d_], capture_output=True).returncode == 0:
        subprocess.run(["git", "-C", BASE, "apply", d_], check=True)
shutil.rmtree(WORK, ignore_errors=True)
expect = {"B": 1, "U": 2, "H": 0}
bad = 0
try:
    only = sys.argv[1:]
    for name, (rel, edits) in MUTS.items():
        if only and not any(o in name for o in only):
            continue
        d = f"{WORK}/{name}"
        shutil.rmtree(d, ignore_errors=True)
        os.makedirs(d)
        shutil.copytree(f"{BASE}/sharepoint2text", f"{d}/sharepoint2text", ignore=shutil.ignore_patterns("__pycache__", "tests"))
        shutil.copy(f"{BASE}/README.md", d)
        os.makedirs(f"{d}/sharepoint2text/tests/resources/mails", exist_ok=True)      # fixture of the MSG routing replay
        shutil.copy(f"{BASE}/sharepoint2text/tests/resources/mails/basic_email.msg", f"{d}/sharepoint2text/tests/resources/mails/")
        p = f"{d}/{rel}"
        s = open(p).read()
        for a, b in edits:
            assert s.count(a) == 1 or (s.count(a) > 1 and "\n" not in a and name.startswith(("H1", "H2"))), (name, a[:60], s.count(a))
            s = s.replace(a, b)
        open(p, "w").write(s)
        r = subprocess.run(["timeout", "600", "./check", "C17"], cwd=ROOT, env=dict(os.environ, VERIF_REPO=d), capture_output=True, text=True)
        lines = [l for l in r.stdout.splitlines() if l.startswith(("VIOLATION", "UNDECIDED", "ENGINE", "MISSING"))]
        ok = r.returncode == expect[name[0]]
        bad += 0 if ok else 1
        print(f"== {name}: exit={r.returncode} {'as expected' if ok else 'UNEXPECTED (want %d)' % expect[name[0]]}")
        for l in lines:
            print("    " + l.split("obligation=")[-1][:200] + ("   [NO-INPUT]" if "no-failing-input-found" in l else "   [replayed]" if l.startswith("VIOLATION") else ""))
        print("    " + r.stdout.strip().splitlines()[-1] if r.stdout.strip() else r.stderr[-500:])
finally:
    subprocess.run(["git", "-C", "/repo", "worktree", "remove", "--force", BASE], capture_output=True)
    shutil.rmtree(WORK, ignore_errors=True)
sys.exit(1 if bad else 0)
