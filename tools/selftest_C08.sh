#!/bin/bash
# tools/selftest_C08.sh -- hand-made edits on a scratch copy of the package (VERIF_REPO=/tmp/c08_copy):
# breaking edits must give exit 1, harmless edits exit 0.  Prints one line per edit and a summary.
cd "$(dirname "$0")/.."
E=sharepoint2text/parsing/extractors
COPY=${C08_COPY:-/tmp/c08_copy}
pass=0; failn=0
one() {   # name expected-exit file python-expression-on-s
  rm -rf "$COPY/sharepoint2text"; mkdir -p "$COPY"; cp -r /repo/sharepoint2text "$COPY/"
  python3-vt - "$COPY/$3" "$4" <<'PY' || { echo "EDIT-FAILED $1"; failn=$((failn+1)); return; }
import sys
p = sys.argv[1]; s = open(p).read(); s2 = eval(sys.argv[2])
assert s2 != s, "edit did not change the file"
open(p, "w").write(s2)
PY
  VERIF_REPO="$COPY" timeout 1200 ./check C08 >/tmp/c08_selftest.out 2>&1; code=$?
  if [ "$code" = "$2" ]; then pass=$((pass+1)); r=ok; else failn=$((failn+1)); r=UNEXPECTED; fi
  echo "$r exit=$code expected=$2 :: $1 :: $(grep -c '^VIOLATION' /tmp/c08_selftest.out) violation line(s)"
}
one "M1 FILEPASS id constant 0x002F->0x002E" 1 $E/util/encryption.py 's.replace("record_id == 0x002F", "record_id == 0x002E")'
one "M2 docx: detector check moved after the yield" 1 $E/ms_modern/docx_extractor.py 's.replace("        if is_ooxml_encrypted(file_like):\n            raise ExtractionFileEncryptedError(", "        if False:\n            raise ExtractionFileEncryptedError(", 1).replace("                full_text=full_text,\n            )\n", "                full_text=full_text,\n            )\n            if is_ooxml_encrypted(file_like):\n                raise ExtractionFileEncryptedError(\"late\")\n", 1)'
one "M3 DOC flag mask 0x0100->0x0200" 1 $E/ms_legacy/doc_extractor.py 's.replace("FIB_ENCRYPTED_FLAG = 0x0100", "FIB_ENCRYPTED_FLAG = 0x0200")'
one "M4 ZIP flag check skipped for the first member" 1 $E/archive_extractor.py 's.replace("if info.flag_bits & 0x1:", "if info.flag_bits & 0x1 and info is not zf.infolist()[0]:")'
one "M5 odt: encrypted error wrapped (except ExtractionError: raise removed)" 1 $E/open_office/odt_extractor.py 's.replace("    except ExtractionError:\n        raise\n", "", 1)'
one "M6 7z: needs_password checked after extractall" 1 $E/archive_extractor.py 's.replace("            if szf.needs_password():\n                raise ExtractionFileEncryptedError(\n                    \"Encrypted/password-protected 7z archives are not supported\"\n                )\n", "", 1).replace("                # Process files sequentially (no parallel processing)\n", "                if szf.needs_password():\n                    raise ExtractionFileEncryptedError(\"late\")\n", 1)'
one "M7 7z AES prefix constant changed" 1 $E/util/sevenzip.py 's.replace("CODER_AES_PREFIX = b\"\\x06\\xf1\\x07\"", "CODER_AES_PREFIX = b\"\\x06\\xf1\\x08\"")'
one "M8 pdf: decrypt_result == 0 -> == 2" 1 $E/pdf/pdf_extractor.py 's.replace("if decrypt_result == 0:", "if decrypt_result == 2:")'
one "M9 ppt: EncryptedSummary check dropped" 1 $E/util/encryption.py 's.replace("encrypted = ole.exists(\"EncryptedSummary\") or ole.exists(\n            \"EncryptedSummaryInformation\"\n        )", "encrypted = ole.exists(\"EncryptedSummaryInformation\")")'
one "H1 xls: rename locals, swap two independent reads" 0 $E/util/encryption.py 's.replace("offset", "pos").replace("record_len", "rlen").replace("        record_id = int.from_bytes(data[pos : pos + 2], \"little\")\n        rlen = int.from_bytes(data[pos + 2 : pos + 4], \"little\")\n", "        rlen = int.from_bytes(data[pos + 2 : pos + 4], \"little\")\n        record_id = int.from_bytes(data[pos : pos + 2], \"little\")\n")'
one "H2 zip: rename files_to_process, extra independent statement" 0 $E/archive_extractor.py 's.replace("files_to_process", "todo").replace("                filename = info.filename\n                basename = os.path.basename(filename)\n", "                filename = info.filename\n                unused_marker = 0\n                basename = os.path.basename(filename)\n", 1)'
one "H3 docx: detector moved later but still before the yield" 0 $E/ms_modern/docx_extractor.py 's.replace("        if is_ooxml_encrypted(file_like):\n            raise ExtractionFileEncryptedError(", "        if False:\n            raise ExtractionFileEncryptedError(", 1).replace("            yield DocxContent(", "            if is_ooxml_encrypted(file_like):\n                raise ExtractionFileEncryptedError(\"DOCX is encrypted\")\n            yield DocxContent(", 1)'
rm -rf "$COPY/sharepoint2text"
echo "selftest C08: $pass as expected, $failn unexpected"
[ "$failn" = 0 ]
