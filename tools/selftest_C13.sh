#!/bin/bash
# Self-test of the C13 pack: hand-made breaking edits on a scratch copy must be caught (exit 1), harmless edits must
# still verify (exit 0).  usage: tools/selftest_C13.sh [case ...]   (scratch copies under /tmp/c13_self_<case>)
cd "$(dirname "$0")/.."
E=sharepoint2text/parsing/extractors
declare -A FILE OLD NEW WANT
add() { FILE[$1]=$2; OLD[$1]=$3; NEW[$1]=$4; WANT[$1]=$5; }
add B1_getdim_default   $E/data_types.py 'columns = max((len(row) for row in self.data), default=0)' 'columns = max((len(row) for row in self.data), default=1)' 1
add B2_pptx_skip_empty  $E/ms_modern/pptx_extractor.py '            row_data.append(cell_text)' '            if cell_text:\n                row_data.append(cell_text)' 1
add B3_docx_rows_iter   $E/ms_modern/docx_extractor.py 'for tr in tbl.findall(W_TR):' 'for tr in tbl.iter(W_TR):' 1
add B4_odt_drop_cell    $E/open_office/odt_extractor.py '            for cell in row.findall(_TABLE_CELL_TAG):\n                cell_texts' '            for cell in row.findall(_TABLE_CELL_TAG)[1:]:\n                cell_texts' 1
add B5_xlsx_iso         $E/ms_modern/xlsx_extractor.py '        return cell_value.isoformat()' '        return str(cell_value)' 1
add B6_html_th          $E/html_extractor.py 'if child.get("tag") in ("th", "td"):' 'if child.get("tag") in ("td",):' 1
add B7_iter_skip_slide  $E/data_types.py '        for slide in self.slides:\n            for table in slide.tables:\n                yield TableData(data=table)' '        for slide in self.slides[1:]:\n            for table in slide.tables:\n                yield TableData(data=table)' 1
add B8_xls_bool         $E/ms_legacy/xls_extractor.py '        return bool(value), text' '        return value, text' 1
add H1_pptx_rename      $E/ms_modern/pptx_extractor.py 'RENAME' 'RENAME' 0
add H2_xls_reorder      $E/ms_legacy/xls_extractor.py '    """Compute both native and string values for a cell in one pass."""\n    ctype = cell.ctype\n    value = cell.value' '    """Compute both native and string values for a cell in one pass."""\n    value = cell.value\n    ctype = cell.ctype' 0
add H3_docx_reorder     $E/ms_modern/docx_extractor.py '            tables.append(table_data)\n            table_anchor_paragraph_indices.append(anchor)' '            table_anchor_paragraph_indices.append(anchor)\n            tables.append(table_data)' 0
cases=("$@"); [ ${#cases[@]} -eq 0 ] && cases=(B1_getdim_default B2_pptx_skip_empty B3_docx_rows_iter B4_odt_drop_cell B5_xlsx_iso B6_html_th B7_iter_skip_slide B8_xls_bool H1_pptx_rename H2_xls_reorder H3_docx_reorder)
fail=0
for c in "${cases[@]}"; do
  d=/tmp/c13_self_$c; rm -rf $d; mkdir -p $d; cp -r ${VERIF_BASE:-/repo}/sharepoint2text $d/
  python3 - "$d/${FILE[$c]}" "${OLD[$c]}" "${NEW[$c]}" <<'PY' || { echo "$c: edit failed"; fail=1; continue; }
import re, sys
p, old, new = sys.argv[1], sys.argv[2].encode().decode("unicode_escape"), sys.argv[3].encode().decode("unicode_escape")
s = open(p).read()
if old == "RENAME":      # rename the locals of the pptx table walker
    a = s.index("def _extract_table_from_graphic_frame"); b = s.index("\ndef ", a + 10)
    body = s[a:b]
    for x, y in (("row_data", "cells_of_row"), ("table_data", "grid"), ("tx_body", "body_el"), ("cell_text", "txt"), (" tc ", " cell_el "), ("tc.find", "cell_el.find")):
        body = body.replace(x, y)
    s = s[:a] + body + s[b:]
else:
    assert s.count(old) >= 1, "pattern not found"
    s = s.replace(old, new, 1)
open(p, "w").write(s)
PY
  VERIF_REPO=$d timeout 1500 ./check C13 > $d/check.out 2>&1; code=$?
  tail -1 $d/check.out | cut -c1-200
  grep "^VIOLATION\|^UNDECIDED\|^ENGINE" $d/check.out | cut -c1-220 | head -4
  if [ "$code" = "${WANT[$c]}" ]; then echo "$c: exit $code as expected"; else echo "$c: exit $code, EXPECTED ${WANT[$c]}"; fail=1; fi
  rm -rf $d/sharepoint2text
done
exit $fail
