#!/bin/sh
# tools/confirm_seed.sh <seed-dir-name>: re-confirm a seeded change in a scratch worktree of /repo:
# demo fails with the patch, passes without, and the pinned test suite still passes with the patch.
set -u
S=/verif/seeded/$1
WT=/tmp/confirm_$1
git -C /repo worktree remove --force $WT 2>/dev/null
git -C /repo worktree add -q --detach $WT HEAD || exit 3
cd $WT
/venv/bin/python $S/demo.py >/tmp/confirm_$1.pristine.log 2>&1; P=$?
git apply $S/patch.diff || { echo "patch does not apply"; cd /; git -C /repo worktree remove --force $WT; exit 3; }
/venv/bin/python $S/demo.py >/tmp/confirm_$1.patched.log 2>&1; Q=$?
/venv/bin/python -m pytest -q -p no:cacheprovider --timeout=900 sharepoint2text/tests \
  --deselect sharepoint2text/tests/test_extractions.py::test_read_doc__image_extraction_1 \
  --deselect sharepoint2text/tests/test_extractions.py::test_read_doc__image_extraction_2 \
  --deselect sharepoint2text/tests/test_integration.py::test_extract_serialize_deserialize_file 2>&1 | tail -1 > /tmp/confirm_$1.tests.log
T=$(cat /tmp/confirm_$1.tests.log)
cd /
git -C /repo worktree remove --force $WT
echo "$1 demo_pristine_exit=$P demo_patched_exit=$Q tests: $T"
python3 - "$S" "$P" "$Q" "$T" <<'PY'
import json,sys
s,p,q,t=sys.argv[1:5]
m=json.load(open(s+"/meta.json"))
m["confirmed_by_maintainer_of_verif"]={"demo_exit_pristine":int(p),"demo_exit_patched":int(q),"tests_with_patch":t,
  "command":"tools/confirm_seed.sh"}
json.dump(m,open(s+"/meta.json","w"),indent=1)
PY
rm -f /tmp/confirm_$1.*.log
