#!/bin/sh
# usage: merge_branch.sh Cxx branch
p=$1; b=$2
cd /verif
if [ -f .git/MERGE_HEAD ]; then echo "a merge is in progress: finish it first"; exit 2; fi
git merge --no-ff -m "merge $b" $b > /tmp/merge_$p.log 2>&1
if grep -qi conflict /tmp/merge_$p.log; then
  python3 tools/resolve_merge.py $p $b > /dev/null
  for f in $(git status --short | grep "^UU\|^AA" | cut -c4-); do
    case $f in
      evidence/*|seeded/*|harmless/*) git checkout --theirs -- $f ;;
      known_findings.json) python3 - <<PY
import json,subprocess
def show(n): return json.loads(subprocess.check_output(["git","show",f":{n}:known_findings.json"],text=True))
o,t=show(2),show(3)
f=[x for x in o["findings"] if x["property"]!="$p"]+[x for x in t["findings"] if x["property"]=="$p"]
fx=list(o["fixed"])+[x for x in t["fixed"] if x not in o["fixed"]]
json.dump({"findings":f,"fixed":fx},open("known_findings.json","w"),indent=1)
PY
      ;;
    esac
  done
  if grep -l "<<<<<<<\|>>>>>>>" $(git status --short | grep "^UU\|^AA" | cut -c4-) 2>/dev/null; then echo "STILL CONFLICTED"; exit 1; fi
  git add -A; git commit -qm "merge $b"
fi
git log --oneline | head -1
