"""Self-test of the C19 pack: hand-made edits of omml_to_latex.py on scratch copies of a tree on which
C19 verifies (i.e. /repo with proposed_fixes/C19.diff applied).

    python3 tools/selftest_C19.py <fixed-tree> [name-prefix ...]

B* edits break the property and must give exit 1; H* edits are harmless (rename locals, reorder
independent statements, equivalent rewrites) and must give exit 0.
"""
import os
import shutil
import subprocess
import sys

ROOT = os.path.dirname(os.path.dirname(os.path.abspath(__file__)))
REL = "sharepoint2text/parsing/extractors/util/omml_to_latex.py"
MUT = {
 "B1_frac_swapped": [('return f"\\\\frac{{{num_text}}}{{{den_text}}}"', 'return f"\\\\frac{{{den_text}}}{{{num_text}}}"')],
 "B2_text_none": [('text = elem.text or ""', 'text = elem.text')],
 "B3_sub_unclosed": [('return f"{base_text}_{{{sub_text}}}"\n', 'return f"{base_text}_{{{sub_text}"\n')],
 "B4_table_unbalanced": [('"\\u2115": "\\\\mathbb{N}"', '"\\u2115": "\\\\mathbb{N"')],
 "B5_no_final_close": [('    if pending_sqrt_close:\n        parts.append("}")\n', '')],
 "B6_pending_not_cleared": [('                outside = converted[idx + 1 :]  # Content after closing bracket\n                pending_sqrt_close = None\n', '                outside = converted[idx + 1 :]  # Content after closing bracket\n')],
 "B7_nary_sup_as_sub": [('result += f"_{{{sub_text}}}"', 'result += f"_{{{sup_text}}}"')],
 "B8_skip_operand_tag": [('        "rPr",\n', '        "rPr",\n        "e",\n')],
 "B9_d_separator": [('content_text = ", ".join(content_parts)', 'content_text = ",".join(content_parts)')],
 "B10_accent_map": [('"\\u0303": "\\\\tilde"', '"\\u0303": "\\\\hat"')],
 "B11_func_parens": [('return f"{latex_fname}{{{content_text}}}"', 'return f"{latex_fname}({content_text})"')],
 "B12_rad_swapped": [('return f"\\\\sqrt[{deg_text}]{{{content_text}}}"', 'return f"\\\\sqrt[{content_text}]{{{deg_text}}}"')],
 "B13_chr_no_default": [('chr_elem.get(f"{M_NS}val", "\\u2211")', 'chr_elem.get(f"{M_NS}val")')],
 "B14_default_drops_children": [('            if child_result:\n                result.append(child_result)\n        return "".join(result)', '            if not child_result:\n                result.append(child_result)\n        return "".join(result)')],
 "B15_index_unguarded": [('if pending_sqrt_close and pending_sqrt_close in converted:', 'if pending_sqrt_close:')],
 "B16_skip_tag_emits": [('        if tag in _SKIP_TAGS:\n            return ""', '        if tag in _SKIP_TAGS:\n            return " "')],
 "B17_none_emits": [('        if elem is None:\n            return ""', '        if elem is None:\n            return "?"')],
 "B18_recursion_on_self": [('            content = elem.find(f"{M_NS}e")\n            content_text = process_element(content)\n            return f"\\\\overline{{{content_text}}}"', '            content_text = process_element(elem)\n            return f"\\\\overline{{{content_text}}}"')],
 "B19_matrix_brace_separator": [('rows.append(" & ".join(cells))', 'rows.append(" { ".join(cells))')],
 "B20_double_close": [('    if pending_sqrt_close:\n        parts.append("}")\n', '    if pending_sqrt_close:\n        parts.append("}")\n        parts.append("}")\n')],
 "B21_two_step_lookup_wrong_parent": [('chr_elem = elem.find(f"{M_NS}accPr/{M_NS}chr")', 'chr_elem = elem.find(f"{M_NS}e/{M_NS}chr")')],
 "H1_rename_locals": [('content_text', 'body_txt'), ('child_result', 'piece'), ('parts', 'chunks'), ('deg_text', 'dtx'), ('e_elements', 'operands'), ('rows', 'lines')],
 "H2_reorder_independent": [
    ('            num = elem.find(f"{M_NS}num")\n            den = elem.find(f"{M_NS}den")\n', '            den = elem.find(f"{M_NS}den")\n            num = elem.find(f"{M_NS}num")\n'),
    ('            sub = elem.find(f"{M_NS}sub")\n            sup = elem.find(f"{M_NS}sup")\n            content = elem.find(f"{M_NS}e")\n\n            op_map = {', '            op_map_0 = {'),
    ('            latex_op = op_map.get(op, convert_greek_and_symbols(op))\n', '            content = elem.find(f"{M_NS}e")\n            sup = elem.find(f"{M_NS}sup")\n            sub = elem.find(f"{M_NS}sub")\n            latex_op = op_map_0.get(op, convert_greek_and_symbols(op))\n'),
    ('    parts: list[str] = []\n    pending_sqrt_close: str | None = None  # Bracket needed to close current sqrt\n', '    pending_sqrt_close: str | None = None  # Bracket needed to close current sqrt\n    parts: list[str] = []\n'),
 ],
 "H3_equivalent_rewrites": [
    ('            if child_result:\n                result.append(child_result)\n        return "".join(result)', '            if child_result != "":\n                result.append(child_result)\n        return "".join(result)'),
    ('            latex_fname = func_map.get(fname_text.strip(), fname_text)\n', '            key = fname_text.strip()\n            latex_fname = func_map.get(key, fname_text)\n'),
 ],
}


def main():
    src = sys.argv[1]
    want = sys.argv[2:]
    base = open(os.path.join(src, REL)).read()
    ok = True
    for name, edits in MUT.items():
        if want and not any(name.startswith(w) for w in want):
            continue
        d = os.path.join("/tmp/c19_selftest", name)
        shutil.rmtree(d, ignore_errors=True)
        shutil.copytree(os.path.join(src, "sharepoint2text"), os.path.join(d, "sharepoint2text"),
                        ignore=shutil.ignore_patterns("tests", "__pycache__"))
        s = base
        for a, b in edits:
            assert a in s, (name, a)
            s = s.replace(a, b)
        compile(s, REL, "exec")
        open(os.path.join(d, REL), "w").write(s)
        p = subprocess.run([os.path.join(ROOT, "check"), "C19"], capture_output=True, text=True, timeout=1800,
                           env=dict(os.environ, VERIF_REPO=d))
        failed = sorted({l.split("obligation=")[1].split()[0].split("::")[-1] + (" (no native input)" if "no-failing-input-found" in l else "")
                         for l in p.stdout.splitlines() if l.startswith("VIOLATION")})
        expect = 1 if name.startswith("B") else 0
        good = p.returncode == expect
        ok = ok and good
        print(f"{'ok  ' if good else 'FAIL'} {name}: exit={p.returncode} {failed}", flush=True)
        shutil.rmtree(d, ignore_errors=True)
    sys.exit(0 if ok else 1)


if __name__ == "__main__":
    main()
