"""python3-vt tools/selftest_C01.py [--cli]: unit checks of the round-4 analyses of pack C01.
(1) contracts/c01_regex.analyse against patterns with known exponential / polynomial backtracking, each verdict cross-checked
    against CPython's matcher by the bounded pumping experiment;
(2) --cli: hand-made edits of the logging set-up in cli.main on a scratch copy (/tmp/selftest_C01_tree), expected obligation status."""
import os, shutil, subprocess, sys
sys.path.insert(0, os.path.dirname(os.path.dirname(os.path.abspath(__file__))))
from contracts import c01_regex as R

EXPONENTIAL = [r'(a*)*b', r'(a+)+b', r'(?:a+)*b', r'(a|aa)+b', r'(?:a|a)*b', r'(\w+\s*)+$', r'(?:a?a?)*b', r'(?:x+x+)+y', r'(?:\s*\w+)*!',
               r'(?:a+|b)*c', r'(?:a*b?)*c', r'(?:a{1,3})*c', r'(?:aa|aaa)*c', r'^(\d+|\d+\.\d*)+$', r'(?:a|a){30}b', r'(?:\r\n|\r|\n)+x',
               rb'^From \S+(?: *[A-Za-z0-9:+-]+)* +\d{4}\r?\n']
POLYNOMIAL = [r'a*b', r'\S+.*\d{4}', r'(?:ab|a)(?:bc|c)*$', r'(?:\s+\w+)*!', r'(?:a?){25}b', r'^([a-z]+\.)*[a-z]+$', r'\{\\title\s+([^}]*)\}',
              r'(a|b)*c', r'(?:[^"\\]|\\.)*"', r'.*.*.*x', r'<[^>]+>', r'(\d{1,3}\.){3}\d{1,3}', r'\s*(?:,\s*)*x', r'(?:a(?=b))*c',
              rb'^From \S+.*\d{4}\r?\n', r'(?i)(?:A|b)+c', r'(?:\w|\d)+!', r'(?:[A-Za-z]+\s)*$']
bad = 0
for p in EXPONENTIAL:
    r = R.analyse(p, 0)
    ok = r["eda"]
    if ok:
        enc = (lambda x: x.decode("latin-1")) if isinstance(p, bytes) else (lambda x: x)
        hit = R.pump_experiment({"pattern": enc(p), "bytes": isinstance(p, bytes), "flags": 0, "modes": ["search"],
                                 "witnesses": [[enc(a), enc(b)] for a, b in r["witnesses"]]})
        ok = hit is not None and "error" not in hit
    print("exponential", "ok  " if ok else "FAIL", p)
    bad += not ok
for p in POLYNOMIAL:
    r = R.analyse(p, 0)
    print("polynomial ", "ok  " if not r["eda"] else "FAIL", p)
    bad += bool(r["eda"])

if "--cli" in sys.argv:
    WT = "/tmp/selftest_C01_tree"
    shutil.rmtree(WT, ignore_errors=True)
    os.makedirs(WT)
    shutil.copytree("/repo/sharepoint2text", WT + "/sharepoint2text", ignore=shutil.ignore_patterns("tests", "__pycache__"))
    src = open(WT + "/sharepoint2text/cli.py").read()
    OLD = "    if not logging.getLogger().handlers:\n        logging.getLogger().addHandler(logging.NullHandler())\n"
    assert OLD in src
    G = "    if not logging.getLogger().handlers:\n        logging.getLogger().addHandler(%s)\n"
    CASES = [("proved", "    root = logging.getLogger()\n    if not root.handlers:\n        root.addHandler(logging.NullHandler())\n"),
             ("proved", "    logging.root.addHandler(logging.NullHandler())\n"),
             ("proved", "    logging.disable(logging.CRITICAL)\n"),
             ("proved", "    logging.getLogger(__name__).setLevel(logging.DEBUG)\n" + OLD),
             ("proved", G % "logging.FileHandler('/tmp/x.log')"),
             ("refuted", "    logging.basicConfig()\n"),
             ("refuted", G % "logging.StreamHandler()"),
             ("refuted", "    logging.getLogger('sharepoint2text').addHandler(logging.NullHandler())\n"),
             ("refuted", "    logging.getLogger(__name__).addHandler(logging.NullHandler())\n"),
             ("refuted", ""),
             ("refuted", "    logging.warning('starting')\n"),
             ("unknown", "    logging.captureWarnings(True)\n"),
             ("unknown", "    logging.getLogger().setLevel(logging.CRITICAL)\n")]
    PRINT = '        print(f"sharepoint2text: {exc}", file=sys.stderr)\n        return 1\n'
    assert PRINT in src
    W = 'sys.stderr.write(%s)'
    CASES = [(w, OLD, n) for (w, n) in CASES] + [
        ("proved", PRINT, PRINT.replace('print(f"sharepoint2text: {exc}", file=sys.stderr)', W % 'f"sharepoint2text: {exc}\\n"')),
        ("refuted", PRINT, PRINT.replace('print(f"sharepoint2text: {exc}", file=sys.stderr)', W % 'f"sharepoint2text: error\\n{exc}\\n"')),
        ("refuted", PRINT, PRINT.replace("        return 1", "        sys.stderr.write('hint: see --help\\n')\n        return 1")),
        ("refuted", OLD, OLD + "    sys.stderr.write('sharepoint2text 1.0\\n')\n")]
    for want, old_text, new in CASES:
        open(WT + "/sharepoint2text/cli.py", "w").write(src.replace(old_text, new))
        p = subprocess.run([sys.executable, "tools/one.py", "C01", "cli.py::main"], env=dict(os.environ, VERIF_REPO=WT), capture_output=True, text=True,
                           cwd=os.path.dirname(os.path.dirname(os.path.abspath(__file__))))
        line = next((l for l in p.stdout.splitlines() if "main/ensures#" in l), "")
        got = line.split()[1] if line else "error"
        print("cli", "ok  " if got == want else "FAIL", want, got, repr(new[:70]))
        bad += got != want
    shutil.rmtree(WT, ignore_errors=True)
print("selftest_C01:", "all ok" if not bad else f"{bad} FAILED")
sys.exit(1 if bad else 0)
