"""Resolve a merge conflict in obligations.lock.json / known_findings.json: union of both sides
(for the lock: per-property entries from `theirs` are taken only for properties missing in `ours`
or explicitly named on the command line)."""
import json, subprocess, sys
props = sys.argv[1:]
def stage(n, f):
    return json.loads(subprocess.check_output(["git", "show", f":{n}:{f}"], text=True))
ours, theirs = stage(2, "obligations.lock.json"), stage(3, "obligations.lock.json")
for k, v in theirs.items():
    if k not in ours or k in props:
        ours[k] = v
json.dump(ours, open("obligations.lock.json", "w"), indent=1, sort_keys=True)
try:
    o, t = stage(2, "known_findings.json"), stage(3, "known_findings.json")
    ids = {f["id"] for f in o["findings"]}
    o["findings"] += [f for f in t["findings"] if f["id"] not in ids]
    o["fixed"] += [x for x in t.get("fixed", []) if x not in o["fixed"]]
    json.dump(o, open("known_findings.json", "w"), indent=1)
except subprocess.CalledProcessError:
    pass
