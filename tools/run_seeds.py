"""tools/run_seeds.py [Cxx ...]: apply every stored seeded change to /repo, run the property's quick check, undo, and
record the outcome in seeded/<id>/result.json (caught = exit 1 with a VIOLATION line)."""
import glob, json, os, subprocess, sys
os.chdir(os.path.dirname(os.path.dirname(os.path.abspath(__file__))))
props = sys.argv[1:]
rows = []
for d in sorted(glob.glob("seeded/C*_*")):
    sid = os.path.basename(d)
    prop = sid.split("_")[0]
    if props and prop not in props:
        continue
    if not os.path.exists(f"{d}/patch.diff") or not os.path.exists(f"contracts/{prop}.py"):
        continue
    subprocess.run(["git", "-C", "/repo", "checkout", "--", "."], check=True)
    a = subprocess.run(["git", "-C", "/repo", "apply", os.path.abspath(f"{d}/patch.diff")], capture_output=True, text=True)
    if a.returncode != 0:
        rows.append((sid, "patch-does-not-apply", []))
        continue
    try:
        p = subprocess.run(["./check", prop], capture_output=True, text=True, timeout=1800)
        vio = [l.split("obligation=")[1].split()[0] for l in p.stdout.splitlines() if l.startswith("VIOLATION") and "obligation=" in l]
        und = [l for l in p.stdout.splitlines() if l.startswith(("UNDECIDED", "ENGINE-ERROR", "MISSING"))]
        status = "caught" if p.returncode == 1 and vio else f"missed(exit={p.returncode})"
    finally:
        subprocess.run(["git", "-C", "/repo", "checkout", "--", "."], check=True)
    json.dump({"seed": sid, "property": prop, "status": status, "violated_obligations": vio, "other_lines": und[:5]}, open(f"{d}/result.json", "w"), indent=1)
    rows.append((sid, status, vio[:2]))
    print(sid, status, vio[:2], und[:1], flush=True)
