"""tools/run_seeds.py [--harmless] [-j N] [Cxx | Cxx_k | Cxx_k+ ...] (Cxx_k+ = ids k and above): apply every stored change (seeded/<id>/patch.diff, or harmless/<id>/patch.diff
with --harmless) to a scratch worktree of /repo HEAD, run the property's quick check against it (VERIF_REPO), and record the
outcome in <dir>/result.json.  Seeds: caught = exit 1 with a VIOLATION line.  Harmless edits: ok = exit 0.
(The brief's protocol -- apply to /repo, run, `git checkout -- .` -- gives the same verdicts; the worktree keeps /repo untouched so
other checks can run meanwhile.)"""
import glob, json, os, subprocess, sys
from concurrent.futures import ThreadPoolExecutor
os.chdir(os.path.dirname(os.path.dirname(os.path.abspath(__file__))))
args = sys.argv[1:]
harmless = "--harmless" in args
args = [a for a in args if a != "--harmless"]
jobs = 4
if "-j" in args:
    i = args.index("-j"); jobs = int(args[i + 1]); del args[i:i + 2]
props = args
root = "harmless" if harmless else "seeded"
items = []
for d in sorted(glob.glob(f"{root}/C*_*")):
    sid = os.path.basename(d)
    prop = sid.split("_")[0]
    if props and prop not in props and sid not in props and not any(q.endswith("+") and q[:-1].split("_")[0] == prop and sid.split("_")[1].isdigit() and int(sid.split("_")[1]) >= int(q[:-1].split("_")[1]) for q in props):
        continue
    if not sid.split("_")[1].isdigit() or not os.path.exists(f"{d}/patch.diff") or not os.path.exists(f"contracts/{prop}.py"):
        continue
    items.append((d, sid, prop))
wts = []
for k in range(min(jobs, max(1, len(items)))):
    wt = f"/tmp/seedwt_{os.getpid()}_{k}"
    subprocess.run(["git", "-C", "/repo", "worktree", "add", "-q", "--detach", wt, "HEAD"], check=True)
    wts.append(wt)
free = list(wts)

def one(it):
    d, sid, prop = it
    try:
        ob = json.load(open(f"{d}/meta.json")).get("obsolete_at_head")
    except Exception:
        ob = None
    if ob and not harmless:
        # the library received a repair after this change was written: with the patch applied the demonstration passes (re-confirmed, see meta.json),
        # so exit 0 is the right verdict and the entry is kept for the record only
        json.dump({"seed": sid, "property": prop, "status": "obsolete: no longer breaks the property at /repo HEAD", "reason": ob}, open(f"{d}/result.json", "w"), indent=1)
        return (sid, "obsolete", [], [])
    wt = free.pop()
    try:
        subprocess.run(["git", "-C", wt, "checkout", "--", "."], check=True)
        subprocess.run(["git", "-C", wt, "clean", "-fdq"], check=True)
        a = subprocess.run(["git", "-C", wt, "apply", os.path.abspath(f"{d}/patch.diff")], capture_output=True, text=True)
        if a.returncode != 0:
            return (sid, "patch-does-not-apply", [], [])
        p = subprocess.run(["./check", prop], capture_output=True, text=True, timeout=2400,
                           env=dict(os.environ, VERIF_REPO=wt, PYVC_NO_EVIDENCE="1", PYVC_JOBS=str(max(4, 16 // jobs))))
        vio = [l.split("obligation=")[1].split()[0] for l in p.stdout.splitlines() if l.startswith("VIOLATION") and "obligation=" in l]
        und = [l for l in p.stdout.splitlines() if l.startswith(("UNDECIDED", "ENGINE-ERROR", "MISSING"))]
        vl = [l for l in p.stdout.splitlines() if l.startswith("VIOLATION")]
        with_input = sum(1 for l in vl if not l.rstrip().endswith("no-failing-input-found"))
        if harmless:
            status = "ok" if p.returncode == 0 else f"false-alarm(exit={p.returncode})"
        else:
            status = "caught" if p.returncode == 1 and vio else f"missed(exit={p.returncode})"
        key = "edit" if harmless else "seed"
        json.dump({key: sid, "property": prop, "status": status, "violated_obligations": vio, "violations_with_replayed_input": with_input if not harmless else None,
                   "other_lines": und[:5]}, open(f"{d}/result.json", "w"), indent=1)
        if not harmless and status == "caught" and with_input == 0:
            status = "caught(no-failing-input-found)"
        return (sid, status, vio[:2], und[:1])
    finally:
        free.append(wt)

try:
    with ThreadPoolExecutor(len(wts)) as ex:
        for r in ex.map(one, items):
            print(r[0], r[1], r[2], [u[:220] for u in r[3]], flush=True)
finally:
    for wt in wts:
        subprocess.run(["git", "-C", "/repo", "worktree", "remove", "--force", wt])
