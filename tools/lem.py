"""Debug helper: python3-vt tools/lem.py <Cxx> [substring]: discharge lemmas / EXTRA serially with timings."""
import sys, time, os, importlib
sys.path.insert(0, os.path.dirname(os.path.dirname(os.path.abspath(__file__))))
from pyvc import solve
prop = sys.argv[1]
pat = sys.argv[2] if len(sys.argv) > 2 else ""
pack = importlib.import_module(f"contracts.{prop}")
if pat != "EXTRA":
    t = time.time()
    lems = pack.lemmas() if hasattr(pack, "lemmas") else []
    print("built", len(lems), "lemmas in", round(time.time() - t, 2), flush=True)
    for l in lems:
        if pat in l[0]:
            r = solve.check_vc(l[1], l[2], 20000, want_model=False)
            print(l[0], r.status, r.backend, round(r.seconds, 2), r.reason, flush=True)
else:
    for f in getattr(pack, "EXTRA", []):
        t = time.time()
        r = f(os.environ.get("VERIF_REPO", "/repo"), "quick")
        print(f.__name__, round(time.time() - t, 2))
        for o in r.get("obligations", []):
            print("  ", o["id"], o["status"], o["reason"][:200])
        print(r.get("undecided"), r.get("errors"))
