import json
F = []
def add(fid, ob, kind, fmt, what, excl, site=""):
    F.append({"id": fid, "property": "C14", "obligation": ob, "site": site, "exclusion": excl,
              "witness": {"kind": kind, "format": fmt, "builder": "replay/C14.py::witness"}, "what": what})
P = "C14/"
add("C14-F23-pptx-numbering-restarts-per-slide", P + "pptx_extractor.py::_process_slide_from_context/numbering#counter-starts-at-zero-once-per-document",
    "numbering-per-unit", "pptx", "PPTX image numbers restart at 1 on every slide (image_counter = 0 inside the per-slide helper): two slides with two pictures each give "
    "image_number [1, 2, 1, 2] from iterate_images() instead of 1..4; pinned by tests (test_extractions asserts slides[1].images[0].image_index == 1)",
    "images_on_more_than_one_slide(doc)", "pptx_extractor.py::_process_slide_from_context: image_counter = 0")
add("C14-F23-pdf-numbering-restarts-per-page", P + "pdf_extractor.py::_extract_image_bytes/numbering#counter-starts-at-zero-once-per-document",
    "numbering-per-unit", "pdf", "PDF image numbers restart at 1 on every page (enumerate(candidates, start=1) in the per-page helper): fixture "
    "vendor-creation-form-english-version.pdf gives [1, 1, 2, 3, 4]; generated 2-page PDF gives [1, 1, 2]", "images_on_more_than_one_page(doc)",
    "pdf_extractor.py::_extract_image_bytes: enumerate(candidates, start=1)")
add("C14-pdf-gap-after-failed-candidate", P + "pdf_extractor.py::_extract_image_bytes/numbering#one-increment-per-numbered-image",
    "pdf-bad-candidate", "pdf", "PDF: the image number is the position among the candidate XObjects; a candidate whose extraction raises (e.g. /Width is not a number) is "
    "skipped and the following image keeps number 2 (numbers [2] instead of [1])", "some_image_xobject_fails_to_extract(page)")
add("C14-docx-unnumbered-error-placeholder", P + "docx_extractor.py::_extract_images_from_context/numbering#one-increment-per-numbered-image",
    "corrupt-member", "docx", "DOCX: when reading a media part fails (bad CRC) a placeholder DocxImage(error=...) with image_index 0 and no bytes is returned by "
    "iterate_images(): numbers [0, 1] instead of 1..n", "some_media_part_is_unreadable(package)")
add("C14-odt-unnumbered-error-placeholder", P + "odt_extractor.py::_extract_images_from_context/numbering#one-increment-per-numbered-image",
    "corrupt-member", "odt", "ODT: image_counter is incremented before the read; a failing read appends an unnumbered placeholder (image_index 0) and burns a number: "
    "numbers [0, 2]", "some_media_part_is_unreadable(package)")
add("C14-ods-gap-after-missing-image", P + "ods_extractor.py::_extract_images/numbering#one-increment-per-numbered-image",
    "gap-missing", "ods", "ODS: image_counter is incremented for every frame with an href before the package is consulted; a referenced-but-missing image burns a number: "
    "one missing + one present image gives numbers [2]", "some_frame_references_a_missing_part(sheet)")
add("C14-epub-gap-after-failed-read", P + "epub_extractor.py::_extract_images/numbering#one-increment-per-numbered-image",
    "corrupt-member", "epub", "EPUB: image_counter is incremented before read_bytes(); an unreadable manifest image (bad CRC) burns a number: numbers [2]",
    "some_manifest_image_is_unreadable(package)")
for fmt, mod, fn in (("xlsx", "xlsx_extractor.py", "_extract_images_from_zip"), ("odt", "odt_extractor.py", "_extract_images_from_context"), ("ods", "ods_extractor.py", "_extract_images"),
                     ("odg", "odg_extractor.py", "_extract_images"), ("odp", "odp_extractor.py", "_extract_image"), ("epub", "epub_extractor.py", "_extract_images")):
    what = {"xlsx": "XLSX: when the anchor carries its own extent (xdr:ext of a oneCellAnchor / absoluteAnchor) width/height are that display extent in 96-dpi pixels, "
                    "the size the file declares is only a fallback: a 131x184 PNG in a 10x20 px anchor is reported as 10x20",
            "epub": "EPUB: EpubImage is built without width/height; get_metadata() reports (None, None) although the PNG/JPEG/GIF/BMP declares its size"}.get(
        fmt, f"{fmt.upper()}: width/height are the frame extent svg:width / svg:height converted to 96-dpi pixels (1in x 2in -> 96 x 192), not the pixel size the embedded file declares (131 x 184)")
    add(f"C14-pixel-size-not-from-file-{fmt}", P + f"{mod}::{fn}/pixel-size#size-sniffed-from-the-payload", "pixel-size", fmt, what,
        "embedded_file_declares_a_pixel_size(image)" if fmt != "xlsx" else "anchor_has_own_extent(anchor)")
for fmt, mod, fn, what in (("docx", "docx_extractor.py", "_extract_images_from_context", "DOCX images are numbered in the order of word/_rels/document.xml.rels, not of their appearance in the body"),
                           ("odt", "odt_extractor.py", "_extract_images_from_context", "ODT: captioned (text-box) frames are numbered before all plain frames, whatever their position"),
                           ("xlsx", "xlsx_extractor.py", "_extract_images_from_zip", "XLSX: anchors are visited kind by kind (oneCellAnchor, twoCellAnchor, absoluteAnchor), so a twoCellAnchor that precedes a oneCellAnchor in the drawing is numbered after it"),
                           ("epub", "epub_extractor.py", "_extract_images", "EPUB images are numbered in manifest order, not in reading order")):
    add(f"C14-order-not-document-order-{fmt}", P + f"{mod}::{fn}/order#single-document-order-traversal", "order", fmt, what, "table_or_kind_order_differs_from_body_order(doc)")
for fmt, mod, fn, labs in (("odt", "odt_extractor.py", "_extract_images_from_context", ("frame-image-0", "frame-image-1")), ("odp", "odp_extractor.py", "_extract_image", ("frame-image",)),
                           ("ods", "ods_extractor.py", "_extract_images", ("frame-image",)), ("odg", "odg_extractor.py", "_extract_images", ("frame-image",))):
    for lab in labs:
        add(f"C14-odf-dot-href-{fmt}" + (lab[-2:] if len(labs) > 1 else ""), P + f"{mod}::{fn}/resolution#{lab}", "odf-dot-href", fmt,
            f"{fmt.upper()}: xlink:href is used as the member name verbatim; './Pictures/x.png' (a legal package-relative IRI) is not found and the image is silently dropped",
            "href_has_dot_or_empty_segments(href)")
add("C14-pptx-slide-target-not-resolved", P + "pptx_extractor.py::_PptxContext._compute_slide_order/resolution#slide-part", "slide-target", "pptx",
    "PPTX: presentation.xml.rels slide targets are prefixed with 'ppt/' by hand: an absolute ('/ppt/slides/slide1.xml') or dot ('./slides/slide1.xml') target "
    "names a part that does not exist, the slide comes back empty and its pictures are lost (proposed_fixes/C14_r2_part_names.diff)",
    "slide_target_is_absolute_or_has_dot_segments(target)", "pptx_extractor.py::_compute_slide_order")
add("C14-xlsx-drawing-rels-by-text-replacement", P + "xlsx_extractor.py::_extract_images_from_zip/resolution#drawing-relationship-part", "drawing-dir", "xlsx",
    "XLSX: the relationship part of a drawing is derived by replacing the text 'drawings/' -> 'drawings/_rels/' and '.xml' -> '.xml.rels' in its name; a drawing "
    "part outside a directory called drawings/ (xl/dr/drawing1.xml) loses all its pictures (proposed_fixes/C14_r2_part_names.diff)",
    "drawing_part_not_in_a_directory_named_drawings(part)", "xlsx_extractor.py::_extract_images_from_zip")
add("C14-xlsx-sheet-part-by-tab-index", P + "xlsx_extractor.py::_extract_images_from_zip/resolution#sheet-relationship-part", "sheet-order", "xlsx",
    "XLSX: the drawing of the k-th sheet is looked up in xl/worksheets/_rels/sheet{k}.xml.rels instead of the relationship part of the sheet part that "
    "workbook.xml names for tab k: when part names do not follow tab order the picture is attributed to the wrong sheet",
    "sheet_part_names_do_not_follow_tab_order(workbook)", "xlsx_extractor.py::_extract_images_from_zip")
kf = json.load(open("/tmp/vw_C14/known_findings.json"))
kf["findings"] = [f for f in kf["findings"] if f["property"] != "C14"] + F
json.dump(kf, open("/tmp/vw_C14/known_findings.json", "w"), indent=1)
print(len(F), "C14 findings")
