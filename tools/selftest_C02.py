#!/usr/bin/env python3
"""C02 self-test: breaking edits on a scratch copy must be caught (exit 1), harmless edits must still verify (exit 0).

Base tree = /repo HEAD (the state in which ./check C02 exits 0).
usage: python3 tools/selftest_C02.py [name-substring ...]
"""
import glob
import os
import re
import shutil
import subprocess
import sys

ROOT = os.path.dirname(os.path.dirname(os.path.abspath(__file__)))
BASE, WORK = "/tmp/c02_selftest_base", "/tmp/c02_selftest_work"
E = "sharepoint2text/parsing/extractors/"


def sub(path, old, new, count=1):
    def f(root):
        p = os.path.join(root, E + path)
        s = open(p).read()
        t = s.replace(old, new, count)
        assert t != s, f"pattern not found in {path}"
        open(p, "w").write(t)
    return f


def rename_in(path, start, end, old, new):
    def f(root):
        p = os.path.join(root, E + path)
        s = open(p).read()
        a = s.index(start)
        b = s.index(end, a + 1)
        seg = re.sub(rf"\b{old}\b", new, s[a:b])
        assert seg != s[a:b]
        open(p, "w").write(s[:a] + seg + s[b:])
    return f


def both(*fs):
    def f(root):
        for g in fs:
            g(root)
    return f


EDITS = [
    # ---- breaking: must exit 1 -----------------------------------------------------------------------------
    ("break1_odf_tail_of_skipped_tag_dropped", 1,
     sub("open_office/_shared.py", "        if tail:\n            parts.append(tail)", "        if tail and tag not in skip_tags:\n            parts.append(tail)")),
    ("break2_docx_blocks_joined_without_separator", 1,
     sub("ms_modern/docx_extractor.py", '    return "\\n".join(all_text)', '    return "".join(all_text)')),
    ("break3_slide_text_leaks_speaker_notes", 1,
     sub("data_types.py", "        parts.extend(self.other_text)\n", "        parts.extend(self.other_text)\n        parts.extend(self.notes)\n")),
    ("break4_html_text_after_br_dropped", 1,
     sub("html_extractor.py", '            result = "\\n"\n            if include_tail and node.get("tail"):', '            result = "\\n"\n            if False and node.get("tail"):')),
    ("break5_xls_first_column_dropped", 1,
     sub("ms_legacy/xls_extractor.py", "        for i, val in enumerate(row):\n            width = col_widths[i] if i < num_cols else len(val)",
         "        for i, val in enumerate(row[1:]):\n            width = col_widths[i] if i < num_cols else len(val)")),
    ("break6_docx_run_text_duplicated", 1,
     sub("ms_modern/docx_extractor.py", "                if child.text:\n                    parts.append(child.text)\n            else:",
         "                if child.text:\n                    parts.append(child.text)\n                    parts.append(child.text)\n            else:")),
    ("break7_pptx_formula_delimiter_leaks_comment_text", 1,
     sub("data_types.py", '                parts.append(f"${formula.latex}$")', '                parts.append(f"${formula.latex}$" + self.text)')),
    ("break8_odt_headings_skipped", 1,
     sub("open_office/odt_extractor.py", "    if tag in (_TEXT_P_TAG, _TEXT_H_TAG):\n        text = _get_text_recursive(elem)\n        if text.strip():\n            output.append(text)\n        return",
         "    if tag in (_TEXT_P_TAG, _TEXT_H_TAG):\n        text = _get_text_recursive(elem)\n        if text.strip() and tag == _TEXT_P_TAG:\n            output.append(text)\n        return")),
    # ---- harmless: must exit 0 ------------------------------------------------------------------------------
    ("harmless1_odf_rename_locals_extra_alias", 0,
     sub("open_office/_shared.py", "    text = element.text\n    if text:\n        parts.append(text)\n\n    for child in element:\n        tag = child.tag",
         "    first = element.text\n    if first:\n        parts.append(first)\n\n    for kid in element:\n        child = kid\n        tag = child.tag")),
    ("harmless2_docx_rename_accumulators", 0,
     both(rename_in("ms_modern/docx_extractor.py", "def _extract_paragraph_content", "def _extract_table_text", "parts", "pieces"),
          rename_in("ms_modern/docx_extractor.py", "def _extract_full_text_from_body", "# DOCX Context", "all_text", "blocks_out"))),
    ("harmless3_slide_text_rename_and_reorder_independent_statements", 0,
     both(rename_in("data_types.py", "    def text_combined(self)", "def to_dict", "parts", "chunks"),
          sub("html_extractor.py", '        tag = node.get("tag", "")\n\n        if tag in REMOVE_TAGS:\n            return ""\n\n        result_parts = []',
              '        result_parts = []\n        tag = node.get("tag", "")\n\n        if tag in REMOVE_TAGS:\n            return ""\n'))),
]


def main():
    pats = sys.argv[1:]
    shutil.rmtree(BASE, ignore_errors=True)
    os.makedirs(BASE)
    shutil.copytree("/repo/sharepoint2text", os.path.join(BASE, "sharepoint2text"))
    # (round 1 applied proposed_fixes/C02_*.diff here; they are part of /repo HEAD now, where ./check C02 exits 0)
    os.makedirs(os.path.join(ROOT, "seeded", "C02_selftest"), exist_ok=True)
    bad = 0
    for name, want, edit in EDITS:
        if pats and not any(p in name for p in pats):
            continue
        shutil.rmtree(WORK, ignore_errors=True)
        os.makedirs(WORK)
        shutil.copytree(os.path.join(BASE, "sharepoint2text"), os.path.join(WORK, "sharepoint2text"))
        edit(WORK)
        diff = subprocess.run(["diff", "-ru", "sharepoint2text", os.path.join(WORK, "sharepoint2text")], cwd=BASE, capture_output=True, text=True).stdout
        open(os.path.join(ROOT, "seeded", "C02_selftest", name + ".diff"), "w").write(diff.replace(WORK + "/", "edited/"))
        p = subprocess.run([os.path.join(ROOT, "check"), "C02"], capture_output=True, text=True, env=dict(os.environ, VERIF_REPO=WORK))
        vio = [re.sub(r"replay=\S+ ", "", l) for l in p.stdout.splitlines() if l.startswith("VIOLATION")]
        unrepl = [v for v in vio if "no-failing-input-found" in v]
        ok = p.returncode == want
        bad += not ok
        print(f"{'OK  ' if ok else 'FAIL'} {name}: exit {p.returncode} (expected {want}); {len(vio)} violation line(s), {len(unrepl)} without native witness")
        for v in vio[:3]:
            print("      " + v)
        if not ok:
            print(p.stdout[-1500:], p.stderr[-800:])
    return 1 if bad else 0


if __name__ == "__main__":
    sys.exit(main())
