"""tools/run_harmless.py [Cxx ...]: apply every stored behaviour-preserving edit (harmless/<id>/patch.diff) to /repo, run the
property's quick check, undo, and record the outcome in harmless/<id>/result.json (ok = exit 0, no VIOLATION line)."""
import glob, json, os, subprocess, sys
os.chdir(os.path.dirname(os.path.dirname(os.path.abspath(__file__))))
props = sys.argv[1:]
for d in sorted(glob.glob("harmless/C*_*")):
    hid = os.path.basename(d)
    prop = hid.split("_")[0]
    if props and prop not in props:
        continue
    if not os.path.exists(f"{d}/patch.diff"):
        continue
    subprocess.run(["git", "-C", "/repo", "checkout", "--", "."], check=True)
    a = subprocess.run(["git", "-C", "/repo", "apply", os.path.abspath(f"{d}/patch.diff")], capture_output=True, text=True)
    if a.returncode != 0:
        print(hid, "patch-does-not-apply", flush=True)
        continue
    try:
        p = subprocess.run(["./check", prop], capture_output=True, text=True, timeout=1800, env=dict(os.environ, PYVC_NO_EVIDENCE="1"))
        lines = [l for l in p.stdout.splitlines() if l.startswith(("VIOLATION", "UNDECIDED", "ENGINE-ERROR", "MISSING"))]
        status = "ok" if p.returncode == 0 else f"false-alarm(exit={p.returncode})"
    finally:
        subprocess.run(["git", "-C", "/repo", "checkout", "--", "."], check=True)
    json.dump({"edit": hid, "property": prop, "status": status, "lines": lines[:6]}, open(f"{d}/result.json", "w"), indent=1)
    print(hid, status, [l[:200] for l in lines[:3]], flush=True)
