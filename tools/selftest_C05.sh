#!/bin/bash
# tools/selftest_C05.sh : mutation self-test of the C05 pack.
# Base tree = /repo HEAD + proposed_fixes/C05.diff (the state in which ./check C05 exits 0), in a scratch worktree.
# Every breaking edit must give exit 1, every harmless edit exit 0.
ROOT="$(cd "$(dirname "$0")/.." && pwd)"
BASE=/tmp/c05_selftest_base
git -C /repo worktree remove --force $BASE 2>/dev/null
git -C /repo worktree add -q --detach $BASE HEAD || exit 3
# the proposed fix is part of /repo since the merge; apply it only where it still applies
(cd $BASE && git apply --check "$ROOT/proposed_fixes/C05.diff" 2>/dev/null && git apply "$ROOT/proposed_fixes/C05.diff")
S=sharepoint2text/parsing/extractors/serialization.py
fail=0
one() {  # name expected-exit file old new
  name=$1; want=$2; file=$3; old=$4; new=$5
  d=/tmp/c05_selftest_$name; rm -rf $d; mkdir -p $d; cp -r $BASE/sharepoint2text $d/
  python3 - "$d/$file" "$old" "$new" <<'PY' || { echo "$name: pattern not found"; fail=1; return; }
import sys
p, old, new = sys.argv[1:4]
s = open(p).read()
assert s.count(old) >= 1
open(p, "w").write(s.replace(old, new, 1))
PY
  (cd "$ROOT" && VERIF_REPO=$d timeout 1200 ./check C05 > /tmp/c05_selftest_$name.log 2>&1); got=$?
  echo "$name expected=$want got=$got $(grep '^VIOLATION' /tmp/c05_selftest_$name.log | head -1 | sed 's/.*obligation=//')"
  [ "$got" = "$want" ] || fail=1
  rm -rf $d
}
one M1_marker_renamed_on_one_side 1 $S 'return {"_bytes": _bytes_to_base64(value)}' 'return {"_byte": _bytes_to_base64(value)}'
one M2_optional_unwrapping_dropped 1 $S '    if is_optional:
        expected_type = inner_type' '    if False:
        expected_type = inner_type'
one M3_tuple_handling_dropped 1 $S 'if isinstance(value, (list, tuple, set)):' 'if isinstance(value, (list, set)):'
one M4_binary_nulling_on_str 1 $S '    if isinstance(value, (bytes, bytearray)):
        if not include_binary:
            return None' '    if isinstance(value, (bytes, bytearray, str)):
        if not include_binary:
            return None'
one M5_decoder_marker_renamed 1 $S 'if "_bytesio" in value:
            return _base64_to_bytesio(value["_bytesio"])
        if "_bytes" in value:' 'if "_bytesIO" in value:
            return _base64_to_bytesio(value["_bytesIO"])
        if "_bytes" in value:'
one M6_cli_object_for_zero_results 1 sharepoint2text/cli.py 'if len(results) == 1:
        return serialize_extraction(results[0]' 'if len(results) <= 1:
        return serialize_extraction(results[0]'
one M7_field_skipped_on_rebuild 1 $S 'if field_name in data:' 'if field_name in data and field_name != "text":'
one M8_stream_not_rewound 1 $S '    position = buffer.tell()
    buffer.seek(0)' '    position = buffer.tell()'
one M9_wrong_element_hint 1 $S 'return [_deserialize_value(item, item_type) for item in value]' 'return [_deserialize_value(item, typing.Any) for item in value]'
one M10_fix_reverted 1 sharepoint2text/parsing/extractors/ms_modern/xlsx_extractor.py '    if isinstance(cell_value, (bool, int, float, str)):
        return cell_value' '    if True:
        return cell_value'
one H1_rename_locals_encoder 0 $S '        result = {
            _TYPE_KEY: type(value).__name__,
        }
        for item in fields(value):
            result[item.name] = _serialize_for_json(
                getattr(value, item.name), include_binary=include_binary
            )
        return result' '        encoded = {
            _TYPE_KEY: type(value).__name__,
        }
        for fld in fields(value):
            encoded[fld.name] = _serialize_for_json(
                getattr(value, fld.name), include_binary=include_binary
            )
        return encoded'
one H2_reorder_independent_statements 0 $S '    field_types = _get_field_types(cls)
    field_names = {f.name for f in fields(cls)}' '    field_names = {f.name for f in fields(cls)}
    field_types = _get_field_types(cls)'
one H3_rename_locals_decoder 0 $S '    kwargs = {}
    for field_name in field_names:
        if field_name in data:
            field_type = field_types.get(field_name, typing.Any)
            kwargs[field_name] = _deserialize_value(data[field_name], field_type)

    return cls(**kwargs)' '    ctor_args = {}
    for fname in field_names:
        if fname in data:
            ftype = field_types.get(fname, typing.Any)
            ctor_args[fname] = _deserialize_value(data[fname], ftype)

    return cls(**ctor_args)'
git -C /repo worktree remove --force $BASE
[ $fail = 0 ] && echo "C05 self-test: all as expected" || echo "C05 self-test: MISMATCH"
exit $fail
