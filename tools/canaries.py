"""tools/canaries.py <Cxx> [N]: mutation canaries (thorough tier, DESIGN §2.5.5).

In-memory AST mutants of the functions under contract (relational operator flips, off-by-one constants, and/or swaps,
dropped statements) are written to a scratch copy of the package (hard links; only the mutated file is rewritten) and the
property's quick check is run against it.  A mutant is KILLED when the check exits 1 with a VIOLATION line; exit 2/3 counts
as not-decided, exit 0 as survived (a contract weakness or an equivalent mutant -- reported, never a violation).
Writes out/canaries_<Cxx>.json and prints one line per mutant.  Scratch copies live under /tmp and are removed at once.
"""
import ast, copy, json, os, random, shutil, subprocess, sys, tempfile
ROOT = os.path.dirname(os.path.dirname(os.path.abspath(__file__)))
os.chdir(ROOT)
prop = sys.argv[1]
N = int(sys.argv[2]) if len(sys.argv) > 2 else 12
seed = int(os.environ.get("VERIF_SEED", "0") or 0)
repo = os.environ.get("VERIF_REPO", "/repo")
ev = json.load(open(f"evidence/{prop}.json"))
fns = [f for f in ev["coverage"].get("functions_under_contract", []) if "::" in f.get("function", "") and "<" not in f["function"].split("::")[0]]
rnd = random.Random(seed * 7919 + sum(map(ord, prop)))

FLIP = {ast.Lt: ast.LtE, ast.LtE: ast.Lt, ast.Gt: ast.GtE, ast.GtE: ast.Gt, ast.Eq: ast.NotEq, ast.NotEq: ast.Eq, ast.In: ast.NotIn, ast.NotIn: ast.In}


def sites(tree, lo, hi):
    out = []
    for n in ast.walk(tree):
        ln = getattr(n, "lineno", None)
        if ln is None or not (lo <= ln <= hi):
            continue
        if isinstance(n, ast.Compare) and len(n.ops) == 1 and type(n.ops[0]) in FLIP:
            out.append(("flip", n))
        elif isinstance(n, ast.Constant) and isinstance(n.value, int) and not isinstance(n.value, bool) and 0 <= n.value < 1 << 40:
            out.append(("const", n))
        elif isinstance(n, ast.BoolOp):
            out.append(("boolop", n))
        elif isinstance(n, (ast.AugAssign,)) or (isinstance(n, ast.Expr) and isinstance(n.value, ast.Call)):
            out.append(("drop", n))
        elif isinstance(n, ast.UnaryOp) and isinstance(n.op, ast.Not):
            out.append(("unnot", n))
    return out


def mutate(src, lo, hi, pick):
    tree = ast.parse(src)
    ss = sites(tree, lo, hi)
    if not ss:
        return None, None
    kind, node = ss[pick % len(ss)]
    desc = f"{kind} at line {node.lineno}: {ast.unparse(node)[:60]}"
    if kind == "flip":
        node.ops = [FLIP[type(node.ops[0])]()]
    elif kind == "const":
        node.value = node.value + 1
    elif kind == "boolop":
        node.op = ast.Or() if isinstance(node.op, ast.And) else ast.And()
    elif kind == "unnot":
        node.op = ast.UAdd()
        # `+x` on a bool-ish is not the same as not x; replace node by its operand instead
        for parent in ast.walk(tree):
            for f, v in ast.iter_fields(parent):
                if v is node:
                    setattr(parent, f, node.operand)
                elif isinstance(v, list) and node in v:
                    v[v.index(node)] = node.operand
    elif kind == "drop":
        for parent in ast.walk(tree):
            for f, v in ast.iter_fields(parent):
                if isinstance(v, list) and node in v:
                    v[v.index(node)] = ast.Pass()
    ast.fix_missing_locations(tree)
    try:
        out = ast.unparse(tree)
        compile(out, "<mutant>", "exec")
    except Exception:
        return None, None
    return out, desc


results = []
tries = 0
while len(results) < N and tries < 6 * N and fns:
    tries += 1
    f = rnd.choice(fns)
    rel = f["function"].split("::")[0]
    lo, hi = f.get("lines", [1, 10 ** 9])
    path = os.path.join(repo, rel)
    if not os.path.exists(path):
        continue
    src = open(path, encoding="utf-8").read()
    mutant, desc = mutate(src, lo, hi, rnd.randrange(10 ** 6))
    if mutant is None or mutant == ast.unparse(ast.parse(src)):
        continue
    scratch = tempfile.mkdtemp(prefix="pyvc_canary_")
    try:
        subprocess.run(["cp", "-al", os.path.join(repo, "sharepoint2text"), os.path.join(scratch, "sharepoint2text")], check=True)
        for extra in ("README.md",):
            if os.path.exists(os.path.join(repo, extra)):
                shutil.copy(os.path.join(repo, extra), os.path.join(scratch, extra))
        tgt = os.path.join(scratch, rel)
        os.unlink(tgt)
        open(tgt, "w", encoding="utf-8").write(mutant)
        env = dict(os.environ, VERIF_REPO=scratch, VERIF_TIER="quick", PYVC_NO_EVIDENCE="1")
        p = subprocess.run(["./check", prop, "--tier", "quick"], capture_output=True, text=True, timeout=3600, env=env)
        vio = [l.split("obligation=")[1].split()[0] for l in p.stdout.splitlines() if l.startswith("VIOLATION") and "obligation=" in l]
        status = "killed" if p.returncode == 1 and vio else ("not-decided" if p.returncode in (2, 3) else "survived")
    finally:
        shutil.rmtree(scratch, ignore_errors=True)
    results.append({"function": f["function"], "mutation": desc, "status": status, "by": vio[:2]})
    print(f"canary {len(results)}/{N} {status}: {f['function'].split('::')[1]} {desc}", flush=True)
summary = {"generated": len(results), "killed": sum(r["status"] == "killed" for r in results),
           "not_decided": sum(r["status"] == "not-decided" for r in results),
           "survived": [r for r in results if r["status"] == "survived"], "all": results}
os.makedirs("out", exist_ok=True)
json.dump(summary, open(f"out/canaries_{prop}.json", "w"), indent=1)
print(f"canaries {prop}: generated={summary['generated']} killed={summary['killed']} not-decided={summary['not_decided']} survived={len(summary['survived'])}")
