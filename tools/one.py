"""Debug helper: python3-vt tools/one.py <Cxx> <substring of target>: verify matching functions serially with timings."""
import sys, time, os, importlib
sys.path.insert(0, os.path.dirname(os.path.dirname(os.path.abspath(__file__))))
from pyvc.contracts import Registry
from pyvc.exctypes import Universe
from pyvc import verify
prop, pat = sys.argv[1], sys.argv[2]
pack = importlib.import_module(f"contracts.{prop}")
reg = Registry(); uni = Universe(os.environ.get("VERIF_REPO", "/repo"))
cs = pack.contracts(reg)
for c in cs:
    reg.add(c)
for c in cs:
    if pat not in c.target or c.assumed:
        continue
    t = time.time()
    kw = getattr(pack, "EXECUTOR_KW", {}).get(c.target, None)
    rep = verify.run_contract(prop, c, reg, uni, executor_cls=getattr(pack, "EXECUTOR", verify.Executor), executor_kw=kw)
    print(c.target.split("::")[1], "err", rep.error, "oos", rep.out_of_subset, "paths", rep.paths, "gen", round(rep.gen_seconds, 2), "total", round(time.time() - t, 2), flush=True)
    if rep.abstracted:
        print("   abstracted:", rep.abstracted[:8])
    for o in rep.obligations:
        print("  ", o["id"].split("::")[1], o["status"], o["vcs"], o["seconds"], (o["reason"] or "")[:150], o.get("witness"), flush=True)
